#!/usr/bin/env python3
"""robustness sweep of the bounded stand-ins on the CURRENT tree: every stand-in, quick size, many seeds; any failure that is not a
listed known finding is printed (a stand-in must never fail on a tree where the property holds).
usage: .venv/bin/python standin_sweep.py [first_seed] [n_seeds] [tier]"""
import importlib, json, os, sys, time, traceback
HERE = os.path.dirname(os.path.abspath(__file__))
sys.path.insert(0, HERE)
first = int(sys.argv[1]) if len(sys.argv) > 1 else 1
n = int(sys.argv[2]) if len(sys.argv) > 2 else 10
tier = sys.argv[3] if len(sys.argv) > 3 else 'quick'
os.makedirs('/var/tmp/sweep-tmp', exist_ok=True)
os.environ['TMPDIR'] = '/var/tmp/sweep-tmp'
os.environ.setdefault('MPLBACKEND', 'Agg')
kf = {f.get('standin_case') for f in json.load(open(os.path.join(HERE, 'known_findings.json'))).get('findings', [])}
mods = sorted(f[:-3] for f in os.listdir(os.path.join(HERE, 'standins')) if f.startswith('c') and f[1:3].isdigit() and f.endswith('.py'))
bad = 0
for m in mods:
    mod = importlib.import_module('standins.' + m)
    for seed in range(first, first + n):
        t0 = time.time()
        try:
            r = mod.run(tier, seed)
            fails = [f for f in r['failures'] if f.get('key') not in kf]
        except Exception as e:
            fails = [{'key': 'raises', 'observed': [traceback.format_exc()[-400:]]}]
        if fails:
            bad += 1
            print("FAIL %s seed=%d: %s %s" % (m, seed, fails[0].get('key'), str(fails[0].get('observed'))[:300]), flush=True)
    print("%s done (%d seeds, last %.1fs)" % (m, n, time.time() - t0), flush=True)
print("sweep finished: %d failing (module, seed) pairs" % bad)
