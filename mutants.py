"""Catalogue of deliberate property-breaking edits used by selftest.py (never applied to /repo)."""
D = 'pygom/utilR/distn.py'
S = 'pygom/model/stochastic_simulation.py'
MUTANTS = [
    dict(property='C11', name='checkJump upper bound >=', file=S, old="if x_new[i]<x_min or x_new[i]>x_max:", new="if x_new[i]<x_min or x_new[i]>=x_max:"),
    dict(property='C11', name='checkJump ignores lower-only limits', file=S, old="                if x_new[i]<x_min:\n                    failed_jump=True", new="                if x_new[i]<x_min:\n                    failed_jump=False"),
    dict(property='C11', name='checkJump rejected step still advances time', file=S, old="        x_new=x\n        t_new=t\n", new="        x_new=x\n        t_new=t + jump_time\n"),
    dict(property='C19', name='qexp uses rate as scale', file=D, old="return st.expon.ppf(p, scale=1.0/rate)", new="return st.expon.ppf(p, scale=rate)"),
    dict(property='C19', name='pgamma log returns logpdf', file=D, old="return st.gamma.logcdf(q, a=shape, scale=1.0/rate)", new="return st.gamma.logpdf(q, a=shape, scale=1.0/rate)"),
    dict(property='C19', name='punif scale=max', file=D, old="return st.uniform.cdf(q, loc=min, scale=max-min)", new="return st.uniform.cdf(q, loc=min, scale=max)"),
    dict(property='C19', name='rnorm n==1 path ignores seed', file=D, old="        return rvs(loc=mean, scale=sd, size=n)[0]", new="        return np.random.normal(loc=mean, scale=sd, size=n)[0]"),
    dict(property='C19', name='nb2pmf drops a term', file=D, old="logpmf = logpmf_p1+logpmf_p2+logpmf_p3+logpmf_p4+logpmf_p5", new="logpmf = logpmf_p1+logpmf_p2+logpmf_p3+logpmf_p4"),
    dict(property='C19', name='test_seed(int) uses entropy', file=D, old="        return np.random.RandomState(seed)\n    elif seed is False:", new="        return np.random.RandomState()\n    elif seed is False:"),
    dict(property='C19', name='dbinom swaps size/prob', file=D, old="return st.binom.pmf(x, n=size, p=prob)", new="return st.binom.pmf(x, n=prob, p=size)"),
]
LT = 'pygom/loss/loss_type.py'
MUTANTS += [
    dict(property='C14', name='Normal.loss drops the 1/2 on log 2', file=LT, old="logpdf_p2 = np.log(2)/2", new="logpdf_p2 = np.log(2)"),
    dict(property='C14', name='Poisson.diff2Loss uses yhat instead of yhat**2', file=LT, old="return self._y/(yhat**2)", new="return self._y/(yhat)"),
    dict(property='C14', name='NegBinom.diff_loss wrong denominator', file=LT, old="first_derivs_yhat = k*-residual/(yhat*(k+yhat))", new="first_derivs_yhat = k*-residual/(yhat*(k+yhat)**2)"),
    dict(property='C14', name='Square.diff_loss sign', file=LT, old="return -2*self.residual(yhat, apply_weighting)", new="return 2*self.residual(yhat, apply_weighting)"),
    dict(property='C14', name='Gamma.diff2Loss drops y', file=LT, old="return shape*(residual+self._y)/yhat**3", new="return shape*(residual)/yhat**3"),
    dict(property='C14', name='gamma_mu_shape wrong scale term', file=D, old="logpdf_p3= -shape*np.log(mu/shape)", new="logpdf_p3= -shape*np.log(mu)"),
]
MUTANTS += [
    dict(property='C05', name='rexp reciprocal scale', file=D, old="    if n > 1:\n        return rvs(scale=1.0/rate, size=n)\n    else:\n        return rvs(scale=1.0/rate, size=n)[0]", new="    if n > 1:\n        return rvs(scale=1.0/rate, size=n)\n    else:\n        return rvs(scale=rate, size=n)[0]"),
    dict(property='C05', name='firstReaction takes the latest clock', file=S, old="min_index = np.argmin(jump_times)", new="min_index = np.argmax(jump_times)"),
    dict(property='C05', name='_newJumpTimes ignores the rate', file=S, old="tau = [rexp(1, r, seed=seed) if r > 0 else np.inf for r in rates]", new="tau = [rexp(1, 1.0, seed=seed) if r > 0 else np.inf for r in rates]"),
    dict(property='C04', name='firstReaction one-hot count is 2', file=S, old="    jumps[min_index]=1\n", new="    jumps[min_index]=2\n"),
    dict(property='C04', name='_updateStateWithJump uses a row', file=S, old="return x + state_change_mat[:, transition_index]*n", new="return x + state_change_mat[transition_index, :]*n"),
    dict(property='C04', name='firstReaction stops when any rate is zero', file=S, old="    changes=state_change_mat(x, t)\n    rates = transition_func(x, t)\n    # For now we assume when all transition rates are zero, further simulation is not necessary.\n    if all(rates==0):\n        return 0, 0, 0, 0, False\n\n    # find our jump times", new="    changes=state_change_mat(x, t)\n    rates = transition_func(x, t)\n    # For now we assume when all transition rates are zero, further simulation is not necessary.\n    if any(rates==0):\n        return 0, 0, 0, 0, False\n\n    # find our jump times"),
    dict(property='C16', name='firstReaction forces a fresh entropy stream', file=S, old="    jump_times = _newJumpTimes(rates, seed=seed)", new="    jump_times = _newJumpTimes(rates, seed=True)"),
]
MUTANTS += [
    dict(property='C04', name='tauLeap Poisson mean ignores tau', file=S, old="n_event_occurances = rpois(1, tau_scale*r, seed=seed)", new="n_event_occurances = rpois(1, r, seed=seed)"),
    dict(property='C04', name='tauLeap applies counts of previous event', file=S, old="new_x = _updateStateWithJump(new_x, i, changes, n_event_occurances)", new="new_x = _updateStateWithJump(new_x, max(i-1, 0), changes, n_event_occurances)"),
    dict(property='C04', name='tauLeap drift not scaled by tau', file=S, old="new_x = new_x + determ_changes*tau_scale", new="new_x = new_x + determ_changes"),
    dict(property='C10', name='tauLeap records counts but moves state by counts+1 for event 0', file=S, old="        jumps[i]=n_event_occurances\n", new="        jumps[i]=n_event_occurances\n        if i == 0:\n            n_event_occurances = n_event_occurances + 1\n"),
    dict(property='C11', name='tauLeap bypasses the limit check when adaptive', file=S, old="    return  _checkJump(x, new_x, x_lims, t, tau_scale, jumps)", new="    if pre_tau is None:\n        return t + tau_scale, tau_scale, new_x, jumps, True\n    return  _checkJump(x, new_x, x_lims, t, tau_scale, jumps)"),
]
SIMF = 'pygom/model/simulate.py'
MUTANTS += [
    dict(property='C04', name='_jump records the step size as the new time', file=SIMF, old="                    dtList.append(jump_time)", new="                    dtList.append(t)"),
    dict(property='C04', name='_jump tau-leap keeps the old state after an accepted leap', file=SIMF, old="                        t, x = t_new, x_new", new="                        t = t_new"),
    dict(property='C11', name='_jump passes no limits to firstReaction (exact)', file=SIMF, old="""                    t, jump_time, x, jumps, success = firstReaction(x,
                                                                    self._state_lims,
                                                                    t,
                                                                    self.vMat,
                                                                    self.eventRateVector,
                                                                    seed=seed)
                    if success==False:
                        break
                else:""", new="""                    t, jump_time, x, jumps, success = firstReaction(x,
                                                                    [(None, None)]*len(x),
                                                                    t,
                                                                    self.vMat,
                                                                    self.eventRateVector,
                                                                    seed=seed)
                    if success==False:
                        break
                else:"""),
    dict(property='C04', name='_jump tau-leap: a rejected fall-back step is recorded', file=SIMF, old="                        if success==False:\n                            break\n\n                if success:", new="                        if success==False:\n                            success = (t > 0)\n\n                if success:"),
    dict(property='C16', name='_jump serial path asks for a fresh RandomState', file=SIMF, old="                                                                      seed=seed,\n                                                                      pre_tau=self.pre_tau)", new="                                                                      seed=True,\n                                                                      pre_tau=self.pre_tau)"),
    dict(property='C04', name='_jump starts the path one step late', file=SIMF, old="        xList = [x.copy()]          # states\n        tList = [t]                 # timepoints", new="        xList = [x.copy()]          # states\n        tList = [t + 1]                 # timepoints"),
]
OUF = 'pygom/model/ode_utils/__init__.py'
DETF = 'pygom/model/deterministic.py'
MUTANTS += [
    dict(property='C02', name='_integrateOneStep returns the live buffer again (no copy)', file=OUF, old="        else:\n            return r.y.copy()\n", new="        else:\n            return r.y\n"),
    dict(property='C02', name='ivode silently uses adams', file=OUF, old="set_integrator('vode', method='bdf',", new="set_integrator('vode', method='adams',"),
    dict(property='C02', name='includeOrigin appends after the loop', file=OUF, old="    if includeOrigin:\n        solution.append(x0)\n\n    if isinstance(t, Number):", new="    if isinstance(t, Number):"),
    dict(property='C02', name='full_output restarts from the previous time', file=OUF, old="r = _setupIntegrator(func, jac, o1, deltaT, args, method, nsteps)", new="r = _setupIntegrator(func, jac, o1, t0, args, method, nsteps)"),
    dict(property='C02', name='dop853 dispatches to dopri5', file=OUF, old="        r = scipy.integrate.ode(func).set_integrator('dop853', nsteps=nsteps,", new="        r = scipy.integrate.ode(func).set_integrator('dopri5', nsteps=nsteps,"),
    dict(property='C02', name='loose tolerance', file=OUF, old="atol = 1e-10\n", new="atol = 1e-3\n"),
    dict(property='C02', name='_integrate2 drops the first requested time', file=DETF, old="                                               t[0], t[1::],", new="                                               t[0], t[2::],"),
    dict(property='C02', name='_setIntegrateTime appends t0 at the end', file=DETF, old="                t = np.append(self._t0, t)\n", new="                t = np.append(t, self._t0)\n"),
    dict(property='C02', name='odeint gets the column-derivative flag', file=OUF, old="col_deriv=False,", new="col_deriv=True,"),
    dict(property='C02', name='jacobian_T does not swap arguments', file=DETF, old="        return self.jacobian(state, t)\n\n    def _Jacobian_NoCheck", new="        return self.jacobian(t, state)\n\n    def _Jacobian_NoCheck"),
]
BASEF = 'pygom/model/base_ode_model.py'
MUTANTS += [
    dict(property='C01', name='get_ode_eqn: death adds instead of subtracts', file=DETF, old="                    birth_death_ode[origin_index] -= rate_of_change", new="                    birth_death_ode[origin_index] += rate_of_change"),
    dict(property='C01', name='get_ode_eqn: transition ignores the magnitude', file=DETF, old="                rate_of_change=magnitude*rate\n                if transition.transition_type==TransitionType.B:\n                    destination_index=self.state_list.index(transition.destination)\n                    birth_death_ode[destination_index] += rate_of_change", new="                rate_of_change=magnitude*rate\n                if transition.transition_type==TransitionType.T:\n                    rate_of_change=rate\n                if transition.transition_type==TransitionType.B:\n                    destination_index=self.state_list.index(transition.destination)\n                    birth_death_ode[destination_index] += rate_of_change"),
    dict(property='C01', name='get_ode_eqn: destination gets nothing for T', file=DETF, old="                    between_state_ode[destination_index] += rate_of_change\n", new="                    between_state_ode[destination_index] += 0\n"),
    dict(property='C01', name='get_ode_eqn: explicit ODE term overwrites instead of adds', file=DETF, old="            pure_ode[origin_index] += checkEquation(ode.equation, *self._getListOfVariablesDict())\n\n        # Collect", new="            pure_ode[origin_index] = checkEquation(ode.equation, *self._getListOfVariablesDict())\n\n        # Collect"),
    dict(property='C01', name='get_ode_eqn: pure terms dropped from the sum', file=DETF, old="        self._ode = between_state_ode + birth_death_ode + pure_ode", new="        self._ode = between_state_ode + birth_death_ode"),
    dict(property='C01', name='vMat: birth uses magnitude 1', file=BASEF, old="                    self._vMat[destination_index, event_index] += magnitude\n                elif transition.transition_type==TransitionType.D:", new="                    self._vMat[destination_index, event_index] += 1\n                elif transition.transition_type==TransitionType.D:"),
    dict(property='C01', name='vMat: transposed store for T origin', file=BASEF, old="                    self._vMat[origin_index, event_index] -= magnitude\n                    self._vMat[destination_index, event_index] += magnitude", new="                    self._vMat[event_index, origin_index] -= magnitude\n                    self._vMat[destination_index, event_index] += magnitude"),
    dict(property='C01', name='rate vector: every entry is the first rate', file=BASEF, old="            self._eventRateVector[i]=checkEquation(event.rate, *self._getListOfVariablesDict())", new="            self._eventRateVector[i]=checkEquation(self.event_list[0].rate, *self._getListOfVariablesDict())"),
    dict(property='C01', name='pureOdeVector: indexes by loop position', file=BASEF, old="        for ode in self.ode_list:\n            origin_index=self.state_list.index(ode.origin)\n            pure_ode[origin_index] += checkEquation(ode.equation, *self._getListOfVariablesDict())\n\n        self._pureOdeVector=pure_ode", new="        for n_ode, ode in enumerate(self.ode_list):\n            origin_index=n_ode\n            pure_ode[origin_index] += checkEquation(ode.equation, *self._getListOfVariablesDict())\n\n        self._pureOdeVector=pure_ode"),
]
MUTANTS += [
    dict(property='C03', name='grad_jacobian row index i*nP+k', file=DETF, old="                    z = k*self.num_state + i", new="                    z = i*self.num_param + k"),
    dict(property='C03', name='grad_jacobian differentiates the wrong gradient cell', file=DETF, old="simplifyEquation(diff(G[i,k], s, 1))", new="simplifyEquation(diff(G[i,0], s, 1))"),
    dict(property='C03', name='grad uses the state symbols', file=DETF, old="            for j, p in enumerate(self._iterParamList()):\n                eqn, isDifficult = simplifyEquation(diff(ode[i], p, 1))", new="            for j, p in enumerate(self._iterStateList()):\n                eqn, isDifficult = simplifyEquation(diff(ode[i], p, 1))"),
    dict(property='C03', name='jacobian simplification writes to the transposed cell', file=DETF, old="                    self._Jacobian[i,j], isDifficult = simplifyEquation(eqn)", new="                    self._Jacobian[j,i], isDifficult = simplifyEquation(eqn)"),
]
MUTANTS += [
    dict(property='C04', name='adaptive step: mean bound without abs (negative step)', file=S, old="tau_scale_mu=min(bound/abs(mu))", new="tau_scale_mu=min(bound/mu)"),
    dict(property='C04', name='adaptive step: bound can be zero (epsilon*min rate)', file=S, old="bound = epsilon*np.sum(rates)", new="bound = epsilon*np.min(rates)"),
    dict(property='C04', name='solve_stochast returns step sizes as times', file=SIMF, old="simXList, simJumpList, simTList, simdTList = list(xmat[0]), list(xmat[1]), list(xmat[2]), list(xmat[3])", new="simXList, simJumpList, simTList, simdTList = list(xmat[0]), list(xmat[1]), list(xmat[3]), list(xmat[2])"),
    dict(property='C16', name='simulate_param: mean leaves out the first run', file=SIMF, old="Y = np.dstack(solutionList).mean(axis=2)", new="Y = np.dstack(solutionList[1:]).mean(axis=2)"),
    dict(property='C16', name='solve_stochast serial path seeds each run afresh', file=SIMF, old="            logging.debug(\"Performing serial simulation\")\n            xtmp = [self._jump(finalT, exact=exact, full_output=True) for _i in range(iteration)]", new="            logging.debug(\"Performing serial simulation\")\n            xtmp = [self._jump(finalT, exact=exact, full_output=True, seed=True) for _i in range(iteration)]"),
    dict(property='C10', name='T transition adds magnitude but removes 1 (vMat)', file=BASEF, old="                    self._vMat[origin_index, event_index] -= magnitude\n                    self._vMat[destination_index, event_index] += magnitude", new="                    self._vMat[origin_index, event_index] -= 1\n                    self._vMat[destination_index, event_index] += magnitude"),
    dict(property='C10', name='tauLeap applies a drift although there are no explicit terms (uses rates)', file=S, old="new_x = new_x + determ_changes*tau_scale", new="new_x = new_x + determ_changes*tau_scale + 0*new_x + tau_scale"),
]
MUTANTS += [
    dict(property='C09', name='pairs: value stored under the positional symbol, not the named one', file=BASEF, old="                            index_temp = f(parameters[i][0])", new="                            index_temp = f(str(self._paramList[i]))"),
    dict(property='C09', name='dict: partial update starts from an empty holder (forgets earlier values)', file=BASEF, old="                if hasattr(self, \"_parameters\"):\n", new="                if False:\n"),
    dict(property='C09', name='final unrolling: first binding of a parameter wins', file=BASEF, old="            index = self.get_param_index(key)\n            param_value[index] = val", new="            index = self.get_param_index(key)\n            if param_value[index] == 0:\n                param_value[index] = val"),
    dict(property='C09', name='unknown pair name silently skipped', file=BASEF, old="        if input_str in self._paramDict:\n            return self._paramDict[input_str]\n        else:\n            raise InputError(\"Input parameter: %s does not exist\" % input_str)", new="        if input_str in self._paramDict:\n            return self._paramDict[input_str]\n        else:\n            return self._paramDict[self._paramList[0].ID]"),
    dict(property='C16', name='frozen distribution drawn with a private RandomState', file=BASEF, old="param_out[f(inParam)] = value.rvs(1)[0]", new="param_out[f(inParam)] = value.rvs(1, random_state=np.random.RandomState())[0]"),
]
CANF = 'pygom/model/ode_utils/compile_canary.py'
MUTANTS += [
    dict(property='C08', name='add_ode does not invalidate (the original defect)', file=BASEF, old="                self._odeList.append(eqn)\n                self._hasNewTransition.trip()", new="                self._odeList.append(eqn)"),
    dict(property='C08', name='evaluator ignores its recompile flag', file=DETF, old="            if not hasattr(self, compiled_obj_name) or getattr(self._hasNewTransition, method_name):", new="            if not hasattr(self, compiled_obj_name):"),
    dict(property='C08', name='master evaluator does not trip the others', file=DETF, old="        if is_master_canary:\n            self._hasNewTransition.trip()", new="        if False:\n            self._hasNewTransition.trip()"),
    dict(property='C08', name='compile clears the ode flag instead of its own', file=DETF, old="        self._hasNewTransition.reset(method_name)", new="        self._hasNewTransition.reset('ode')"),
    dict(property='C08', name='param_list setter does not invalidate', file=BASEF, old="            raise InputError(\"Expecting a list\")\n\n        self._hasNewTransition.trip()\n\n    @property\n    def derived_param_list", new="            raise InputError(\"Expecting a list\")\n\n    @property\n    def derived_param_list"),
    dict(property='C08', name='compiled closure freezes the parameter values at compile time', file=DETF, old="        def comp_obj(state, time):\n            return compiled_obj(self._getEvalParam(state, time, None))", new="        frozen = list(self._paramValue)\n        def comp_obj(state, time):\n            return compiled_obj(list(state) + [time] + frozen)"),
    dict(property='C08', name='add_birth_death(D) does not invalidate', file=BASEF, old="                self._birthDeathList.append(death_event)\n                self._hasNewTransition.trip()   ", new="                self._birthDeathList.append(death_event)"),
]
MUTANTS += [
    dict(property='C15', name='exact-mode counts are totals again (histogram of all times, no weights)', file=SIMF, old="hist, bin_edges=np.histogram(t[1:], bins=targetTime, weights=dX[:,i])", new="hist, bin_edges=np.histogram(t, bins=targetTime)"),
    dict(property='C15', name='counts weighted by the first column for every transition', file=SIMF, old="hist, bin_edges=np.histogram(t[1:], bins=targetTime, weights=dX[:,i])", new="hist, bin_edges=np.histogram(t[1:], bins=targetTime, weights=dX[:,0])"),
    dict(property='C15', name='extract uses the next event instead of the last one before', file=SIMF, old="                index = max(np.searchsorted(t, t_target) - 1, 0)", new="                index = min(np.searchsorted(t, t_target), len(t) - 1)"),
    dict(property='C15', name='rotation pairs counts of run r with times of run r+1', file=SIMF, old="                simJump = simJumpList.pop(0)\n                jump=self._addJumpsBetweenTime(simJump, simT, t, exact)", new="                simJump = simJumpList.pop(0)\n                jump=self._addJumpsBetweenTime(simJump, simTList[0] if len(simTList) else simT, t, exact)"),
    dict(property='C15', name='grid given as a list: horizon is the first grid time', file=SIMF, old="            else:\n                finalT = t[-1:]\n                timePoint = True\n        elif isinstance(t, np.ndarray):", new="            else:\n                finalT = t[:1]\n                timePoint = True\n        elif isinstance(t, np.ndarray):"),
    dict(property='C15', name='exact gridded states interpolated instead of extracted', file=SIMF, old="                if exact:\n                    x = self._extractObservationAtTime(simX, simT, t)", new="                if not exact:\n                    x = self._extractObservationAtTime(simX, simT, t)"),
]
TRF = 'pygom/model/transition.py'
MUTANTS += [
    dict(property='C12', name='add_transition rebuilds the process without its magnitude (original defect)', file=BASEF, old="                                 transition_type=\"T\",\n                                 magnitude=transition._magnitude)", new="                                 transition_type=\"T\")"),
    dict(property='C12', name='add_birth_death(D) rebuilds the process without its magnitude', file=BASEF, old="                trans_death=Transition(origin=birth_death.origin, transition_type=\"D\",\n                                       magnitude=birth_death._magnitude)", new="                trans_death=Transition(origin=birth_death.origin, transition_type=\"D\")"),
    dict(property='C12', name="add_event(Transition) clears the caller's equation (original defect)", file=BASEF, old="            derived_event=Event(transition_list=[event])\n", new="            derived_event=Event(transition_list=[event])\n            event._setEquation(None)\n            derived_event.transition_list[0]._equation=None\n"),
    dict(property='C12', name='Event with the rate on one member of several leaves rate unset (original defect)', file=TRF, old="            elif n_eq==1:\n                self.rate=member_rate", new="            elif n_eq==1:\n                self.rate=rate"),
    dict(property='C12', name='transition_list setter adds every other item', file=BASEF, old="            for t in transition_list:\n                self.add_transition(t)", new="            for t in transition_list[::2]:\n                self.add_transition(t)"),
    dict(property='C12', name='Event takes the FIRST member equation when several members have one', file=TRF, old="            if n_eq>1:\n                raise InputStateError(\"Zero or one equations needed, but \", n_eq, \" provided\")", new="            if n_eq>2:\n                raise InputStateError(\"Zero or one equations needed, but \", n_eq, \" provided\")"),
]
MUTANTS += [
    dict(property='C13', name='eval_sensitivity: J S + G becomes S-transposed product (G dropped)', file=DETF, old="        A = np.dot(J, S) + G\n\n        if by_state:", new="        A = np.dot(J, S)\n\n        if by_state:"),
    dict(property='C13', name='sensitivity: by-state input reshaped in Fortran order', file=DETF, old="            S = np.reshape(sens, (self.num_state, self.num_param))\n        else:\n            S = self._SAUtil.vecToMatSens(sens)", new="            S = np.reshape(sens, (self.num_state, self.num_param), 'F')\n        else:\n            S = self._SAUtil.vecToMatSens(sens)"),
    dict(property='C13', name='by-state Jacobian uses nS-1 for nP in the row arrangement (original defect)', file=DETF, old="            idx = np.array([j*self.num_state + i\n                            for i in range(self.num_state)\n                            for j in range(self.num_param)], int)", new="            idx = np.array([j*self.num_state + i\n                            for i in range(self.num_state)\n                            for j in range(self.num_state - 1)], int)"),
    dict(property='C13', name='by-state Jacobian keeps the by-parameter diagonal block', file=DETF, old="            outJ = np.kron(J, np.eye(self.num_param))\n            sensJacobianOfState = sensJacobianOfState[idx,:]", new="            sensJacobianOfState = sensJacobianOfState[idx,:]"),
    dict(property='C13', name='eval_sensitivityIV: J S0 replaced by S0 J', file=DETF, old="        B = np.dot(J, IV)", new="        B = np.dot(IV, J)"),
    dict(property='C13', name='IV Jacobian: initial-value diagonal block is J (x) I', file=DETF, old="                [A, np.zeros((nS*nS, nS*nP)), np.kron(np.eye(nS), J)]", new="                [A, np.zeros((nS*nS, nS*nP)), np.kron(J, np.eye(nS))]"),
    dict(property='C13', name='sensitivityIV takes the initial-value block from the front', file=DETF, old="        IV = np.reshape(sensIV[-(nS*nS):], (nS, nS), 'F')", new="        IV = np.reshape(sensIV[:(nS*nS)], (nS, nS), 'F')"),
    dict(property='C13', name='matToVecSens flattens in C order', file=OUF, old="    return np.reshape(S, numState * numParam, order='F')", new="    return np.reshape(S, numState * numParam, order='C')"),
]
BLF = 'pygom/loss/base_loss.py'
MUTANTS += [
    dict(property='C07', name='sensitivity columns sorted (original defect: supplied order lost)', file=BLF, old="                    index_out.append(j + (i + 1) * self._num_state)\n        else:", new="                    index_out.append(j + (i + 1) * self._num_state)\n            index_out.sort()\n        else:"),
    dict(property='C07', name='initial-value column offset uses the number of target parameters', file=BLF, old="        n_s = self._num_state\n        n_p = self._num_param\n", new="        n_s = self._num_state\n        n_p = len(self._getTargetParamIndex())\n"),
    dict(property='C07', name='sens_to_grad applies the weights twice', file=BLF, old="        for j in range(num_out):\n            sens[:, :, j] *= weight\n\n        grad", new="        for j in range(num_out):\n            sens[:, :, j] *= weight*weight\n\n        grad"),
    dict(property='C07', name='sens_to_grad reshapes the sensitivities in C order', file=BLF, old="        sens = np.reshape(sens, (n, num_s, num_out), 'F')\n        weight = np.reshape(self._weight, (n, num_s))\n        for j in range(num_out):\n            sens[:, :, j] *= weight", new="        sens = np.reshape(sens, (n, num_s, num_out), 'C')\n        weight = np.reshape(self._weight, (n, num_s))\n        for j in range(num_out):\n            sens[:, :, j] *= weight"),
    dict(property='C07', name='jacIV starts the initial-value sensitivities at ones instead of the identity', file=BLF, old="np.eye(self._num_state).flatten())", new="np.ones(self._num_state*self._num_state))"),
    dict(property='C07', name='jac integrates from the first observation time', file=BLF, old="            sol_sens = f(self._ode.ode_and_sensitivity_T,\n                         self._ode.ode_and_sensitivity_jacobian_T,\n                         init_state_sens,\n                         self._t[0], self._t[1::],", new="            sol_sens = f(self._ode.ode_and_sensitivity_T,\n                         self._ode.ode_and_sensitivity_jacobian_T,\n                         init_state_sens,\n                         self._t[1], self._t[1::],"),
    dict(property='C07', name='sensitivityIV returns the initial-value part first', file=BLF, old='            grad_iv = self._sensToGradIVWithoutIndex(sens, diff_loss)\n            grad = np.append(grad, grad_iv)\n\n            return grad\n', new='            grad_iv = self._sensToGradIVWithoutIndex(sens, diff_loss)\n            grad = np.append(grad_iv, grad)\n\n            return grad\n'),
    dict(property='C07', name='sensitivity evaluates the loss derivative on the first num_s columns', file=BLF, old='            i = self._stateIndex\n            diff_loss = self._lossObj.diff_loss(sens[:,i])\n            grad = self._sensToGradWithoutIndex(sens, diff_loss)\n\n            return grad', new='            i = list(range(len(self._stateIndex)))\n            diff_loss = self._lossObj.diff_loss(sens[:,i])\n            grad = self._sensToGradWithoutIndex(sens, diff_loss)\n\n            return grad'),
    dict(property='C20', name='sens_to_jtj without the weights', file=BLF, old="        for j in range(num_out):\n            sens[:,:,j] *= weight\n\n        for i, s in enumerate(sens):", new="        for i, s in enumerate(sens):"),
    dict(property='C20', name='sens_to_jtj accumulates S S^T-like products of squared entries', file=BLF, old="            if resid is None:\n                J += np.dot(s.T, s)", new="            if resid is None:\n                J += np.dot(s.T, s*s)"),
    dict(property='C20', name='jtj selects the initial-value columns', file=BLF, old='        index_out = self._getTargetParamSensIndex()\n        return self.sens_to_jtj(sens[:, index_out], diffLoss)', new='        index_out = self._getTargetStateSensIndex()\n        return self.sens_to_jtj(sens[:, index_out], diffLoss)'),
]
MUTANTS += [
    dict(property='C06', name='_getSolution integrates at the times with t0 prepended', file=BLF, old="                                              self._x0, self._t0,\n                                              self._observeT,", new="                                              self._x0, self._t0,\n                                              self._t,"),
    dict(property='C06', name='_getSolution selects the observed columns in sorted order', file=BLF, old="            return solution[:, self._stateIndex]", new="            return solution[:, sorted(self._stateIndex)]"),
    dict(property='C06', name='per-state weights laid out block-wise (seeded change)', file=BLF, old="        elif p == m:\n            if q == 1:\n                x = np.ones((n, p))*x", new="        elif p == m:\n            if q == 1:\n                x = np.repeat(x, n).reshape(n, p)"),
    dict(property='C06', name='_setParam binds target parameters in reverse order', file=BLF, old="                        thetaDict[self._targetParam[i]] = theta[i]", new="                        thetaDict[self._targetParam[l1 - 1 - i]] = theta[i]"),
    dict(property='C06', name='_setParamStateInput takes the initial values from the front', file=BLF, old="                self._setX0(theta[-self._num_state:])\n                self._setParam(theta[:self._num_param])", new="                self._setX0(theta[:self._num_state])\n                self._setParam(theta[:self._num_param])"),
    dict(property='C06', name='NormalLoss hands the weights where sigma belongs', file='pygom/loss/ode_loss.py', old="self._lossObj = Normal(self._y, self._weight, self._spread_param)", new="self._lossObj = Normal(self._y, self._spread_param, self._weight)"),
    dict(property='C06', name='_unrollState writes to the position in the target list, not the state index', file=BLF, old="            index = self._ode.get_state_index(s)\n            self._x0[index] = x0[i]", new="            index = self._ode.get_state_index(s)\n            self._x0[i] = x0[i]"),
]
MUTANTS += [
    dict(property='C06', name='_getSolution hands the model the parameter holder before binding theta', file=BLF, old="        if theta is not None:\n            self._setParam(theta)\n\n        self._ode.parameters = self._theta\n        # TODO: is this the correct approach", new="        self._ode.parameters = self._theta\n        if theta is not None:\n            self._setParam(theta)\n\n        # TODO: is this the correct approach"),
]
ABCF = 'pygom/approximate_bayesian_computation/approximate_bayesian_computation.py'
MUTANTS += [
    dict(property='C17', name='acceptance relaxed to cost < 2*tolerance', file=ABCF, old="                cost = self.obj.cost()\n                if cost < tolerance:", new="                cost = self.obj.cost()\n                if cost < 2*tolerance:"),
    dict(property='C17', name='prior-support test dropped', file=ABCF, old="            if w1:\n                # converting from log-scale and ensuring", new="            if True:\n                # converting from log-scale and ensuring"),
    dict(property='C17', name='log back-transform after the re-ordering (seeded change)', file=ABCF, old="                model_params = self._log_parameters(trial_params.copy())\n                par_update(model_params[self.par_order])", new="                model_params = self._log_parameters(trial_params[self.par_order])\n                par_update(model_params)"),
    dict(property='C17', name='particle back-transformed in place (stored particle is not the one the prior and kernel saw)', file=ABCF, old="                model_params = self._log_parameters(trial_params.copy())\n                par_update(model_params[self.par_order])\n                if hasattr(self,\"con_state\"): \n                    self.obj._x0[self.con_state] = self.pop_size - self.obj._x0[self.con_state_indices].sum() \n                \n                cost", new="                model_params = self._log_parameters(trial_params)\n                par_update(model_params[self.par_order])\n                if hasattr(self,\"con_state\"): \n                    self.obj._x0[self.con_state] = self.pop_size - self.obj._x0[self.con_state_indices].sum() \n                \n                cost"),
    dict(property='C17', name='quantile schedule inflated by 1.5', file=ABCF, old="            if self.q is not None:\n                return np.quantile(self.dist,self.q)\n            else:\n                return self.tol[g]", new="            if self.q is not None:\n                return np.quantile(self.dist,self.q)*1.5\n            else:\n                return self.tol[g]"),
    dict(property='C17', name='continued run accepts a larger tolerance', file=ABCF, old='            assert tol <= self.final_tol, "The initial tolerance is greater', new='            assert tol >= 0 or tol <= self.final_tol, "The initial tolerance is greater'),
    dict(property='C17', name='distances stored for the next particle (off by one)', file=ABCF, old="                 self.res[i], \n                 self.dist[i]) = self._perform_generation(generation=g,", new="                 self.res[i], \n                 self.dist[(i + 1) % self.N]) = self._perform_generation(generation=g,"),
    dict(property='C17', name='every generation uses the first tolerance of the list', file=ABCF, old="        for g in range(rerun,self.G+rerun):\n            tolerance = self.get_tolerance(g-rerun)", new="        for g in range(rerun,self.G+rerun):\n            tolerance = self.get_tolerance(0)"),
]
MUTANTS += [
    dict(property='C11', name='one limit per declared entry, not per state (original defect)', file=BASEF, old="                self._state_lims[n_before:] = [lim]*(len(self._stateList) - n_before)", new="                self._state_lims.append(lim)"),
    dict(property='C11', name='states added later through the setter get no limit', file=BASEF, old="        if hasattr(self, \"_state_lims\"):\n            self._state_lims += [(0, None)]*(len(self._stateList) - len(self._state_lims))", new="        if False:\n            self._state_lims += [(0, None)]*(len(self._stateList) - len(self._state_lims))"),
    dict(property='C11', name='undeclared limits default to (None, None)', file=BASEF, old="                            lim_list.append( (0, None) )   # We assume that the minimum value of each variable is zero", new="                            lim_list.append( (None, None) )   # We assume that the minimum value of each variable is zero"),
    dict(property='C01', name='_getEvalParam puts the parameters before the time', file=DETF, old="        return eval_param + self._paramValue", new="        return eval_param[:-1] + self._paramValue + eval_param[-1:]"),
    dict(property='C06', name='constructor stores the times with t0 prepended as observation times', file=BLF, old="        self._observeT = t.copy()", new="        self._observeT = np.insert(t, 0, t0)"),
]
MUTANTS += [
    dict(property='C01', name='reactant matrix: death accumulates instead of marking', file=BASEF, old="                    self._lambdaMat[origin_index, event_index] = 1\n                elif transition.transition_type==TransitionType.T:", new="                    self._lambdaMat[origin_index, event_index] += 1\n                elif transition.transition_type==TransitionType.T:"),
    dict(property='C01', name='reactant matrix: transfer destination not marked', file=BASEF, old="                    self._lambdaMat[origin_index, event_index] = 1\n                    self._lambdaMat[destination_index, event_index] = 1", new="                    self._lambdaMat[origin_index, event_index] = 1"),
]
MUTANTS += [
    dict(property='C06', name='BaseLoss.__init__: state_name=None builds weights for n columns', file=BLF, old="self._weight = self._setWeight_or_spread(n, p, state_weight,is_weights= True)", new="self._weight = self._setWeight_or_spread(n, n, state_weight,is_weights= True)"),
]
MUTANTS += [
    dict(property='C06', name='_unrollParam (all parameters) skips the last value', file=BLF, old="                for i in range(len(theta)):\n                    self._theta[i] = theta[i]", new="                for i in range(len(theta) - 1):\n                    self._theta[i] = theta[i]"),
]
MUTANTS += [
    dict(property='C09', name='rejected dict: holder updated in place again (F18 undone)', file=BASEF, old="                    param_out = dict(self._parameters)", new="                    param_out = self._parameters"),
    dict(property='C09', name='values stored before every key is resolved (F19 undone)', file=BASEF, old="        param_value = [0]*len(self._paramList)\n", new="        param_value = [0]*len(self._paramList)\n        self._parameters = param_out\n        self._paramValue = param_value\n"),
    dict(property='C09', name='random definition recorded before the input is accepted (F20 undone)', file=BASEF, old="                        stochastic_param = parameters\n", new="                        stochastic_param = parameters\n                        self._stochasticParam = parameters\n"),
]
