#!/usr/bin/env python3
"""validate MANIFEST.json and every evidence file against the harness schemas (run with .venv/bin/python)"""
import glob, json, sys
import jsonschema
ms = json.load(open('/root/.vp/MANIFEST.schema.json'))
es = json.load(open('/root/.vp/EVIDENCE.schema.json'))
m = json.load(open('/verif/MANIFEST.json'))
jsonschema.validate(m, ms)
bad = 0
for c in m['checks']:
    try:
        d = json.load(open(c['evidence_file']))
        jsonschema.validate(d, es)
        flag = '' if d['level'] == c['level_claimed']['category'] else '  <-- level differs from claim %s' % c['level_claimed']['category']
        print(c['property_id'], d['level'], d['coverage'].get('obligations'), d['coverage'].get('discharged'), flag)
    except Exception as e:
        bad += 1
        print(c['property_id'], 'INVALID', str(e)[:200])
print('manifest ok; claimed', len(m['checks']), 'n/a', len(m.get('not_applicable', [])))
sys.exit(1 if bad else 0)
