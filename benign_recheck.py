#!/usr/bin/env python3
"""Re-run the checks against every kept behaviour-preserving refactoring (benign_seeded/<id>r/patch.diff, written by independent
sub-agents) on a scratch copy of /repo/src: every check must exit 0 and print no VIOLATION line (a lost proof is allowed).
usage: .venv/bin/python benign_recheck.py [id ...] [--jobs=N]      writes benign_seeded/RECHECK.json"""
import json, os, re, shutil, subprocess, sys, tempfile
from concurrent.futures import ThreadPoolExecutor
HERE = os.path.dirname(os.path.abspath(__file__))
CHECKS = {'C01r': ['C01', 'C10', 'C12'], 'C04r': ['C04', 'C10'], 'C06r': ['C06', 'C07'], 'C07r': ['C07', 'C20'], 'C09r': ['C09', 'C16'], 'C11r': ['C11', 'C04'],
          'C13r': ['C13'], 'C15r': ['C15'], 'C16r': ['C16', 'C04'], 'C19r': ['C19']}
ids = [a for a in sys.argv[1:] if not a.startswith('--')] or sorted(d for d in os.listdir(os.path.join(HERE, 'benign_seeded')) if os.path.isdir(os.path.join(HERE, 'benign_seeded', d)))
jobs = int(([a[7:] for a in sys.argv[1:] if a.startswith('--jobs=')] or ['2'])[0])


def one(sid):
    d = os.path.join(HERE, 'benign_seeded', sid)
    tmp = tempfile.mkdtemp(prefix='benign-re-', dir='/var/tmp')
    out = {'id': sid, 'checks': []}
    try:
        shutil.copytree('/repo/src', os.path.join(tmp, 'src'), ignore=shutil.ignore_patterns('__pycache__', 'build'))
        r = subprocess.run(['patch', '-p1', '-s', '-d', tmp, '-i', os.path.join(d, 'patch.diff')], capture_output=True, text=True)
        if r.returncode != 0:
            out['error'] = 'patch does not apply: ' + (r.stdout + r.stderr)[-300:]
            return out
        for pid in CHECKS.get(sid, [sid[:3]]):
            env = dict(os.environ, PYVC_REPO_SRC=os.path.join(tmp, 'src'), PYVC_OUT_DIR=tmp)
            r = subprocess.run([os.path.join(HERE, 'vcheck'), pid, '--tier', 'quick'], env=env, capture_output=True, text=True)
            viol = [l for l in r.stdout.splitlines() if l.startswith('VIOLATION')]
            lost = [l for l in r.stdout.splitlines() if l.startswith(('PROOF-LOST', 'UNDECIDED', 'MISSING-OBLIGATION'))]
            out['checks'].append({'check': pid, 'exit': r.returncode, 'violations': len(viol), 'proof_lost_or_undecided': len(lost),
                                  'first': (re.sub(r'replay=\S+ ', '', viol[0])[:260] if viol else '')})
        out['quiet'] = all(c['exit'] == 0 and not c['violations'] for c in out['checks'])
    finally:
        shutil.rmtree(tmp, ignore_errors=True)
    print(sid, 'quiet' if out.get('quiet') else 'ALARM', [(c['check'], c['exit'], c['proof_lost_or_undecided']) for c in out['checks']], flush=True)
    return out


with ThreadPoolExecutor(jobs) as ex:
    res = list(ex.map(one, ids))
json.dump(sorted(res, key=lambda r: r['id']), open(os.path.join(HERE, 'benign_seeded', 'RECHECK.json'), 'w'), indent=1)
print('quiet %d / %d' % (sum(1 for r in res if r.get('quiet')), len(res)))
sys.exit(0 if all(r.get('quiet') for r in res) else 1)
