#!/usr/bin/env python3
"""Every catalogued harmless refactor (benign.py) on a scratch copy: the check must not raise an alarm.
usage: .venv/bin/python benign_test.py [PID ...] [--from=N]"""
import os, shutil, subprocess, sys, tempfile
HERE = os.path.dirname(os.path.abspath(__file__))
sys.path.insert(0, HERE)
from benign import BENIGN  # noqa
want = set(a for a in sys.argv[1:] if not a.startswith('--'))
first = int(([a[7:] for a in sys.argv[1:] if a.startswith('--from=')] or ['0'])[0])
bad = 0
for m in BENIGN[first:]:
    if want and m['property'] not in want:
        continue
    d = tempfile.mkdtemp(prefix='pyvc-ben-', dir='/var/tmp')
    try:
        shutil.copytree('/repo/src', os.path.join(d, 'src'), ignore=shutil.ignore_patterns('__pycache__', 'build'))
        p = os.path.join(d, 'src', m['file'])
        s = open(p).read()
        if s.count(m['old']) < 1:
            print('STALE   ', m['property'], m['name'])
            bad += 1
            continue
        open(p, 'w').write(s.replace(m['old'], m['new'], 1))
        env = dict(os.environ, PYVC_REPO_SRC=os.path.join(d, 'src'), PYVC_OUT_DIR=d)
        r = subprocess.run([os.path.join(HERE, 'vcheck'), m['property']], env=env, capture_output=True, text=True)
        viol = [l for l in r.stdout.splitlines() if l.startswith('VIOLATION')]
        lost = [l for l in r.stdout.splitlines() if l.startswith(('PROOF-LOST', 'UNDECIDED', 'MISSING-OBLIGATION'))]
        ok = r.returncode == 0 and not viol
        bad += 0 if ok else 1
        print("%-8s %-4s %-60s exit=%d proof-lost/undecided=%d %s" % ('quiet' if ok else 'ALARM', m['property'], m['name'], r.returncode, len(lost), (viol[0][:160] if viol else '')), flush=True)
    finally:
        shutil.rmtree(d, ignore_errors=True)
print("false alarms: %d / %d" % (bad, len([m for m in BENIGN[first:] if not want or m['property'] in want])))
sys.exit(1 if bad else 0)
