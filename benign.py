"""Catalogue of semantics-PRESERVING edits (harmless refactors) of code under contract.  benign_test.py applies each to a scratch
copy of /repo/src and runs the property's check there: the check must exit 0 and print no VIOLATION line (losing a proof is
allowed and shows as PROOF-LOST / UNDECIDED; raising an alarm is not).  Never applied to /repo."""
S = 'pygom/model/stochastic_simulation.py'
B = 'pygom/model/base_ode_model.py'
D = 'pygom/utilR/distn.py'
L = 'pygom/loss/base_loss.py'
DET = 'pygom/model/deterministic.py'
SIM = 'pygom/model/simulate.py'
BENIGN = [
    dict(property='C11', name='_checkJump: chained comparison', file=S, old="                if x_new[i]<x_min or x_new[i]>x_max:\n                    failed_jump=True",
         new="                if not (x_min <= x_new[i] <= x_max):\n                    failed_jump=True"),
    dict(property='C04', name='firstReaction: local renamed', file=S, old="    min_index = np.argmin(jump_times)\n    new_x = _updateStateWithJump(x, min_index, changes)",
         new="    fired = np.argmin(jump_times)\n    min_index = fired\n    new_x = _updateStateWithJump(x, fired, changes)"),
    dict(property='C04', name='firstReaction: evaluators called in the other order', file=S, old="    changes=state_change_mat(x, t)\n    rates = transition_func(x, t)\n",
         new="    rates = transition_func(x, t)\n    changes=state_change_mat(x, t)\n"),
    dict(property='C19', name='rexp: keyword order and 1/rate', file=D, old="    if n > 1:\n        return rvs(scale=1.0/rate, size=n)\n    else:\n        return rvs(scale=1.0/rate, size=n)[0]",
         new="    scale = 1/rate\n    if n > 1:\n        return rvs(size=n, scale=scale)\n    else:\n        return rvs(size=n, scale=scale)[0]"),
    dict(property='C09', name='parameters setter: .copy() instead of dict()', file=B, old="                    param_out = dict(self._parameters)", new="                    param_out = self._parameters.copy()"),
    dict(property='C01', name='get_ReactantMatrix: locals renamed, T branch reordered', file=B,
         old="                    origin_index=self.state_list.index(transition.origin)\n                    destination_index=self.state_list.index(transition.destination)\n                    self._lambdaMat[origin_index, event_index] = 1\n                    self._lambdaMat[destination_index, event_index] = 1",
         new="                    dst=self.state_list.index(transition.destination)\n                    src=self.state_list.index(transition.origin)\n                    self._lambdaMat[dst, event_index] = 1\n                    self._lambdaMat[src, event_index] = 1"),
    dict(property='C06', name='_unrollParam: slice assignment instead of the index loop', file=L,
         old="                for i in range(len(theta)):\n                    self._theta[i] = theta[i]", new="                self._theta[:len(theta)] = theta"),
    dict(property='C03', name='get_jacobian_eqn: list() instead of a comprehension', file=DET,
         old="        self.get_ode_eqn()\n        states = [s for s in self._iterStateList()]\n        self._Jacobian = self._ode.jacobian(states)",
         new="        ode = self.get_ode_eqn()\n        states = list(self._iterStateList())\n        self._Jacobian = ode.jacobian(states)"),
    dict(property='C15', name='_addJumpsBetweenTime fix written with np.empty', file=SIM,
         old="        if dX.ndim < 2:\n            # a path on which no event was recorded has no counts at all\n            dX=dX.reshape(0, self.num_events)",
         new="        if dX.ndim < 2:\n            # a path on which no event was recorded has no counts at all\n            dX=np.empty((0, self.num_events))"),
    dict(property='C16', name='mean over the stacked runs with np.mean(axis=2)', file=SIM, old="        Y = np.dstack(solutionList).mean(axis=2)\n\n        if full_output:\n            return Y, solutionList",
         new="        Y = np.mean(np.dstack(solutionList), axis=2)\n\n        if full_output:\n            return Y, solutionList"),
    dict(property='C10', name='get_StateChangeMatrix: T branch subtracts after adding', file=B,
         old="                    self._vMat[origin_index, event_index] -= magnitude\n                    self._vMat[destination_index, event_index] += magnitude",
         new="                    self._vMat[destination_index, event_index] += magnitude\n                    self._vMat[origin_index, event_index] -= magnitude"),
    dict(property='C01', name='checkEquation: docstring-level edit and an unused local', file='pygom/model/_model_verification.py',
         old="    list_out = list()\n", new="    n_parsed = 0\n    list_out = list()\n"),
]
LT = 'pygom/loss/loss_type.py'
BENIGN += [
    dict(property='C04', name='firstReaction: counts as an integer array instead of a list', file=S, old="    jumps=[0]*len(rates)\n    jumps[min_index]=1\n",
         new="    jumps=np.zeros(len(rates), int)\n    jumps[min_index]=1\n"),
    dict(property='C04', name='_updateStateWithJump: factors swapped', file=S, old="    return x + state_change_mat[:, transition_index]*n", new="    return x + n*state_change_mat[:, transition_index]"),
    dict(property='C14', name='Square.loss: np.sum of the squared residual', file=LT, old="        return (self.residual(yhat, apply_weighting)**2).sum()",
         new="        r = self.residual(yhat, apply_weighting)\n        return np.sum(r*r)"),
    dict(property='C11', name='_checkJump: early exit once a limit is broken', file=S, old="            else:\n                if x_new[i]<x_min or x_new[i]>x_max:\n                    failed_jump=True\n",
         new="            else:\n                if x_new[i]<x_min or x_new[i]>x_max:\n                    failed_jump=True\n                    break\n"),
    dict(property='C10', name='get_StateChangeMatrix: index lookups hoisted', file=B,
         old="                    origin_index=self.state_list.index(transition.origin)\n                    destination_index=self.state_list.index(transition.destination)\n                    self._vMat[origin_index, event_index] -= magnitude",
         new="                    origin_index, destination_index = self.state_list.index(transition.origin), self.state_list.index(transition.destination)\n                    self._vMat[origin_index, event_index] -= magnitude"),
    dict(property='C16', name='simulate_param: mean over a stacked array built with np.array', file=SIM, old="        Y = np.dstack(solutionList).mean(axis=2)\n\n        if full_output:\n            return Y, solutionList",
         new="        Y = np.array(solutionList).mean(axis=0)\n\n        if full_output:\n            return Y, solutionList"),
    dict(property='C09', name='parameters setter: enumerate instead of range(len())', file=B,
         old="                        for i in range(0, len(parameters)):\n                            index_temp = f(parameters[i][0])\n                            value_temp = parameters[i][1]\n                            param_out[index_temp] = value_temp",
         new="                        for name_temp, value_temp in parameters:\n                            param_out[f(name_temp)] = value_temp"),
]
