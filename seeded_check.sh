#!/bin/bash
# usage: seeded_check.sh <seeded-dir-name> [check PIDs...]  -- apply a kept seeded change to /repo, run checks, undo
D=/verif/seeded/$1; shift
CHECKS=${@:-$(basename $D | cut -c1-3)}
git -C /repo apply $D/patch.diff || { echo "PATCH DOES NOT APPLY"; exit 2; }
OUT=$(mktemp -d /var/tmp/seeded-XXXX)
for c in $CHECKS; do
  (cd /verif && PYVC_OUT_DIR=$OUT ./vcheck $c --tier quick 2>&1 | cut -c1-220 | tail -4; echo "check $c exit=${PIPESTATUS[0]}")
done
git -C /repo checkout -- .
rm -rf $OUT
