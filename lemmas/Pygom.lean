/-
Mathematical lemmas the pyvc contracts rely on (DESIGN.md 2.5).  They bridge the cell-level /
step-level facts that pyvc proves about the real code to the sum-level statements of the
properties.  Checked by `lean` (Lean 4 + Mathlib); nothing here talks about Python.
-/
import Mathlib

open Finset BigOperators

namespace Pygom

/-- C10.  A between-state transition adds `M k` at its destination and removes it at its origin:
the net change over all states is zero, whatever the magnitudes, origins and destinations. -/
theorem closed_column_sum_zero {S K : Type*} [Fintype S] [Fintype K] [DecidableEq S]
    (M : K → ℝ) (org dst : K → S) :
    ∑ i : S, ∑ k : K, M k * ((if dst k = i then (1:ℝ) else 0) - (if org k = i then (1:ℝ) else 0)) = 0 := by
  rw [Finset.sum_comm]
  apply Finset.sum_eq_zero
  intro k _
  rw [← Finset.mul_sum, Finset.sum_sub_distrib]
  simp

/-- C10 / C01.  If every column of the state-change matrix sums to zero then the components of
`V · rates` sum to zero (sum exchange). -/
theorem sum_comm_zero {S E : Type*} [Fintype S] [Fintype E] (r : E → ℝ) (v : S → E → ℝ)
    (h : ∀ e, ∑ i, v i e = 0) : ∑ i, ∑ e, r e * v i e = 0 := by
  rw [Finset.sum_comm]
  apply Finset.sum_eq_zero
  intro e _
  rw [← Finset.mul_sum, h e, mul_zero]

/-- C10.  A step `x + V · n` keeps the total when every column of `V` sums to zero. -/
theorem step_keeps_total {S E : Type*} [Fintype S] [Fintype E] (x : S → ℝ) (n : E → ℝ) (v : S → E → ℝ)
    (h : ∀ e, ∑ i, v i e = 0) : ∑ i, (x i + ∑ e, v i e * n e) = ∑ i, x i := by
  rw [Finset.sum_add_distrib]
  have : ∑ i, ∑ e, v i e * n e = 0 := by
    rw [Finset.sum_comm]
    apply Finset.sum_eq_zero
    intro e _
    rw [← Finset.sum_mul, h e, zero_mul]
  rw [this, add_zero]

/-- C01.  The code accumulates `rate * magnitude * sign` term by term; the property speaks of
`rate × (net signed magnitude)`. -/
theorem distrib_inner {K : Type*} [Fintype K] (r : ℝ) (m s : K → ℝ) :
    ∑ k, r * m k * s k = r * ∑ k, m k * s k := by
  rw [Finset.mul_sum]
  apply Finset.sum_congr rfl
  intro k _
  ring

/-- C12.  A finite sum does not depend on the order in which the events are listed. -/
theorem sum_perm {E : Type*} [Fintype E] (σ : Equiv.Perm E) (f : E → ℝ) :
    ∑ e, f (σ e) = ∑ e, f e :=
  Equiv.sum_comp σ f

/-- C04 (adaptive step).  A finite sum of non-negative terms is non-negative and at least each term. -/
theorem sum_nonneg_ge_term {E : Type*} [Fintype E] (a : E → ℝ) (h : ∀ e, 0 ≤ a e) (j : E) :
    0 ≤ ∑ e, a e ∧ a j ≤ ∑ e, a e :=
  ⟨Finset.sum_nonneg (fun e _ => h e), Finset.single_le_sum (fun e _ => h e) (Finset.mem_univ j)⟩

/-- C20.  A Gram matrix `Sᵀ S` is positive semi-definite (hence symmetric). -/
theorem gram_psd {m n : Type*} [Fintype m] [Fintype n] (S : Matrix m n ℝ) :
    (S.transpose * S).PosSemidef := by
  have := Matrix.posSemidef_conjTranspose_mul_self S
  simpa [Matrix.conjTranspose_eq_transpose_of_trivial] using this

/-- C20.  A sum of positive semi-definite matrices is positive semi-definite (sum over observations). -/
theorem sum_psd {ι n : Type*} [Fintype n] (s : Finset ι) (A : ι → Matrix n n ℝ)
    (h : ∀ i ∈ s, (A i).PosSemidef) : (∑ i ∈ s, A i).PosSemidef := by
  classical
  induction s using Finset.induction_on with
  | empty => simpa using Matrix.PosSemidef.zero
  | insert a s ha ih =>
    rw [Finset.sum_insert ha]
    exact (h a (Finset.mem_insert_self a s)).add (ih (fun i hi => h i (Finset.mem_insert_of_mem hi)))

/-- C07 / C20.  A list filled by nested loops (outer index b, inner index a < n, one append per step): the entry for (b, a)
sits at position b*n + a.  `POS` is the append counter defined by its one-step recurrences. -/
theorem pos_closed (n : ℕ) (POS : ℕ → ℕ → ℕ) (h0 : POS 0 0 = 0)
    (h1 : ∀ b a, POS b (a + 1) = POS b a + 1) (h2 : ∀ b, POS (b + 1) 0 = POS b n) :
    ∀ b a, POS b a = b * n + a := by
  have inner : ∀ b a, POS b a = POS b 0 + a := by
    intro b a
    induction a with
    | zero => simp
    | succ a ih => rw [h1, ih]; ring
  have outer : ∀ b, POS b 0 = b * n := by
    intro b
    induction b with
    | zero => simp [h0]
    | succ b ih => rw [h2, inner b n, ih]; ring
  intro b a
  rw [inner b a, outer b]

end Pygom
