#!/bin/bash
# Check the Lean lemmas (Lean 4 + Mathlib); the verdict is cached under /verif/.cache keyed by the file's hash,
# because the lemmas do not depend on /repo.  usage: lemmas/check.sh [--force]
cd "$(dirname "$0")"
H=$(sha256sum Pygom.lean | cut -c1-16)
mkdir -p ../.cache
M=../.cache/lemmas-$H.ok
if [ -f "$M" ] && [ "$1" != "--force" ]; then cat "$M"; exit 0; fi
T0=$(date +%s)
OUT=$(timeout 1500 lean Pygom.lean 2>&1); RC=$?
if [ $RC -eq 0 ] && ! echo "$OUT" | grep -q "error\|sorry"; then
  N=$(grep -c "^theorem" Pygom.lean)
  echo "lean-ok sha=$H theorems=$N seconds=$(( $(date +%s) - T0 )) lean=$(lean --version | cut -d' ' -f3 | tr -d ',')" > "$M"
  cat "$M"; exit 0
fi
echo "lean-failed rc=$RC"; echo "$OUT" | tail -20; exit 3
