#!/usr/bin/env python3
"""Mutation self-test of the machinery: each catalogued property-breaking edit is applied to a
scratch copy of /repo/src and the property's check must report a violation there.
Usage: ./selftest.py [PID ...]   (scratch under /var/tmp, removed afterwards)"""
import json, os, shutil, subprocess, sys, tempfile

HERE = os.path.dirname(os.path.abspath(__file__))
sys.path.insert(0, HERE)
from mutants import MUTANTS  # noqa


def run(pids=None, standin=True, verbose=True, name=None):
    out = []
    for m in MUTANTS:
        if pids and m['property'] not in pids:
            continue
        if name and name not in m['name']:
            continue
        d = tempfile.mkdtemp(prefix='pyvc-mut-', dir='/var/tmp')
        try:
            shutil.copytree('/repo/src', os.path.join(d, 'src'), ignore=shutil.ignore_patterns('__pycache__', 'build'))
            p = os.path.join(d, 'src', m['file'])
            s = open(p).read()
            if s.count(m['old']) < 1:
                out.append((m, 'stale: pattern not found', ''))
                print('STALE', m['name'])
                continue
            open(p, 'w').write(s.replace(m['old'], m['new'], 1))
            env = dict(os.environ, PYVC_REPO_SRC=os.path.join(d, 'src'), PYVC_OUT_DIR=d)
            cmd = [os.path.join(HERE, 'vcheck'), m['property']] + ([] if standin else ['--no-standin'])
            r = subprocess.run(cmd, env=env, capture_output=True, text=True)
            viol = [l for l in r.stdout.splitlines() if l.startswith('VIOLATION')]
            status = 'killed' if (r.returncode == 1 and viol) else ('undecided(exit %d)' % r.returncode if r.returncode else 'SURVIVED')
            out.append((m, status, viol[0][:230] if viol else r.stdout.strip().splitlines()[-1][:200] if r.stdout.strip() else r.stderr[-300:]))
        finally:
            shutil.rmtree(d, ignore_errors=True)
        if verbose:
            print("%-9s %-4s %-44s %s" % (out[-1][1], m['property'], m['name'], out[-1][2][:150]))
    return out


if __name__ == '__main__':
    args = [a for a in sys.argv[1:] if not a.startswith('--name=')]
    nm = [a[7:] for a in sys.argv[1:] if a.startswith('--name=')]
    res = run(args or None, name=nm[0] if nm else None)
    k = sum(1 for r in res if r[1] == 'killed')
    print("killed %d / %d" % (k, len(res)))
