# one claim() per property that has a working check; everything else is listed not_applicable
claim('C11', 'proof',
      "The accept/reject contract of _checkJump (success iff every state within its limits; rejected step leaves state and time unchanged) is proved for all lengths, limits and values by a loop invariant; obligations are regenerated from the real source on every run.",
      "Real arithmetic for floats; the jump loop and the construction of the limits list are covered as far as the contracts listed in the evidence reach; numpy indexing as modelled in pyvc/lib.py.",
      "contract-based deductive verification (VC generation over the real AST, z3/cvc5), native replay of counter-models",
      "DESIGN.md 4/C11")
claim('C19', 'proof',
      "Every provided d/p/q wrapper (both log forms, explicit and default parameters) is proved equal to the named scipy.stats function with scale = 1/rate etc.; the negative-binomial mean/size form is proved equal to the closed form of nbinom(n, p=size/(size+mu)) with instantiated log identities; every documented seeded generator is proved to draw only from RandomState(seed) (data flow and effect log).",
      "scipy.stats.<family>.<method>, numpy samplers, gammaln and log are uninterpreted reference functions (scipy is the reference); scipy's closed form of nbinom.logpmf; real arithmetic. The four *nbinom placeholders with an empty body are treated as not provided.",
      "contract-based deductive verification (straight-line data-flow VCs per wrapper, z3), native replay against scipy",
      "DESIGN.md 4/C19")
claim('C14', 'proof',
      "For the five loss classes, built through their real constructors, loss is proved equal to the sum of the reference negative log-density per element (extensionality of the sum at a fresh index), and diff_loss / diff2Loss are proved equal to the mechanically differentiated reference kernel, for vector, single-column and matrix inputs of any size; every result is proved to have the shape of y; with weights, Square/Normal losses use them and diff_loss is w times the unweighted derivative.",
      "scipy.stats.poisson.logpmf is the reference (uninterpreted); closed forms of gamma.logpdf and nbinom.logpmf as documented by scipy; Log/Gammaln uninterpreted with instantiated log laws for positive arguments; real arithmetic; numpy broadcasting/reshape as modelled in pyvc/lib.py.",
      "contract-based deductive verification (symbolic execution of the real constructors and methods, element-level VCs, z3 nlsat on purified identities), native replay",
      "DESIGN.md 4/C14")
# (claims for C04/C05/C10/C16 are added when their contracts are complete)
claim('C02', 'proof',
      "integrateFuncJac is proved, for every method, full_output and includeOrigin setting and any number of requested times, to return one OWNED row per requested time in order (preceded by x0 when asked), each equal at return time to the state the integrator reached at that time; re-created integrators are proved to restart on the trajectory; method names are proved to select the right scipy integrator with the module tolerances; integrate, integrate2, solve_determ, ode_T, jacobian_T are proved to hand the right callables, initial value, origin and grid to the wrappers; compiled Jacobians are proved to have rank 2 for every model size.",
      "ASSUMED, not proved: scipy.integrate.ode / odeint started on the trajectory reach the exact solution at the requested time (accuracy within atol=rtol=1e-10 and the semigroup law); `r.y` is a reference to the integrator's buffer. The accuracy clause of the property rests on this assumption; the stand-in compares with closed-form flows at 1e-6. Real arithmetic; termination not proved.",
      "contract-based deductive verification (loop invariant with buffer ownership over the real stepping loop, wiring VCs), native replay against closed-form flows",
      "DESIGN.md 4/C02")
claim('C01', 'proof',
      "For every well-formed model view (any number of states, events, transitions per event, ODE terms) the symbolic right-hand side, state-change matrix, event-rate vector and explicit-term vector are proved, under every valuation, to equal the sums the property states (nested loop invariants with partial sums over the real generator loops); the compile wrapper is proved to pass the argument sequence through and to give the documented rank and element order; every evaluator is proved to be registered with its own generator and an output type that yields the rank its consumers need for every model size.",
      "checkEquation/_addSymbol are trusted leaves (Parse(string)); sympy ring operations, matrix item assignment and lambdify/autowrap realise the expression (both back ends are an assumption, monitored by the stand-in); real arithmetic. The identity ode = vMat.rates + explicit follows from the three proved sums by distributivity (not separately mechanised).",
      "contract-based deductive verification (loop invariants over uninterpreted expression algebra with a ring-homomorphic valuation), bounded native stand-in as replay",
      "DESIGN.md 4/C01")
claim('C03', 'proof',
      "Each derivative generator (jacobian, grad, grad_jacobian, diff_jacobian, transitionJacobian, transitionMean, transitionVar) is proved cell by cell, for any number of states, parameters and events, to hold the stated derivative / sum at the stated row and column (declaration order), including the stacking order of the block matrices; rank and element order of the numeric evaluators come from the compile-chain contracts.",
      "sympy.diff / Matrix.jacobian are the derivative (uninterpreted D); the valuation is a ring homomorphism; 'away from singularities' is the domain of the valuation; compile back ends assumed as in C01.",
      "contract-based deductive verification (multi-level loop invariants, injectivity lemma for block indices), bounded native stand-in as replay",
      "DESIGN.md 4/C03")
