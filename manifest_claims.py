# one claim() per property that has a working check; everything else is listed not_applicable
claim('C11', 'proof',
      "The accept/reject contract of _checkJump (success iff every state within its limits; rejected step leaves state and time unchanged) is proved for all lengths, limits and values by a loop invariant; obligations are regenerated from the real source on every run.",
      "Real arithmetic for floats; the jump loop and the construction of the limits list are covered as far as the contracts listed in the evidence reach; numpy indexing as modelled in pyvc/lib.py.",
      "contract-based deductive verification (VC generation over the real AST, z3/cvc5), native replay of counter-models",
      "DESIGN.md 4/C11")
