#!/usr/bin/env python3
"""Writes MANIFEST.json from the table below (kept in one place so it is always valid)."""
import json, os
HERE = os.path.dirname(os.path.abspath(__file__))
BASE = "cd /repo && /venv/bin/python -m pytest -ra -q -p no:cacheprovider --timeout=900 --continue-on-collection-errors"

# property -> (category, level text, level note, technique, design ref)
CLAIMED = {}
NOT_YET = {}

def claim(pid, category, text, note, technique, ref):
    CLAIMED[pid] = (category, text, note, technique, ref)

exec(open(os.path.join(HERE, 'manifest_claims.py')).read())

props = [json.loads(l) for l in open(os.path.join(HERE, 'properties.jsonl'))]
checks, na = [], []
for p in props:
    pid = p['id']
    if pid in CLAIMED:
        cat, text, note, tech, ref = CLAIMED[pid]
        checks.append({
            'property_id': pid,
            'quick_cmd': './vcheck %s --tier quick' % pid,
            'thorough_cmd': './vcheck %s --tier thorough' % pid,
            'evidence_file': '/verif/evidence/%s.json' % pid,
            'replay_cmd_template': './vcheck --replay {path}',
            'engine': 'pyvc',
            'level_claimed': {'category': cat, 'text': text, 'design_ref': ref},
            'level_note': note,
            'technique': tech,
        })
    else:
        na.append({'property_id': pid, 'reason': NOT_YET.get(pid, 'check not built yet (work in progress; see DESIGN.md section 4 for the planned contracts)')})
m = {
    'version': 1,
    'setup_cmd': './setup.sh',
    'hooks': {'guard': 'PYGOM_VERIF', 'enable': 'no hooks: contracts are sidecar files in /verif/contracts, replays call the real API',
              'baseline_off_cmd': BASE, 'source_commits': [], 'add_only': True},
    'engines': [
        {'name': 'pyvc', 'path': '/verif/pyvc', 'serves_properties': sorted(CLAIMED),
         'kind_free_text': 'verification-condition generator: symbolic execution of the real Python AST of /repo/src (re-parsed every run) against sidecar contracts, loop invariants, assumed library contracts; obligations discharged by z3 5.1 with cvc5 as second back end; counter-models replayed natively'},
        {'name': 'standins', 'path': '/verif/standins', 'serves_properties': sorted(CLAIMED),
         'kind_free_text': 'bounded native checks of the same contracts (run-time), labelled bounded, never counted as proved'},
    ],
    'checks': checks,
    'not_applicable': na,
    'notes': 'Exit codes: 0 held, 1 violation (VIOLATION line), 3 checker failure/undecided with no stand-in. Known findings in /verif/known_findings.json.',
}
json.dump(m, open(os.path.join(HERE, 'MANIFEST.json'), 'w'), indent=1)
print('claimed', sorted(CLAIMED), 'not applicable', [x['property_id'] for x in na])
