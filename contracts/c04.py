"""C04 / C05 / C10 / C16 -- the stochastic step functions.

Step contracts (DESIGN.md 4/C04, 4/C05): `firstReaction` fires the earliest of independent
exponential clocks (one per positive rate, scale 1/rate, all from the same generator) and moves
the state by that event's column; `tauLeap` moves by V.n + pure.tau with Poisson counts."""
import z3
from pyvc.driver import contract
from pyvc.lib import SList, SArr, SMutList, uf, pos_pair
from pyvc.lib_numpy import INF
from pyvc.values import SOpt, z3bool, Builtin, to_real, Unsupported

SS = 'pygom.model.stochastic_simulation:'
GLOBAL = z3.Int('GlobalStream')


def D_exp(pos, scale):
    f = uf('Draw_exponential', z3.IntSort(), z3.IntSort(), z3.IntSort(), z3.RealSort(), z3.RealSort())
    return f(GLOBAL, pos, z3.IntVal(0), scale)


def D_pois(pos, lam):
    f = uf('Draw_poisson', z3.IntSort(), z3.IntSort(), z3.IntSort(), z3.RealSort(), z3.RealSort())
    return f(GLOBAL, pos, z3.IntVal(0), lam)


def limits(vc, n):
    lo_none = vc.array('lo_none', (n,), 'bool').fn
    hi_none = vc.array('hi_none', (n,), 'bool').fn
    lo = vc.array('lo', (n,)).fn
    hi = vc.array('hi', (n,)).fn
    lims = SList(n, lambda k: (SOpt(lo_none(k), lo(k)), SOpt(hi_none(k), hi(k))))

    def within(arr):
        j = z3.Int(vc.ctx._name('jw'))
        return z3.ForAll([j], z3.Implies(z3.And(j >= 0, j < n),
                                         z3.And(z3.Or(lo_none(j), arr.get((j,)) >= lo(j)),
                                                z3.Or(hi_none(j), arr.get((j,)) <= hi(j)))))
    return lims, within


def checkjump_summary(it, args, kw):
    """contract of _checkJump (proved in C11/checkJump), used modularly at its call sites"""
    x, x_new, lims, t, tau, jumps = args
    n = lims.length
    it.ctx.oblige("pre(_checkJump): one limit pair per state", z3.And(to_real(x_new.shape[0]) == to_real(n)))
    j = z3.Int(it.ctx._name('jc'))
    lo, hi = lims.element(j)
    within = z3.ForAll([j], z3.Implies(z3.And(j >= 0, j < n),
                                       z3.And(z3.Or(lo.isnone, x_new.get((j,)) >= lo.val),
                                              z3.Or(hi.isnone, x_new.get((j,)) <= hi.val))))
    if it.ctx.branch(within, '_checkJump'):
        return (it.binop_values(__import__('ast').Add(), t, tau), tau, x_new, jumps, True)
    return (t, tau, x, jumps, False)


def env_callables(vc, nS, nE, with_tau=False):
    """the evaluators passed to the step functions: fixed arrays for the current (x, t)"""
    V = vc.array('V', (nS, nE))
    rates = vc.array('rates', (nE,))
    k = z3.Int('kr')
    vc.require('rates are non-negative', z3.ForAll([k], z3.Implies(z3.And(k >= 0, k < nE), rates.get((k,)) >= 0)))
    calls = {'V': 0, 'rates': 0}

    def Vf(it, a, kw):
        calls['V'] += 1
        return V.copy()

    def Rf(it, a, kw):
        calls['rates'] += 1
        return rates.copy()
    return V, rates, Builtin('vMat', Vf), Builtin('eventRateVector', Rf), calls


def _replay(kind):
    def r(clause, m):
        from contracts import native_steps
        return native_steps.search(kind)
    return r


@contract('C04/firstReaction', ['C04', 'C05', 'C10', 'C11', 'C16'], SS + 'firstReaction', replay=_replay('firstReaction'),
          also=[SS + '_newJumpTimes', SS + '_updateStateWithJump', 'pygom.utilR.distn:rexp'])
def first_reaction(vc):
    """firstReaction: stop when no event can fire; otherwise the earliest exponential clock fires,
    the clock has scale 1/rate of its event, the state moves by that event's column, the counts
    are one-hot, and limits decide acceptance."""
    nS, nE = vc.int('nS', ge=1), vc.int('nE', ge=1)
    x = vc.array('x', (nS,))
    t = vc.real('t')
    lims, within = limits(vc, nS)
    V, rates, Vf, Rf, calls = env_callables(vc, nS, nE)
    vc.summary(SS + '_checkJump', checkjump_summary)
    e0 = vc.it.rng_epoch
    out = vc.call(vc.func(), x, lims, t, Vf, Rf)
    vc.ensure('returns normally for every model shape (one event, one state included)', out.returned)
    if not out.returned:
        return
    r = out.value
    vc.ensure('always returns the five-element step tuple', isinstance(r, tuple) and len(r) == 5)
    if not (isinstance(r, tuple) and len(r) == 5):
        return
    t_new, tau, x_new, jumps, success = r
    k = z3.Int('kq')
    allzero = z3.ForAll([k], z3.Implies(z3.And(k >= 0, k < nE), rates.get((k,)) == 0))
    if success is False and not isinstance(x_new, SArr):
        vc.ensure('stop tuple only when no event can fire', allzero)
        vc.canary('canary: stop is reachable', z3.BoolVal(False))
        return
    vc.ensure('a step is proposed only when some rate is positive', z3.Not(allzero))
    vc.ensure('serial path draws from the global generator only', all(e[0] == 'global' for e in vc.it.rng_log))
    # the clocks: position = (epoch of the comprehension, event index)
    clock = lambda kk: D_exp(pos_pair(e0, kk), 1 / rates.get((kk,)))
    w = z3.Int('w_fired')
    fired = z3.And(w >= 0, w < nE, rates.get((w,)) > 0, tau == clock(w),
                   z3.ForAll([k], z3.Implies(z3.And(k >= 0, k < nE, rates.get((k,)) > 0), tau <= clock(k))))
    vc.ensure('the step is the earliest of the exponential clocks (scale 1/rate, one per positive rate)', z3.Exists([w], fired))
    vc.ensure('the waiting time is positive', tau > 0)
    # the counts may be a python list or a rank-1 array: what matters is one number per event
    if isinstance(jumps, SMutList):
        jl, J = jumps.length, (lambda kk: z3.Select(jumps.arr, kk))
    elif isinstance(jumps, SArr) and jumps.rank == 1:
        jl, J = jumps.shape[0], (lambda kk: jumps.get((kk,)))
    elif isinstance(jumps, SList):
        jl, J = jumps.length, (lambda kk: jumps.element(kk))
    else:
        jl = None
    vc.ensure('counts: one entry per event', jl is not None and z3.simplify(to_real(jl) == to_real(nE)))
    if jl is None:
        return
    i = z3.Int('is')
    onehot = z3.Exists([w], z3.And(fired,
                                   z3.ForAll([k], z3.Implies(z3.And(k >= 0, k < nE), J(k) == z3.If(k == w, 1, 0)))))
    vc.ensure('counts are one-hot at the fired event', onehot)
    if success is True:
        vc.ensure('accepted: clock advances by the waiting time', t_new == t + tau)
        moved = z3.Exists([w], z3.And(fired, z3.ForAll([k], z3.Implies(z3.And(k >= 0, k < nE), J(k) == z3.If(k == w, 1, 0))),
                                      z3.ForAll([i], z3.Implies(z3.And(i >= 0, i < nS), x_new.get((i,)) == x.get((i,)) + V.get((i, w))))))
        vc.ensure('accepted: state moves by the column of the fired event', moved)
        vc.ensure('accepted: new state within limits', within(x_new))
        vc.ensure('state vector keeps its length', z3.simplify(to_real(x_new.shape[0]) == to_real(nS)))
        # C10: a column that sums to zero keeps the total (telescoping is per element here)
        vc.canary('canary: accepted step reachable', z3.BoolVal(False))
    else:
        vc.ensure('rejected: time and state unchanged', z3.And(t_new == t, x_new is x))
        vc.canary('canary: rejected step reachable', z3.BoolVal(False))


def kernel_summary(it, args, kw):
    """assumed contract of the Cython kernel _cy_test_tau_leap_safety (trusted leaf, DESIGN 2.4):
    with a loss matrix that is identically zero it returns its input step and True; otherwise a
    step 0 < tau' <= tau and True.  (Its give-up branch returns a bare False after 256 halvings;
    it is unreachable with a zero loss matrix, which is what tauLeap always passes.)"""
    x, loss, rates, tau, eps = args
    it.ctx.note_trusted("_tau_leap._cy_test_tau_leap_safety: zero loss matrix => returns (tau, True); else (tau', True) with 0 < tau' <= tau")
    i, j = z3.Int(it.ctx._name('li')), z3.Int(it.ctx._name('lj'))
    zero = z3.ForAll([i, j], z3.Implies(z3.And(i >= 0, i < to_real_dim(loss.shape[0]), j >= 0, j < to_real_dim(loss.shape[1])),
                                        loss.get((i, j)) == 0))
    it.ctx.oblige("pre(kernel): loss matrix has rank 2 and is zero (reactant matrix is 0/1)", z3.And(zero) if loss.rank == 2 else z3.BoolVal(False))
    it.ctx.oblige("pre(kernel): epsilon >= 0", to_real(eps) >= 0)
    return (to_real(tau), True)


def to_real_dim(d):
    from pyvc.values import to_num
    return to_num(d)


def adaptive_tau_summary(it, args, kw):
    """contract of _get_adaptive_tau_step, proved in C04/_get_adaptive_tau_step: for non-negative rates that are not all
    zero and a positive epsilon it returns a positive step (the non-negative variances are the C03 contract of
    get_TransitionVar: a sum of squares times rates)"""
    a = list(args) + [kw[n_] for n_ in ('x', 't', 'rates', 'transition_mean_func', 'transition_var_func', 'epsilon')[len(args):]]
    x, t, rates, meanf, varf, eps = a
    k = z3.Int(it.ctx._name('kr'))
    n = to_real_dim(rates.shape[0])
    it.ctx.oblige("pre(_get_adaptive_tau_step): some rate is positive, none negative",
                  z3.And(z3.ForAll([k], z3.Implies(z3.And(k >= 0, k < n), rates.get((k,)) >= 0)),
                         z3.Exists([k], z3.And(k >= 0, k < n, rates.get((k,)) > 0))))
    it.ctx.oblige("pre(_get_adaptive_tau_step): epsilon > 0", to_real(eps) > 0)
    tau = it.ctx.fresh_real('tau_adaptive')
    it.ctx.assume(tau > 0)
    return tau


def make_tauleap(fixed):
    cid = 'C04/tauLeap/' + ('fixed-tau' if fixed else 'adaptive-tau')

    def run(vc):
        nS, nE = vc.int('nS', ge=1), vc.int('nE', ge=1)
        x = vc.array('x', (nS,))
        t = vc.real('t')
        lims, within = limits(vc, nS)
        V, rates, Vf, Rf, calls = env_callables(vc, nS, nE)
        react = vc.array('reactant', (nS, nE), 'int')
        a, b = z3.Int('ra'), z3.Int('rb')
        vc.require('reactant matrix entries are 0 or 1',
                   z3.ForAll([a, b], z3.Implies(z3.And(a >= 0, a < nS, b >= 0, b < nE), z3.Or(react.get((a, b)) == 0, react.get((a, b)) == 1))))
        pure = vc.array('pure', (nS,))
        pureF = Builtin('pureOdeVector', lambda it, a_, k_: pure.copy())
        meanF = Builtin('transitionMean', lambda it, a_, k_: vc.array('mu', (nE,)))
        varF = Builtin('transitionVar', lambda it, a_, k_: vc.array('sigma2', (nE,)))
        eps = vc.real('epsilon')
        vc.require('epsilon positive', eps > 0)
        pre_tau = vc.real('pre_tau') if fixed else None
        if fixed:
            vc.require('fixed step positive', pre_tau > 0)
        vc.summary(SS + '_checkJump', checkjump_summary)
        vc.summary(SS + '_get_adaptive_tau_step', adaptive_tau_summary)
        vc.summary('unmodelled:_cy_test_tau_leap_safety', kernel_summary)
        state = {}

        def before(it, view):
            state['e0'] = it.rng_epoch
            state['tau'] = view['tau_scale']

        def P(i):
            return D_pois(state['e0'] + i, to_real(state['tau']) * rates.get((i,)))
        PS = z3.Function('PS_leap', z3.IntSort(), z3.IntSort(), z3.RealSort())   # PS(i, s) = sum_{i'<i} V[s,i'] * P(i')

        def ghost(it, view, k):
            it.rng_epoch = state['e0'] + k

        def inv(view, k):
            s, i2 = z3.Int('s_inv'), z3.Int('i_inv')
            nx, jm = view['new_x'], view['jumps']
            return [
                ('state = x + partial sum of V.n', z3.And(to_real(nx.shape[0]) == to_real(nS),
                                                           z3.ForAll([s], z3.Implies(z3.And(s >= 0, s < nS), nx.get((s,)) == x.get((s,)) + PS(k, s))))),
                ('counts so far are the Poisson draws with mean tau*rate', z3.And(to_real(jm.length) == to_real(nE),
                                                                                  z3.ForAll([i2], z3.Implies(z3.And(i2 >= 0, i2 < k), z3.Select(jm.arr, i2) == P(i2))))),
            ]
        s0, k0 = z3.Int('s0'), z3.Int('k0')
        vc.assume(z3.ForAll([s0], PS(0, s0) == 0))

        def before2(it, view):
            before(it, view)
            it.ctx.assume(z3.ForAll([k0, s0], z3.Implies(k0 >= 0, PS(k0 + 1, s0) == PS(k0, s0) + V.get((s0, k0)) * P(k0))))
        vc.loop(SS + 'tauLeap', 0, inv, before=before2, ghost=ghost)
        args = [x, lims, t, Vf, react, Rf, meanF, varF, pureF]
        kw = {'epsilon': eps}
        if fixed:
            kw['pre_tau'] = pre_tau
        out = vc.call(vc.func(SS + 'tauLeap'), *args, **kw)
        vc.ensure('returns normally for every model shape (one event, one state included)', out.returned)
        if not out.returned:
            return
        r = out.value
        vc.ensure('always returns the five-element step tuple', isinstance(r, tuple) and len(r) == 5)
        if not (isinstance(r, tuple) and len(r) == 5):
            return
        t_new, tau, x_new, jumps, success = r
        k = z3.Int('kq')
        allzero = z3.ForAll([k], z3.Implies(z3.And(k >= 0, k < nE), rates.get((k,)) == 0))
        if success is False and not isinstance(x_new, SArr):
            vc.ensure('stop tuple only when no event can fire', allzero)
            return
        vc.ensure('serial path draws from the global generator only', all(e[0] == 'global' for e in vc.it.rng_log))
        vc.ensure('step is positive', tau > 0)
        if fixed:
            vc.ensure('a fixed step is used as given', tau == pre_tau)
        vc.ensure('counts: one per event, each a non-negative integer',
                  z3.And(to_real(jumps.length) == to_real(nE),
                         z3.ForAll([k], z3.Implies(z3.And(k >= 0, k < nE),
                                                   z3.And(z3.Select(jumps.arr, k) >= 0, z3.IsInt(z3.Select(jumps.arr, k)))))))
        vc.ensure('counts are Poisson draws with mean tau*rate, one per event, all from the same generator',
                  z3.ForAll([k], z3.Implies(z3.And(k >= 0, k < nE), z3.Select(jumps.arr, k) == P(k))))
        if success is True:
            s = z3.Int('sq')
            vc.ensure('accepted: state = x + V.counts + pure*tau',
                      z3.ForAll([s], z3.Implies(z3.And(s >= 0, s < nS), x_new.get((s,)) == x.get((s,)) + PS(nE, s) + pure.get((s,)) * tau)))
            vc.ensure('accepted: clock advances by the step', t_new == t + tau)
            vc.ensure('accepted: new state within limits', within(x_new))
            vc.canary('canary: accepted leap reachable', z3.BoolVal(False))
        else:
            vc.ensure('rejected: time and state unchanged', z3.And(t_new == t, x_new is x))
            vc.canary('canary: rejected leap reachable', z3.BoolVal(False))
    run.__doc__ = "tauLeap with %s step: Poisson counts with mean tau*rate, state moves by V.n + pure*tau, limits decide acceptance" % ('a fixed' if fixed else 'an adaptive')
    contract(cid, ['C04', 'C10', 'C11', 'C16'], SS + 'tauLeap', also=[SS + '_updateStateWithJump', 'pygom.utilR.distn:rpois'],
             replay=_replay('tauLeap-fixed' if fixed else 'tauLeap-adaptive'))(run)


make_tauleap(True)
make_tauleap(False)


def replay_adaptive(clause, m):
    """bounded native search: random non-negative rates (not all zero), means of either sign, non-negative variances"""
    import numpy as np
    from contracts import native
    ss = native.imp('pygom.model.stochastic_simulation')
    rng = np.random.RandomState(11)
    for trial in range(400):
        nE = int(rng.randint(1, 5))
        rates = rng.uniform(0, 3, nE) * (rng.uniform(size=nE) < 0.7)
        if not rates.any():
            rates[0] = 1.0
        mu = rng.uniform(-3, 3, nE) * (rng.uniform(size=nE) < 0.7)
        s2 = rng.uniform(0, 3, nE) * (rng.uniform(size=nE) < 0.7)
        eps = float(rng.uniform(0.01, 0.5))
        try:
            tau = ss._get_adaptive_tau_step(np.zeros(2), 0.0, rates, lambda x, t: mu.copy(), lambda x, t: s2.copy(), eps)
            ok = bool(tau > 0)
        except Exception as e:
            ok, tau = False, "raises %s" % e
        if not ok:
            return {'reproduced': True, 'input': dict(rates=rates.tolist(), mu=mu.tolist(), sigma2=s2.tolist(), epsilon=eps), 'observed': ["adaptive step = %s" % (tau,)],
                    'found_by': 'bounded random search (400 trials, 1-4 events)'}
    return {'reproduced': False, 'searched': '400 random inputs, 1-4 events'}


@contract('C04/_get_adaptive_tau_step', ['C04', 'C11'], SS + '_get_adaptive_tau_step', replay=replay_adaptive)
def adaptive_tau(vc):
    """_get_adaptive_tau_step returns a positive step whenever some rate is positive (epsilon > 0, rates >= 0,
    variances of rate change >= 0): this discharges the assumption used by C04/tauLeap/adaptive-tau."""
    nS, nE = vc.int('nS', ge=1), vc.int('nE', ge=1)
    x = vc.array('x', (nS,))
    t = vc.real('t')
    rates = vc.array('rates', (nE,))
    mu = vc.array('mu', (nE,))
    sigma2 = vc.array('sigma2', (nE,))
    k = z3.Int('kr')
    vc.require('rates are non-negative and not all zero (tauLeap returns before this call otherwise)',
               z3.And(z3.ForAll([k], z3.Implies(z3.And(k >= 0, k < nE), rates.get((k,)) >= 0)),
                      z3.Exists([k], z3.And(k >= 0, k < nE, rates.get((k,)) > 0))))
    vc.require('variances of rate change are non-negative (C03: sum of squares times rates)',
               z3.ForAll([k], z3.Implies(z3.And(k >= 0, k < nE), sigma2.get((k,)) >= 0)))
    eps = vc.real('epsilon')
    vc.require('epsilon positive', eps > 0)
    meanF = Builtin('transitionMean', lambda it, a_, k_: mu.copy())
    varF = Builtin('transitionVar', lambda it, a_, k_: sigma2.copy())
    vc.it.sum_nonneg_lemma = True
    out = vc.call(vc.func(), x, t, rates, meanF, varF, eps)
    vc.ensure('returns normally', out.returned)
    if not out.returned:
        return
    vc.ensure('the adaptive step is positive', to_real(out.value) > 0)
    vc.canary('canary: reachable', z3.BoolVal(False))
