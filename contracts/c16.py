"""C16 -- seeded serial simulations are reproducible; the reported mean is the mean of the returned runs.

Effect contracts of the step functions and of _jump / solve_stochast are in c04.py / c04b.py (every draw
of the serial path comes from numpy's global generator).  Here: the deterministic solvers with random
parameters return  Y = mean over runs of exactly the list returned alongside, one integrate(t) per run,
and the random branches of the parameters setter draw only from the global generator."""
import z3
from pyvc.driver import contract
from pyvc.lib import SArr, SList
from pyvc.values import ObjVal, Builtin, to_num, to_real, Unsupported

SIM = 'pygom.model.simulate:'
I, R = z3.IntSort(), z3.RealSort()
Run = z3.Function('RunSol', I, I, I, R)


def make_mean(fname, full_output):
    cid = 'C16/%s/random-parameters/full_output=%s' % (fname, full_output)

    def run(vc):
        n = vc.int('iteration', ge=1)
        A, B = vc.int('nT', ge=1), vc.int('nS', ge=1)
        t = vc.array('t', (A,))
        calls = {'outside': 0}

        def integrate(it, args, kw):
            it.ctx.oblige('pre(integrate): the requested times', args[1] is t)
            if it.lazy_index is None:
                calls['outside'] += 1
                return SArr((A, B), lambda o: z3.RealVal(0))
            epoch, r = it.lazy_index
            return SArr((A, B), lambda o: Run(r, o[0], o[1]))
        vc.summary('pygom.model.deterministic:DeterministicOde.integrate', integrate)
        cls = vc.cls(SIM + 'SimulateOde')
        self = ObjVal(cls, {'_stochasticParam': {'beta': 'a frozen distribution'}})
        out = vc.call(vc.func(SIM + 'SimulateOde.' + fname), self, t, n, parallel=False, full_output=full_output)
        vc.ensure('returns normally', out.returned)
        if not out.returned:
            return
        if full_output:
            vc.ensure('returns (mean, runs)', isinstance(out.value, tuple) and len(out.value) == 2)
            Y, runs = out.value
        else:
            Y, runs = out.value, None
        a, b, r = z3.Int('a_q'), z3.Int('b_q'), z3.Int('r_q')
        vc.ensure('mean has one row per time and one column per state', isinstance(Y, SArr) and z3.And(to_num(Y.shape[0]) == A, to_num(Y.shape[1]) == B))
        vc.assume(z3.And(a >= 0, a < A, b >= 0, b < B))
        v = z3.simplify(Y.get((a, b)))
        is_div = v.decl().kind() == z3.Z3_OP_DIV and len(v.children()) == 2
        vc.ensure('Y[a,b] is a quotient (sum over runs) / (number of runs)', is_div)
        if not is_div:
            return
        vc.ensure('the divisor is the number of runs', v.children()[1] == to_real(n))
        vc.ensure_sum('the numerator is the sum over the runs of run[a,b]', v.children()[0], n, lambda rr: Run(rr, a, b))
        if full_output:
            vc.ensure('one returned run per iteration', to_num(vc.it.length(runs)) == n)
            vc.assume(z3.And(r >= 0, r < n))
            Rr = vc.it.getitem(runs, r)
            vc.ensure('the runs returned are the ones the mean was taken over', Rr.get((a, b)) == Run(r, a, b))
        vc.canary('canary: reachable', z3.BoolVal(False))
    run.__doc__ = "%s with random parameters: the reported mean is the mean of exactly the runs returned alongside, one integrate(t) per run" % fname
    contract(cid, ['C16'], SIM + 'SimulateOde.' + fname)(run)


for _f in ('solve_determ', 'simulate_param'):
    for _o in (True, False):
        make_mean(_f, _o)
