"""C01 (part 1) -- the compile chain: argument order and output shape of compiled evaluators.

compileExprAndFormat: the compiled callable `a` (assumed: lambdify/autowrap realise the
expression matrix, a(*args)[i, j] = val(expr[i, j]) with inputSymb[k] -> args[k], shape
(rows, cols)) is wrapped so that outType 'vec' gives rank 1 in row-major order, 'mat' gives
rank 2, and None means 'vec' exactly when the matrix has one row or one column."""
import z3
from pyvc.driver import contract
from pyvc.lib import SArr, SList
from pyvc.values import Builtin, Model, ObjVal, to_num, Unsupported
from pyvc.interp import StarSeq

OU = 'pygom.model.ode_utils:'
Val = z3.Function('Val', z3.IntSort(), z3.IntSort(), z3.IntSort(), z3.RealSort())   # Val(argsid, i, j)


class ExprMatrix(Model):
    """a sympy matrix known by its shape only"""
    tags = frozenset({'MatrixBase'})

    def __init__(self, rows, cols):
        self.rows, self.cols = rows, cols

    def py_getattr(self, it, name):
        if name == 'rows':
            return self.rows
        if name == 'cols':
            return self.cols
        raise Unsupported("ExprMatrix.%s" % name)


def compiled_callable(rows, cols, seen):
    def a(it, args, kw):
        it.ctx.note_trusted("sympy lambdify/autowrap: a(*args)[i,j] = val(expr[i,j]) at inputSymb[k] = args[k], result of shape (rows, cols)")
        seen.append(args)
        aid = len(seen)
        return SArr((rows, cols), lambda o: Val(aid, o[0], o[1]))
    b = Builtin('compiled', a)
    b.star_ok = True
    return b


def make_cef(outType, ctype):
    cid = 'C01/compileExprAndFormat/outType=%s/%s' % (outType, ctype)

    def run(vc):
        rows, cols = vc.int('rows', ge=1), vc.int('cols', ge=1)
        seen = []
        a = compiled_callable(rows, cols, seen)
        vc.summary(OU + 'compileCode.compileExpr', lambda it, args, kw: (a, ctype))
        cls = vc.cls(OU + 'compileCode')
        self = ObjVal(cls, {'_backend': 'cython'})
        symb = SList(vc.int('nsym', ge=0), lambda k: k)
        out = vc.call(vc.func(OU + 'compileCode.compileExprAndFormat'), self, symb, ExprMatrix(rows, cols), outType=outType)
        vc.ensure('returns a callable', out.returned)
        if not out.returned:
            return
        f = out.value
        xs = SList(vc.int('nargs', ge=0), lambda k: z3.Real('arg'))
        res = vc.call(f, xs)
        vc.ensure('the wrapper evaluates', res.returned)
        if not res.returned:
            return
        v = res.value
        vc.ensure('the compiled function receives exactly the wrapper\'s argument sequence, in order',
                  len(seen) == 1 and len(seen[0]) == 1 and isinstance(seen[0][0], StarSeq) and seen[0][0].seq is xs)
        vec = (outType == 'vec') if outType is not None else z3.Or(rows == 1, cols == 1)
        i, j = z3.Int('i'), z3.Int('j')
        rng = z3.And(i >= 0, i < rows, j >= 0, j < cols)
        if isinstance(v, SArr) and v.rank == 1:
            vc.ensure('rank 1 exactly when the output type is (or defaults to) vec', vec)
            vc.ensure('vec: rows*cols elements in row-major order',
                      z3.And(to_num(v.shape[0]) == rows * cols,
                             z3.ForAll([i, j], z3.Implies(rng, v.get((i * cols + j,)) == Val(1, i, j)))))
        elif isinstance(v, SArr) and v.rank == 2:
            vc.ensure('rank 2 exactly when the output type is (or defaults to) mat', z3.Not(vec) if not isinstance(vec, bool) else (not vec))
            vc.ensure('mat: shape (rows, cols), element [i,j]',
                      z3.And(to_num(v.shape[0]) == rows, to_num(v.shape[1]) == cols,
                             z3.ForAll([i, j], z3.Implies(rng, v.get((i, j)) == Val(1, i, j)))))
        else:
            vc.ensure('result is an array of rank 1 or 2', False)
        vc.canary('canary: reachable', z3.BoolVal(False))
    run.__doc__ = "compileExprAndFormat(outType=%r, compile type %s): rank and element order of the wrapped evaluator" % (outType, ctype)
    contract(cid, ['C01', 'C03', 'C02', 'C04', 'C13'], OU + 'compileCode.compileExprAndFormat')(run)


for _ot in (None, 'vec', 'mat'):
    make_cef(_ot, 'np')


# ---------------------------------------------------------------------------------------------
# registration of the compiled evaluators: output type vs the rank their consumers need

DET = 'pygom.model.deterministic:'
SIMM = 'pygom.model.simulate:'
BASE = 'pygom.model.base_ode_model:'

# evaluator -> (rows, cols) of the generated matrix as functions of (nS, nP, nE), rank needed, who needs it
NEEDS = {
    'ode':              (lambda S, P, E: (S, 1), 1, "scipy integrators take a 1-d right-hand side"),
    'jacobian':         (lambda S, P, E: (S, S), 2, "np.linalg.eig / odeint Dfun / np.bmat / np.kron need a matrix, also for one state"),
    'grad':             (lambda S, P, E: (S, P), 2, "np.dot(J, S) + G is a matrix sum"),
    'grad_jacobian':    (lambda S, P, E: (S * P, S), 2, "added to a reshaped (nS*nP, nS) matrix in the sensitivity Jacobians"),
    'vMat':             (lambda S, P, E: (S, E), 2, "_updateStateWithJump takes column [:, i], also with one event or one state"),
    'eventRateVector':  (lambda S, P, E: (E, 1), 1, "iterated and indexed as a vector of rates"),
    'transitionMean':   (lambda S, P, E: (E, 1), 1, "vector"),
    'transitionVar':    (lambda S, P, E: (E, 1), 1, "vector"),
    'pureOdeVector':    (lambda S, P, E: (S, 1), 1, "added to the state vector"),
}


def _replay_rank(clause, m):
    """one-state / one-event models against the real evaluators"""
    import numpy as np
    from contracts import native
    pm = native.imp('pygom.model')
    bad = []
    try:
        with native.quiet():
            ode = pm.SimulateOde(['x'], ['r', 'K'], event=[pm.Event(rate='r*x', transition_list=[pm.Transition(origin='x', transition_type='D')])])
            ode.parameters = [0.5, 2.0]
            x, t = np.array([3.0]), 0.0
            for name in ('jacobian', 'grad_jacobian', 'vMat', 'grad'):
                v = getattr(ode, name)(x, t)
                if np.ndim(v) != 2:
                    bad.append("%s of a one-state, one-event model has rank %d, shape %s" % (name, np.ndim(v), np.shape(v)))
    except Exception as e:
        bad.append("raises %s: %s" % (type(e).__name__, e))
    return {'reproduced': bool(bad), 'observed': bad, 'input': "SimulateOde(['x'], ['r','K'], event=[Event('r*x', [Transition(origin='x', 'D')])]) at x=[3.0]"}


@contract('C01/registration-output-types', ['C01', 'C02', 'C03', 'C04', 'C13'], SIMM + 'SimulateOde.__init__',
          also=[DET + 'DeterministicOde.__init__', DET + 'DeterministicOde.add_func'], replay=_replay_rank)
def registration(vc):
    """every compiled evaluator is registered with an output type that gives its consumers the
    rank they need for every model size (one state, one event, one parameter included)"""
    made = {}

    def base_init(it, args, kw):
        self = args[0]
        self.fields['_stateList'] = SList(z3.Int('nS'), lambda k: None)
        self.fields['_paramList'] = SList(z3.Int('nP'), lambda k: None)
        return None
    vc.summary(BASE + 'BaseOdeModel.__init__', base_init)
    vc.summary(BASE + 'BaseOdeModel.set_sp', lambda it, a, k: None)
    cls = vc.cls(SIMM + 'SimulateOde')
    out = vc.call(cls, None, None)
    vc.ensure('constructor returns', out.returned)
    if not out.returned:
        return
    model = out.value
    S, P, E = vc.int('nS', ge=1), vc.int('nP', ge=0), vc.int('nE', ge=1)
    for name, (shape, need, why) in NEEDS.items():
        ev = model.fields.get(name)
        ok = ev is not None and hasattr(ev, 'func')
        vc.ensure('%s is registered as a compiled evaluator' % name, ok)
        if not ok:
            continue
        oT = ev.func.env.lookup('oT')
        r, c = shape(S, P, E)
        r, c = to_num(r), to_num(c)
        if oT is None:
            is_vec = z3.Or(r == 1, c == 1)
        elif isinstance(oT, str) and oT.lower() in ('vec', 'mat'):
            is_vec = z3.BoolVal(oT.lower() == 'vec')
        else:
            vc.ensure('%s: output type is one of None, vec, mat' % name, False)
            continue
        goal = is_vec if need == 1 else z3.Not(is_vec)
        vc.ensure('%s has rank %d for every model size (%s)' % (name, need, why), goal, isolated=True)
        # generator wiring: the registered generator is the model's own get_* method of that name
        gen = ev.func.env.lookup('sympy_obj_generator_func')
        expected = {'ode': 'get_ode_eqn', 'jacobian': 'get_jacobian_eqn', 'grad': 'get_grad_eqn', 'grad_jacobian': 'get_grad_jacobian_eqn',
                    'vMat': 'get_StateChangeMatrix', 'eventRateVector': 'get_EventRateVector', 'transitionMean': 'get_TransitionMean',
                    'transitionVar': 'get_TransitionVar', 'pureOdeVector': 'get_pureOdeVector'}[name]
        vc.ensure('%s is generated by %s of the same model' % (name, expected),
                  getattr(getattr(gen, 'func', None), 'qualname', '').endswith('.' + expected) and getattr(gen, 'self_obj', None) is model)
    for name, gname in (('diff_jacobian', 'get_diff_jacobian_eqn'), ('transitionJacobian', 'get_TransitionJacobian')):
        ev = model.fields.get(name)
        ok = ev is not None and hasattr(ev, 'func')
        vc.ensure('%s is registered as a compiled evaluator' % name, ok)
        if ok:
            gen = ev.func.env.lookup('sympy_obj_generator_func')
            vc.ensure('%s is generated by %s of the same model' % (name, gname),
                      getattr(getattr(gen, 'func', None), 'qualname', '').endswith('.' + gname) and getattr(gen, 'self_obj', None) is model)
    vc.canary('canary: reachable', z3.BoolVal(False))


# ---------------------------------------------------------------------------------------------
# the argument-order seam: what a compiled evaluator is called with

def make_eval_param(state_kind):
    @contract('C01/_getEvalParam/state=%s' % state_kind, ['C01', 'C09', 'C08'], DET + 'DeterministicOde._getEvalParam',
              also=[DET + 'DeterministicOde.add_compiled_sympy_object.comp_obj'])
    def eval_param(vc):
        """the evaluation arguments are [state values (declaration order) | time | parameter values (declaration order)] -- the order of the
        symbol list _sp = states + [t] + parameters that every evaluator is compiled against (set_sp)"""
        nS, nP = vc.int('nS', ge=1), vc.int('nP', ge=0)
        x = vc.array('x', (nS,))
        t = vc.real('t')
        from pyvc.lib import SMutList
        pv = SMutList(nP, z3.Array('paramValue', z3.IntSort(), z3.RealSort()))
        cls = vc.cls(DET + 'DeterministicOde')
        obj = ObjVal(cls, {'_paramValue': pv, '_parameters': Builtin('parameter-holder', lambda *a: None), '_paramList': SList(nP, lambda k: None)})
        state = x if state_kind == 'array' else SList(nS, lambda k: x.get((k,)))
        out = vc.call(vc.func(DET + 'DeterministicOde._getEvalParam'), obj, state, t, None)
        vc.ensure('returns normally', out.returned)
        if not out.returned:
            return
        r = out.value
        n = vc.it.length(r)
        vc.ensure('one argument per state, one for time, one per parameter', to_num(n) == nS + 1 + nP)
        k = z3.Int('q_k')
        vc.assume(z3.And(k >= 0))
        get = lambda idx: vc.it.getitem(r, idx)
        from pyvc.values import to_real
        vc.ctx.solver.push()
        npc = len(vc.ctx.pc)
        vc.assume(k < nS)
        vc.ensure('argument k < nS is the value of state k', to_real(get(k)) == x.get((k,)))
        vc.ctx.solver.pop()
        del vc.ctx.pc[npc:]
        vc.ensure('argument nS is the time', to_real(get(nS)) == t)
        vc.ctx.solver.push()
        npc = len(vc.ctx.pc)
        vc.assume(k < nP)
        vc.ensure('argument nS + 1 + j is the value bound to parameter j (C09)', to_real(get(nS + 1 + k)) == z3.Select(pv.arr, k))
        vc.ctx.solver.pop()
        del vc.ctx.pc[npc:]
        vc.canary('canary: reachable', z3.BoolVal(False))
    return eval_param


make_eval_param('array')
make_eval_param('list')


# ---------------------------------------------------------------------------------------------
# set_sp: the symbol order every evaluator is compiled against

class SpList(Model):
    """the list  states + [t] + parameters  of set_sp: three segments of symbolic length; an entry is either the original ODEVariable /
    time symbol or the sympy symbol it was replaced by (per-position replacement flags and values, updated by item assignment)"""
    tags = frozenset({'list'})

    def __init__(self, it, mv):
        self.mv = mv
        self.parts = 1            # 1: states; 2: states + [t]; 3: + parameters
        E = __import__('pyvc.lib_sympy', fromlist=['Expr']).Expr
        self.E = E
        self.rep = [z3.K(z3.IntSort(), z3.BoolVal(False)) for _ in range(3)]
        self.val = [z3.K(z3.IntSort(), z3.Const('no_expr', E)) for _ in range(3)]

    def total(self):
        mv = self.mv
        return [mv.nS, mv.nS + 1, mv.nS + 1 + mv.nP][self.parts - 1]

    def py_len(self, it):
        return self.total()

    def locate(self, it, k):
        """segment and offset of position k (path split)"""
        mv = self.mv
        if it.ctx.branch(k < mv.nS, 'sp-segment'):
            return 0, k
        if it.ctx.branch(k == mv.nS, 'sp-segment'):
            return 1, z3.IntVal(0)
        return 2, z3.simplify(k - mv.nS - 1)

    def element(self, it, k):
        from pyvc.lib_sympy import SExpr
        seg, off = self.locate(it, k)
        if it.ctx.branch(z3.Select(self.rep[seg], off), 'sp-replaced'):
            return SExpr(z3.Select(self.val[seg], off), ('Symbol',))
        if seg == 0:
            return self.mv.states.elem(off)
        if seg == 1:
            return self.mv.obj.fields['_t']
        return self.mv.params.elem(off)

    def py_iter(self, it):
        from pyvc.values import SymIter
        return SymIter(self.total(), lambda k: self.element(it, k))

    def py_getitem(self, it, idx):
        return self.element(it, to_num(idx))

    def py_setitem(self, it, idx, v):
        from pyvc.lib_sympy import SExpr
        if not isinstance(v, SExpr):
            raise Unsupported("storing %r in the symbol list" % (v,))
        seg, off = self.locate(it, to_num(idx))
        self.val[seg] = z3.Store(self.val[seg], off, v.term)
        self.rep[seg] = z3.Store(self.rep[seg], off, z3.BoolVal(True))

    def py_binop(self, it, op, other, refl):
        import ast as _ast
        if not isinstance(op, _ast.Add) or refl:
            return NotImplemented
        new = SpList(it, self.mv)
        new.rep, new.val = list(self.rep), list(self.val)
        if self.parts == 1 and isinstance(other, list) and len(other) == 1 and other[0] is self.mv.obj.fields['_t']:
            new.parts = 2
            return new
        if self.parts == 2 and other is self.mv.params:
            new.parts = 3
            return new
        raise Unsupported("unexpected concatenation in set_sp")

    def havoc_inplace(self, it, hint):
        self.rep = [z3.Array(it.ctx._name(hint + '_rep%d' % s_), z3.IntSort(), z3.BoolSort()) for s_ in range(3)]
        self.val = [z3.Array(it.ctx._name(hint + '_val%d' % s_), z3.IntSort(), self.E) for s_ in range(3)]


@contract('C01/set_sp', ['C01', 'C09', 'C08'], 'pygom.model.base_ode_model:BaseOdeModel.set_sp', max_paths=600)
def set_sp(vc):
    """set_sp: _sp = [symbol of state 0, ..., symbol of state nS-1, t, symbol of parameter 0, ..., symbol of parameter nP-1] -- the positional
    order of the arguments of every compiled evaluator (matched by _getEvalParam)"""
    from contracts.modelview import ModelView, sid, pid, declared, pdeclared
    from pyvc.lib_sympy import StateSym, ParamSym, SExpr
    mv = ModelView(vc, with_ode_terms=False)
    nS, nP = mv.nS, mv.nP
    i_, j_ = z3.Int('sp_i'), z3.Int('sp_j')
    vc.require('state names are not parameter names', z3.And(z3.ForAll([i_], z3.Implies(z3.And(i_ >= 0, i_ < nS), z3.Not(pdeclared(sid(i_))))),
                                                             z3.ForAll([j_], z3.Implies(z3.And(j_ >= 0, j_ < nP), z3.Not(declared(pid(j_)))))))
    # the state list supports  states + [t]
    first = SpList(vc.it, mv)
    mv.states.py_binop = lambda it, op, other, refl: first.py_binop(it, op, other, refl)
    F = 'pygom.model.base_ode_model:BaseOdeModel.set_sp'
    k_ = z3.Int('sp_k')

    def inv(view, i):
        sp = mv.obj.fields['_sp']
        return [('entries before i are the model symbols of their position; later entries are untouched; t is never replaced',
                 z3.And(z3.ForAll([k_], z3.Implies(z3.And(k_ >= 0, k_ < nS), z3.Select(sp.rep[0], k_) == (k_ < i))),
                        z3.ForAll([k_], z3.Implies(z3.And(k_ >= 0, k_ < nS, k_ < i), z3.Select(sp.val[0], k_) == StateSym(sid(k_)))),
                        z3.Not(z3.Select(sp.rep[1], 0)),
                        z3.ForAll([k_], z3.Implies(z3.And(k_ >= 0, k_ < nP), z3.Select(sp.rep[2], k_) == (k_ + nS + 1 < i))),
                        z3.ForAll([k_], z3.Implies(z3.And(k_ >= 0, k_ < nP, k_ + nS + 1 < i), z3.Select(sp.val[2], k_) == ParamSym(pid(k_))))))]

    def inplace(it, view):
        mv.obj.fields['_sp'].havoc_inplace(it, 'sp')
    vc.loop(F, 0, inv, inplace=(inplace,))
    out = vc.call(vc.func(F), mv.obj)
    vc.ensure('returns normally', out.returned)
    if not out.returned:
        return
    sp = mv.obj.fields.get('_sp')
    ok = isinstance(sp, SpList) and sp.parts == 3
    vc.ensure('_sp is states + [t] + parameters', ok)
    if ok:
        vc.ensure('position k < nS holds the sympy symbol of state k',
                  z3.ForAll([k_], z3.Implies(z3.And(k_ >= 0, k_ < nS), z3.And(z3.Select(sp.rep[0], k_), z3.Select(sp.val[0], k_) == StateSym(sid(k_))))))
        vc.ensure('position nS holds the time symbol', z3.Not(z3.Select(sp.rep[1], 0)))
        vc.ensure('position nS + 1 + j holds the sympy symbol of parameter j',
                  z3.ForAll([k_], z3.Implies(z3.And(k_ >= 0, k_ < nP), z3.And(z3.Select(sp.rep[2], k_), z3.Select(sp.val[2], k_) == ParamSym(pid(k_))))))
    vc.canary('canary: reachable', z3.BoolVal(False))
