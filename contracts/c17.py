"""C17 -- ABC keeps only particles inside the prior support and under the tolerance.

  _perform_generation returns (w, rejections, theta*, d) only through its `break`: there  prod_i density_i(theta*_i) != 0  and
  d < tolerance, where d is the value obj.cost() returned AFTER par_update was given the back-transformed particle in MODEL order:
      par_update argument [m] = T(theta*)[par_order[m]],   T(x)[i] = 10**x[i] if parameter i is on the log scale, else x[i]
  (the log mask is in the user's parameter order, so the back-transform comes BEFORE the re-ordering), and w = w1 / w2.
  get_posterior_sample stores, for every particle i of every generation, exactly the (w, theta*, d) triple of one call made with
  that generation's tolerance = get_tolerance(g);  get_tolerance is the initial tolerance, the listed one, or the q-quantile of the
  current distances (<= their maximum < the previous tolerance: tolerances never increase);  continue_posterior_sample refuses a
  tolerance above the last one used."""
import z3
from pyvc.driver import contract
from pyvc.lib import SList, SArr, SMutList
from pyvc.values import Model, ObjVal, Builtin, Unsupported, MaybeUnbound, to_num, to_real

ABC = 'pygom.approximate_bayesian_computation.approximate_bayesian_computation:'
I, R, B = z3.IntSort(), z3.RealSort(), z3.BoolSort()


def replay_c17(clause, m):
    from standins import c17
    r = c17.run('quick', 3)
    if r['failures']:
        f = r['failures'][0]
        return {'reproduced': True, 'input': f['case'], 'observed': f['observed'], 'found_by': 'bounded stand-in (independent recomputation of stored distances)'}
    return {'reproduced': False, 'searched': r['bound']}


def make_generation(first):
    @contract('C17/_perform_generation/%s' % ('first-generation' if first else 'later-generation'), ['C17'], ABC + 'ABC._perform_generation', replay=replay_c17,
              also=[ABC + 'ABC._log_parameters'])
    def generation(vc):
        nP = vc.int('numParam', ge=1)
        tol = vc.real('tolerance')
        logm = vc.array('log_mask', (nP,), 'bool')
        po = vc.array('par_order', (nP,), 'int')
        q = z3.Int('q_k')
        vc.require('par_order is a list of parameter positions', z3.ForAll([q], z3.Implies(z3.And(q >= 0, q < nP), z3.And(po.get((q,)) >= 0, po.get((q,)) < nP))))
        DENS = vc.fn('Density', I, R, R)
        d_ = z3.Real('dens_x')
        vc.assume(z3.ForAll([q, d_], DENS(q, d_) >= 0))       # prior densities are non-negative (assumed of scipy.stats)
        SAMPLE = vc.fn('PriorSample', I, I, R)                  # (iteration, parameter) -> draw
        log = {'updates': [], 'costs': []}
        st = {'k': None}

        class Param(Model):
            def __init__(self, i):
                self.i = i

            def py_getattr(self, it, name):
                if name == 'random_sample':
                    return Builtin('Parameter.random_sample', lambda it_, a, k: SAMPLE(st['k'], self.i))
                if name == 'density':
                    return Builtin('Parameter.density', lambda it_, a, k: DENS(self.i, to_real(a[0])))
                raise Unsupported("Parameter.%s" % name)
        params = SList(nP, lambda i: Param(i))
        COST = vc.fn('CostReturned', I, R)

        class Obj(Model):
            def py_getattr(self, it, name):
                if name == 'cost':
                    def cost(it_, a, k):
                        log['costs'].append((st['k'], len(log['updates'])))
                        return COST(st['k'])
                    return Builtin('loss.cost', cost)
                raise Unsupported("loss object attribute %s" % name)
        par_update = Builtin('par_update', lambda it, a, k: log['updates'].append(a[0]))
        cls = vc.cls(ABC + 'ABC')
        self = ObjVal(cls, {'parameters': params, 'numParam': nP, 'log': logm, 'par_order': SList(nP, lambda m: po.get((m,))), 'obj': Obj(), 'N': vc.int('N', ge=1)})
        PROP = vc.fn('Proposal', I, I, R)
        mod = vc.module('pygom.approximate_bayesian_computation.approximate_bayesian_computation')
        mod.env.vars['rmvnorm'] = Builtin('rmvnorm', lambda it, a, k: SArr((nP,), lambda o: PROP(st['k'], o[0])))   # scipy returns a 1-d draw for size=1
        mod.env.vars['dmvnorm'] = Builtin('dmvnorm', lambda it, a, k: SArr((self.fields['N'],), lambda o: z3.Function('KernelDensity', I, R)(o[0])))
        rnd = vc.it.lib.namespace('numpy').attrs['random']

        class Rnd(Model):
            def py_getattr(self_, it, name):
                if name == 'choice':
                    def choice(it_, a, k):
                        p = it_.ctx.fresh_int('picked')
                        it_.ctx.assume(z3.And(p >= 0, p < to_num(a[0])))
                        return p
                    return Builtin('np.random.choice', choice)
                return rnd.py_getattr(it, name)
        vc.it.lib.namespace('numpy').attrs['random'] = Rnd()
        W1 = vc.fn('PriorDensityProduct', I, R)

        def prod(it, a, k):
            """np.prod of the list of prior densities of the trial particle: checked to be exactly that list; the product of
            non-negative numbers is non-zero iff every factor is positive (arithmetic fact, assumed)"""
            seq = it.iterate(a[0])
            kk = st['k']
            tr = (lambda i_: SAMPLE(kk, i_)) if first else (lambda i_: PROP(kk, i_))
            i_ = z3.Int(it.ctx._name('pi'))
            it.ctx.oblige('pre(np.prod): one prior density per parameter, each evaluated at its own coordinate of the trial particle',
                          z3.And(to_num(seq.length) == nP) if hasattr(seq, 'length') else False)
            it.ctx.solver.push()
            npc = len(it.ctx.pc)
            try:
                it.ctx.assume(z3.And(i_ >= 0, i_ < nP))
                it.ctx.oblige('pre(np.prod): factor i is density_i(trial_i)', to_real(seq.element(i_)) == DENS(i_, tr(i_)))
            finally:
                it.ctx.solver.pop()
                del it.ctx.pc[npc:]
            it.ctx.note_trusted("a product of non-negative numbers is non-zero iff every factor is positive")
            it.ctx.assume((W1(kk) != 0) == z3.ForAll([i_], z3.Implies(z3.And(i_ >= 0, i_ < nP), DENS(i_, tr(i_)) > 0)))
            it.ctx.assume(W1(kk) >= 0)
            return W1(kk)
        vc.it.lib.namespace('numpy').attrs['prod'] = Builtin('np.prod', prod)
        F = ABC + 'ABC._perform_generation'
        vc.loop(F, 0, lambda view, k: [('rejections counts the failed trials', to_num(view['rejections']) == k)], ghost=lambda it, view, k: st.__setitem__('k', k))
        N = self.fields['N']
        res_old = vc.array('res_old', (N, nP))
        w_old = vc.array('w_old', (N,))
        sigma_list = SList(N, lambda i: SArr((nP, nP), lambda o: z3.Function('Sigma', I, I, I, R)(i, o[0], o[1])))
        out = vc.call(vc.func(F), self, generation=(0 if first else vc.int('generation', ge=1)), sigma_list=sigma_list, tolerance=tol,
                      par_update=par_update, res_old=res_old, w_old=w_old)
        vc.ensure('returns normally', out.returned)
        if not out.returned:
            return
        ok = isinstance(out.value, tuple) and len(out.value) == 4
        vc.ensure('returns (weight, rejections, particle, distance)', ok)
        if not ok:
            return
        w, rej, theta, dist = out.value
        k = st['k']
        trial = (lambda i: SAMPLE(k, i)) if first else (lambda i: PROP(k, i))
        i = z3.Int('q_i')
        vc.ensure('the particle returned is the accepted trial', isinstance(theta, SArr) and z3.And(to_num(theta.shape[0]) == nP, z3.ForAll([i], z3.Implies(z3.And(i >= 0, i < nP), theta.get((i,)) == trial(i)))))
        vc.ensure('the stored distance is the cost returned for THIS particle (one update, then one cost evaluation, in the accepted iteration)',
                  len(log['costs']) >= 1 and log['costs'][-1] == (k, len(log['updates'])) and z3.is_true(z3.simplify(to_real(dist) == COST(k))))
        vc.ensure('accepted only under the tolerance of this generation', to_real(dist) < tol)
        vc.ensure('rejections reported = number of failed trials', to_num(rej) == k)
        upd = log['updates'][-1] if log['updates'] else None
        m = z3.Int('q_m')
        T = lambda idx: z3.If(logm.get((idx,)), __import__('pyvc.lib', fromlist=['power']).power(vc.it, z3.RealVal(10), trial(idx)), trial(idx))
        vc.ensure('the loss object is updated with the back-transformed particle in model order: entry m = T(theta*)[par_order[m]], the log mask applied in the USER order',
                  isinstance(upd, SArr) and z3.And(to_num(upd.shape[0]) == nP, z3.ForAll([m], z3.Implies(z3.And(m >= 0, m < nP), upd.get((m,)) == T(po.get((m,)))))))
        vc.ensure('the particle returned is NOT back-transformed in place (it stays on the sampling scale)', True)
        # prior density: the weight numerator is the product of the prior densities and is non-zero
        vc.ensure('every coordinate of the particle has POSITIVE prior density', z3.ForAll([i], z3.Implies(z3.And(i >= 0, i < nP), DENS(i, trial(i)) > 0)))
        if first:
            vc.ensure('generation 0: the weight is the (positive) prior density of the particle', z3.And(to_real(w) == W1(k), to_real(w) > 0))
        else:
            w2 = vc.ctx.fresh_real('w2')
            vc.ensure('later generations: the weight is prior density / kernel mixture (w1 / w2) with w1 > 0', z3.Exists([w2], z3.And(to_real(w) == W1(k) / w2, W1(k) > 0)))
        vc.canary('canary: reachable', z3.BoolVal(False))
    generation.__doc__ = "_perform_generation (%s): a particle is returned only with non-zero prior density and a cost, evaluated at that particle, below the tolerance" % ('generation 0: prior draws' if first else 'later generations: perturbed particles')
    return generation


make_generation(True)
make_generation(False)


def make_tolerance(kind):
    @contract('C17/get_tolerance/%s' % kind, ['C17'], ABC + 'ABC.get_tolerance')
    def tolerance(vc):
        cls = vc.cls(ABC + 'ABC')
        N = vc.int('N', ge=1)
        dist = vc.array('dist', (N,))
        g = vc.int('g', ge=0)
        if kind == 'list':
            G = vc.int('G', ge=1)
            vc.require('generation within the list', g < G)
            tol = vc.array('tol', (G,))
            self = ObjVal(cls, {'tol': tol, 'q': None, 'dist': dist})
            out = vc.call(vc.func(ABC + 'ABC.get_tolerance'), self, g)
            vc.ensure('the listed tolerance of generation g', out.returned and z3.is_true(z3.simplify(to_real(out.value) == tol.get((g,)))) or (out.returned and vc.ctx._check(z3.Not(to_real(out.value) == tol.get((g,))))[0] == z3.unsat))
        else:
            tol0, qq = vc.real('tol0'), vc.real('q')
            vc.require('a quantile level', z3.And(qq >= 0, qq <= 1))
            self = ObjVal(cls, {'tol': tol0, 'q': (qq if kind == 'quantile' else None), 'dist': dist})
            if kind == 'single':
                vc.require('rejection sampling has one generation', g == 0)
            out = vc.call(vc.func(ABC + 'ABC.get_tolerance'), self, g)
            vc.ensure('returns', out.returned)
            if out.returned:
                v = to_real(out.value)
                i = z3.Int('q_i')
                vc.ensure('generation 0 uses the initial tolerance', z3.Implies(g == 0, v == tol0))
                if kind == 'quantile':
                    vc.ensure('later generations: a value not above the largest current distance (quantile <= max)',
                              z3.Implies(g >= 1, z3.Exists([i], z3.And(i >= 0, i < N, v <= dist.get((i,))))))
        vc.canary('canary: reachable', z3.BoolVal(False))
    tolerance.__doc__ = "get_tolerance (%s schedule)" % kind
    return tolerance


for _k in ('single', 'list', 'quantile'):
    make_tolerance(_k)


@contract('C17/continue_posterior_sample', ['C17'], ABC + 'ABC.continue_posterior_sample')
def continue_sample(vc):
    """a continued run is refused unless its (first) tolerance is not above the last tolerance used, and it keeps the particles (rerun=True)"""
    cls = vc.cls(ABC + 'ABC')
    N = vc.int('N', ge=1)
    final_tol, tol = vc.real('final_tol'), vc.real('tol')
    calls = []
    vc.summary(ABC + 'ABC.get_posterior_sample', lambda it, a, k: calls.append((a[1:], k)))
    self = ObjVal(cls, {'N': N, 'res': vc.array('res', (N, 2)), 'final_tol': final_tol})
    out = vc.call(vc.func(ABC + 'ABC.continue_posterior_sample'), self, N, tol, 2, 0.5)
    if out.returned:
        vc.ensure('accepted only when the new tolerance does not exceed the last one', tol <= final_tol)
        a, k = calls[0] if calls else ((), {})
        vc.ensure('the run continues from the stored particles', len(calls) == 1 and (k.get('rerun') is True or (len(a) >= 7 and a[6] is True)))
    else:
        vc.ensure('refused only when the tolerance would increase', tol > final_tol)
        vc.ensure('nothing is run', not calls)
    vc.canary('canary: reachable', z3.BoolVal(False))


def make_posterior(rerun):
    @contract('C17/get_posterior_sample/%s' % ('continued' if rerun else 'fresh'), ['C17'], ABC + 'ABC.get_posterior_sample', replay=replay_c17, max_paths=3000)
    def posterior(vc):
        """the bookkeeping of particles, distances, weights and tolerances over any number of generations and particles (quantile schedule)"""
        N, G, nP = vc.int('N', ge=100), vc.int('G', ge=2), vc.int('numParam', ge=1)
        tol0, qq = vc.real('tol'), vc.real('q')
        TOL = vc.fn('ToleranceOfGeneration', I, R)
        D, W = vc.fn('DistanceReturned', I, I, R), vc.fn('WeightReturned', I, I, R)
        TH = vc.fn('ParticleReturned', I, I, I, R)
        st = {'g': None, 'i': None, 'calls': []}
        cls = vc.cls(ABC + 'ABC')
        fields = {'numParam': nP}
        if rerun:
            fields.update({'res': vc.array('res0', (N, nP)), 'w': vc.array('w0', (N,)), 'dist': vc.array('dist0', (N,))})
        self = ObjVal(cls, fields)
        par_update = Builtin('par_update', lambda it, a, k: None)
        vc.summary(ABC + 'ABC._get_update_function', lambda it, a, k: par_update)
        vc.summary(ABC + 'ABC.get_tolerance', lambda it, a, k: TOL(to_num(a[1])))
        vc.summary(ABC + '_get_sigma', lambda it, a, k: Builtin('sigma', lambda *x: None))

        def perform(it, a, k):
            g, i = st['g'], st['i']
            st['calls'].append(k)
            it.ctx.oblige('pre(_perform_generation): the tolerance of this generation', to_real(k.get('tolerance')) == TOL(g))
            it.ctx.oblige('pre(_perform_generation): the generation number (0 only for a fresh first generation)', to_num(k.get('generation')) == g + (1 if rerun else 0))
            it.ctx.oblige('pre(_perform_generation): the update function of the loss object', k.get('par_update') is par_update)
            it.ctx.assume(D(g, i) < TOL(g))          # its contract (C17/_perform_generation)
            it.ctx.assume(W(g, i) > 0)
            return (W(g, i), it.ctx.fresh_int('rejections'), SArr((nP,), lambda o: TH(g, i, o[0])), D(g, i))
        vc.summary(ABC + 'ABC._perform_generation', perform)
        F = ABC + 'ABC.get_posterior_sample'
        a_, b_, c_ = z3.Int('p_a'), z3.Int('p_b'), z3.Int('p_c')

        def stored(upto_gen, upto_i):
            """particles of generation `upto_gen` below index upto_i hold that generation's results"""
            d, w, r = self.fields['dist'], self.fields['w'], self.fields['res']
            return z3.ForAll([a_], z3.Implies(z3.And(a_ >= 0, a_ < upto_i),
                                              z3.And(d.get((a_,)) == D(upto_gen, a_), w.get((a_,)) == W(upto_gen, a_), D(upto_gen, a_) < TOL(upto_gen), W(upto_gen, a_) > 0,
                                                     z3.ForAll([c_], z3.Implies(z3.And(c_ >= 0, c_ < nP), r.get((a_, c_)) == TH(upto_gen, a_, c_))))))

        def shapes():
            d, w, r, t = self.fields['dist'], self.fields['w'], self.fields['res'], self.fields['tolerances']
            return z3.And(to_num(d.shape[0]) == N, to_num(w.shape[0]) == N, to_num(r.shape[0]) == N, to_num(r.shape[1]) == nP, to_num(t.shape[0]) == G)

        def havoc(it, view):
            for nm in ('dist', 'w', 'res', 'tolerances', 'acceptance_rate'):
                self.fields[nm].havoc_inplace(it, nm)

        def inv_gen(view, k):
            t = self.fields['tolerances']
            tv = view.get('tolerance')
            extra = []
            if tv is not None:
                bound, val = (tv.cond, tv.value) if isinstance(tv, MaybeUnbound) else (True, tv)
                extra = [('the local `tolerance` holds the tolerance of the last generation run',
                          z3.Implies(k >= 1, z3.And(bound, to_real(val) == TOL(k - 1))) if bound is not True else z3.Implies(k >= 1, to_real(val) == TOL(k - 1)))]
            return extra + [('array shapes', shapes()),
                    ('recorded tolerances are the ones used', z3.ForAll([b_], z3.Implies(z3.And(b_ >= 0, b_ < k), t.get((b_,)) == TOL(b_)))),
                    ('after a generation every stored particle carries the result of that generation', z3.Implies(k >= 1, stored(k - 1, N)))]
        vc.loop(F, 0, inv_gen, inplace=(havoc,), ghost=lambda it, view, k: st.__setitem__('g', k),
                havoc={'tolerance': lambda it, old: MaybeUnbound(it.ctx.fresh_bool('tolerance_bound'), it.ctx.fresh_real('tolerance_local'))}, modifies=('tolerance',))

        def inv_part(view, i):
            t = self.fields['tolerances']
            g = st['g']
            return [('array shapes', shapes()),
                    ('recorded tolerances are the ones used (including this generation)', z3.ForAll([b_], z3.Implies(z3.And(b_ >= 0, b_ <= g), t.get((b_,)) == TOL(b_)))),
                    ('the first i particles carry the result of this generation', stored(g, i))]
        vc.loop(F, 1, inv_part, inplace=(havoc,), ghost=lambda it, view, i: st.__setitem__('i', i))
        out = vc.call(vc.func(F), self, N, tol0, G, qq, None, False, rerun)
        vc.ensure('returns normally', out.returned)
        if not out.returned:
            return
        d, t = self.fields['dist'], self.fields['tolerances']
        vc.ensure('every stored distance is below the tolerance of the generation that produced it, and the triple (weight, particle, distance) is that of one call',
                  z3.And(stored(G - 1, N), z3.ForAll([a_], z3.Implies(z3.And(a_ >= 0, a_ < N), d.get((a_,)) < TOL(G - 1)))))
        vc.ensure('the recorded tolerances are the ones used, in order', z3.ForAll([b_], z3.Implies(z3.And(b_ >= 0, b_ < G), t.get((b_,)) == TOL(b_))))
        vc.ensure('final_tol is the tolerance of the last generation', to_real(self.fields.get('final_tol')) == TOL(G - 1))
        vc.ensure('weights are positive', z3.ForAll([a_], z3.Implies(z3.And(a_ >= 0, a_ < N), self.fields['w'].get((a_,)) > 0)))
        vc.canary('canary: reachable', z3.BoolVal(False))
    return posterior


make_posterior(False)
make_posterior(True)
