"""C14 -- loss kernels are the negative log-likelihoods they are named after.

Reference kernels (per element, prediction m > 0):
  Square   (w (y-m))^2
  Normal   1/2 Log(2) + 1/2 Log(pi) + Log(sigma) + (w (y-m))^2 / (2 sigma^2)        = -log N(y; m, sigma) at w=1
  Poisson  -scipy.stats.poisson.logpmf(y; m)           [closed form m - y Log m + Gammaln(y+1) for the derivatives]
  Gamma    -scipy gamma.logpdf(y; a, scale=m/a) closed form: Gammaln(a) - (a-1) Log y + y/(m/a) + a Log(m/a)
  NegBinom -scipy nbinom.logpmf(y; n=k, p=k/(k+m)) closed form
diff_loss / diff2Loss are compared with the mechanical derivative (pyvc.zdiff) of these kernels."""
import z3
from pyvc.driver import contract
from pyvc.lib import SArr, uf
from pyvc.values import to_real, ObjVal
from pyvc.zdiff import diff

LT = 'pygom.loss.loss_type:'
Log = uf('Log', z3.RealSort(), z3.RealSort())
G = uf('Gammaln', z3.RealSort(), z3.RealSort())
PI = z3.Real('np.pi')


def kernel(cls, y, m, s, w):
    """reference per-element loss (z3 term) with spread s and weight w"""
    r = w * (y - m)
    if cls == 'Square':
        return r * r
    if cls == 'Normal':
        return Log(2) / 2 + Log(PI) / 2 + Log(s) + r * r / (2 * s * s)
    if cls == 'Poisson':
        return m - y * Log(m) + G(y + 1)
    if cls == 'Gamma':
        sc = m / s
        return G(s) - (s - 1) * Log(y) + y / sc + s * Log(sc)
    if cls == 'NegBinom':
        p = s / (s + m)
        return -(G(s + y) - G(y + 1) - G(s) + s * Log(p) + y * Log(1 - p))
    raise KeyError(cls)


SPREAD = {'Square': None, 'Normal': 'sigma', 'Gamma': 'shape', 'Poisson': None, 'NegBinom': 'k'}


def log_facts(cls, y, m, s):
    """instances of the logarithm laws needed for this class (positive arguments)"""
    f = []
    if cls == 'Normal':
        f += [Log(1 / s) == -Log(s)]
    if cls == 'NegBinom':
        f += [Log(s / (s + m)) == Log(s) - Log(s + m), Log(m / (s + m)) == Log(m) - Log(s + m),
              1 - s / (s + m) == m / (s + m)]
    if cls == 'Gamma':
        f += [Log(m / s) == Log(m) - Log(s)]
    return f


DEFAULT_SPREAD = {'Normal': 1.0, 'Gamma': 2.0, 'NegBinom': 1.0}


def build(vc, cls, shape_kind, weighted, spread_kind='array', y_dtype='real'):
    """construct the real loss object through its real __init__; returns the per-element spread
    as a function of the index (array, scalar or the class default)"""
    n = vc.int('n', ge=2 if shape_kind == 'matrix' else 1)
    if shape_kind == 'matrix':
        p = vc.int('p', ge=2)
        shp = (n, p)
    else:
        shp = (n,)
    y = vc.array('y', shp, y_dtype)
    w = vc.array('w', shp) if weighted else None
    idx = [z3.Int('i%d' % d) for d in range(len(shp))]
    rng = z3.And(*[z3.And(i >= 0, i < d) for i, d in zip(idx, shp)])
    vc.require('y in the support (positive)', z3.ForAll(idx, z3.Implies(rng, y.get(tuple(idx)) > 0)))
    if weighted:
        vc.require('weights positive', z3.ForAll(idx, z3.Implies(rng, w.get(tuple(idx)) > 0)))
    sp_arg, sp_fn = None, None
    if SPREAD[cls]:
        if spread_kind == 'array':
            sp = vc.array('spread', shp)
            vc.require('spread positive', z3.ForAll(idx, z3.Implies(rng, sp.get(tuple(idx)) > 0)))
            sp_arg, sp_fn = sp, (lambda ix_: sp.get(tuple(ix_)))
        elif spread_kind == 'scalar':
            sc = vc.real('spread_scalar')
            vc.require('spread positive', sc > 0)
            sp_arg, sp_fn = sc, (lambda ix_: sc)
        else:
            dv = z3.RealVal(DEFAULT_SPREAD[cls])
            sp_arg, sp_fn = 'default', (lambda ix_: dv)
    c = vc.cls(LT + cls)
    args = [y, w]
    if sp_arg is not None and not isinstance(sp_arg, str):
        args.append(sp_arg)
    out = vc.call(c, *args)
    vc.ensure('constructor accepts valid data', out.returned)
    if not out.returned:
        return None
    return out.value, y, w, sp_fn, shp


def yhat_of(vc, shp, shape_kind):
    n = shp[0]
    if shape_kind == 'column':
        m = vc.array('yhat', (n, 1))
        at = lambda idx: m.get((idx[0], z3.IntVal(0)))
    else:
        m = vc.array('yhat', shp)
        at = lambda idx: m.get(tuple(idx))
    idx = [z3.Int('q%d' % d) for d in range(len(shp))]
    rng = z3.And(*[z3.And(i >= 0, i < d) for i, d in zip(idx, shp)])
    vc.require('predictions positive', z3.ForAll(idx, z3.Implies(rng, at(idx) > 0)))
    return m, at


def _elem_obligation(vc, name, res, shp, expected, hyps):
    """res has the shape of y and res[idx] == expected(idx) at a fresh index"""
    ok_shape = isinstance(res, SArr) and len(res.shape) == len(shp)
    vc.ensure(name + ' [result has the shape of y]',
              z3.And(*[to_real(a) == to_real(b) for a, b in zip(res.shape, shp)]) if ok_shape else z3.BoolVal(False))
    if not ok_shape:
        return
    idx = [z3.Int(vc.ctx._name('e')) for _ in shp]
    vc.ctx.solver.push()
    L0 = len(vc.ctx.pc)
    try:
        vc.assume(z3.And(*[z3.And(i >= 0, i < d) for i, d in zip(idx, shp)]))
        for h in hyps(idx):
            vc.assume(h)
        vc.ctx.oblige(name + ' [element]', to_real(res.get(tuple(idx))) == expected(idx), pure_hyps=hyps(idx))
    finally:
        vc.ctx.solver.pop()
        del vc.ctx.pc[L0:]


def make(cls, method, shape_kind, weighted, spread_kind='array', y_dtype='real'):
    cid = "C14/%s.%s/%s%s%s%s" % (cls, method, shape_kind, '/weights' if weighted else '',
                                  '' if spread_kind == 'array' else '/spread=' + spread_kind, '' if y_dtype == 'real' else '/int-y')

    def run(vc):
        b = build(vc, cls, 'matrix' if shape_kind == 'matrix' else 'vector', weighted, spread_kind, y_dtype)
        if b is None:
            return
        obj, y, w, sp, shp = b
        m, m_at = yhat_of(vc, shp, shape_kind)
        apply_w = True
        out = vc.call(vc.it.getattr(obj, method), m) if method != 'diff_loss' or weighted else \
            vc.call(vc.it.getattr(obj, method), m, apply_weighting=False)
        vc.ensure('%s returns normally on valid input' % method, out.returned)
        if not out.returned:
            return
        one = z3.RealVal(1)
        W = (lambda idx: w.get(tuple(idx))) if weighted else (lambda idx: one)
        S = sp if sp is not None else (lambda idx: one)
        Y = lambda idx: y.get(tuple(idx))
        hyps = lambda idx: [Y(idx) > 0, m_at(idx) > 0, S(idx) > 0, W(idx) > 0] + log_facts(cls, Y(idx), m_at(idx), S(idx))
        uses_w = cls in ('Square', 'Normal')      # only these kernels use the weights in `loss`
        if method == 'loss':
            def term(idx):
                if cls == 'Poisson':
                    return -uf('scipy_poisson_logpmf', *([z3.RealSort()] * 4))(Y(idx), m_at(idx), z3.RealVal(0))
                return kernel(cls, Y(idx), m_at(idx), S(idx), W(idx) if uses_w else one)
            if len(shp) == 1:
                vc.ensure_sum('loss = sum of the reference kernel', out.value, shp[0], lambda k: term([k]), hyps=lambda k: hyps([k]))
            else:
                info = vc.sum_info(out.value)
                vc.ensure('loss is a sum over rows', info is not None)
                if info is None:
                    return
                sign, n2, rowterm = info
                vc.ensure('loss: row range', to_real(n2) == to_real(shp[0]))
                i = z3.Int(vc.ctx._name('row'))
                vc.assume(z3.And(i >= 0, i < shp[0]))
                inner = rowterm(i)
                vc.ensure_sum('loss = sum of the reference kernel (row)', inner if sign == 1 else -inner, shp[1],
                              lambda j: term([i, j]), hyps=lambda j: hyps([i, j]))
            return
        # derivatives: mechanical derivative of the reference kernel w.r.t. the prediction
        mv = z3.Real('m_sym')

        def expected(idx):
            wgt = one
            ker = kernel(cls, Y(idx), mv, S(idx), wgt)
            d1 = diff(ker, mv)
            d = d1 if method == 'diff_loss' else diff(d1, mv)
            d = z3.substitute(d, (mv, m_at(idx)))
            if method == 'diff_loss' and weighted:
                # property: with weights the class returns w_i times the unweighted derivative
                return W(idx) * d
            return d
        _elem_obligation(vc, '%s = derivative of the reference kernel' % method, out.value, shp, expected, hyps)
    def replay(clause, model):
        from standins import c14 as native14
        for n_ in (2, 3, 5):
            for seed in (0, 1):
                bad, desc = native14.case(cls, method, shape_kind, weighted, n=n_, seed=seed, spread_kind=spread_kind, y_dtype=y_dtype)
                if bad:
                    return {'reproduced': True, 'input': desc, 'observed': bad, 'model': model}
        return {'reproduced': False, 'tried': 'seeded data sets with n in {2,3,5}', 'model': model}
    run.__doc__ = "%s.%s on %s input%s" % (cls, method, shape_kind, ' with weights' if weighted else '')
    contract(cid, ['C14'] + (['C07'] if method == 'diff_loss' else []), LT + cls + '.' + method, replay=replay,
             also=[LT + 'Baseloss_Type.__init__', LT + 'Baseloss_Type.residual', LT + cls + '.__init__'])(run)


for _cls in ('Square', 'Normal', 'Poisson', 'Gamma', 'NegBinom'):
    for _meth in ('loss', 'diff_loss', 'diff2Loss'):
        for _sk in ('vector', 'column', 'matrix'):
            make(_cls, _meth, _sk, False)
        if _meth != 'diff2Loss':
            make(_cls, _meth, 'vector', True)
        if SPREAD[_cls]:
            for _sk2 in ('scalar', 'default'):
                make(_cls, _meth, 'vector', False, _sk2)
        if _cls in ('Poisson', 'NegBinom'):
            make(_cls, _meth, 'vector', False, 'scalar' if SPREAD[_cls] else 'array', 'int')
