"""C02 -- deterministic solvers return the ODE solution at each requested time.

Ghost Sol(t, s): the exact solution of the initial value problem through (t0, x0).
Assumed contract of scipy.integrate.ode (pyvc model below): if the integrator was given an
initial value ON the trajectory, then after a successful integrate(t) its state equals
Sol(t, .) (accuracy + semigroup law, assumed); `r.y` is a reference to the integrator's own
buffer (the weakest ownership contract: a later integrate may overwrite what it refers to).
Everything else -- one OWNED row per requested time in order, the origin row, re-initialisation
from the right state and time, method dispatch, tolerances -- is proved about the real code."""
import z3
from pyvc.driver import contract
from pyvc.lib import SArr, SList, SMutList, OwnedRowList, SOpaqueList, fresh_array
from pyvc.values import Builtin, Model, Namespace, TypeTag, Unsupported, to_num, to_real, PyRaise, ExcVal

OU = 'pygom.model.ode_utils:'
Sol = z3.Function('Sol', z3.RealSort(), z3.IntSort(), z3.RealSort())


class Solver(Model):
    """scipy.integrate.ode instance"""
    tags = frozenset({'ode'})

    def __init__(self, it, world, f, jac):
        self.it, self.world, self.f, self.jac = it, world, f, jac
        self.name, self.opts = None, {}
        self.buf = None
        self.t = None
        self.on_traj = False
        self.f_params = self.jac_params = None

    def py_getattr(self, it, name):
        w = self.world
        if name == 'set_integrator':
            def si(it_, a, k):
                self.name, self.opts = a[0], dict(k)
                return self
            return Builtin('ode.set_integrator', si)
        if name in ('set_f_params', 'set_jac_params'):
            def sp(it_, a, k):
                setattr(self, name[4:], tuple(a))
                return self
            return Builtin('ode.' + name, sp)
        if name == 'set_initial_value':
            def siv(it_, a, k):
                y, t = a[0], a[1]
                y = y if isinstance(y, SArr) else None
                s = z3.Int(it_.ctx._name('s'))
                it_.ctx.oblige('pre(ode.set_initial_value): the integrator is (re-)started ON the trajectory, at the time its state belongs to',
                               z3.ForAll([s], z3.Implies(z3.And(s >= 0, s < w['nS']), y.get((s,)) == Sol(to_real(t), s))) if y is not None else False)
                g = y.get
                self.buf = SArr((w['nS'],), lambda o: g(o))      # the integrator copies its initial value into its own buffer
                self.t = to_real(t)
                w['solvers'].append(self)
                return self
            return Builtin('ode.set_initial_value', siv)
        if name == 'integrate':
            def integ(it_, a, k):
                it_.ctx.note_trusted("scipy.integrate.ode.integrate(t): started on the trajectory, a successful step leaves the state equal to the exact solution at t (accuracy within atol/rtol and the semigroup law are assumed); the state lives in the integrator's own buffer, overwritten in place")
                t = to_real(a[0])
                it_.ctx.oblige('pre(ode.integrate): integrates forward to a requested time', t > self.t) if w.get('check_forward') else None
                self.ok = it_.ctx.fresh_bool('successful')
                okk, tt = self.ok, t
                self.buf.get = (lambda o: z3.If(okk, Sol(tt, o[0]), z3.Real('garbage')))      # in place: every alias sees it
                self.t = t
                w['integrations'].append((self, t))
                return self.buf
            return Builtin('ode.integrate', integ)
        if name == 'successful':
            return Builtin('ode.successful', lambda it_, a, k: self.ok)
        if name == 'y':
            it.ctx.note_trusted("scipy.integrate.ode.y: a reference to the integrator's state buffer, not a copy (weakest ownership contract; lsoda behaves this way)")
            return self.buf
        if name == 't':
            return self.t
        raise Unsupported("ode.%s" % name)


def scipy_integrate_ns(world):
    def ode_ctor(it, a, k):
        return Solver(it, world, a[0], a[1] if len(a) > 1 else k.get('jac'))
    return Namespace('scipy.integrate', {'ode': TypeTag('ode', ode_ctor)})


def patch_module(vc, world):
    mod = vc.module('pygom.model.ode_utils')
    sc = mod.env.vars['scipy']
    ns = scipy_integrate_ns(world)

    class ScipyNS(Namespace):
        def py_getattr(self, it, name):
            if name == 'integrate':
                return ns
            return sc.py_getattr(it, name)
    mod.env.vars['scipy'] = ScipyNS('scipy')
    return mod


def _replay(clause, m):
    from standins import c02 as n02
    r = n02.run(tier='quick', seed=0)
    if r['failures']:
        f = r['failures'][0]
        return {'reproduced': True, 'input': f['case'], 'observed': f['observed']}
    return {'reproduced': False, 'tried': r['rule']}


def make_ifj(method, full_output, include_origin, int_x0=False):
    cid = 'C02/integrateFuncJac/method=%s/full_output=%s/origin=%s%s' % (method, full_output, include_origin, '/integer-x0' if int_x0 else '')

    def run(vc):
        nS, nT = vc.int('nS', ge=1), vc.int('nT', ge=0)
        # an initial state given as integers (population counts) is an integer-dtype array: nothing derived from it may hold the solution
        x0 = vc.array('x0', (nS,), 'int' if int_x0 else 'real')
        t0 = vc.real('t0')
        ts = vc.array('t', (nT,))
        i, s = z3.Int('i'), z3.Int('s')
        vc.require('requested times strictly increasing and later than t0',
                   z3.ForAll([i], z3.Implies(z3.And(i >= 0, i < nT), z3.And(ts.get((i,)) > t0, z3.Implies(i > 0, ts.get((i,)) > ts.get((i - 1,)))))))
        vc.assume(z3.ForAll([s], z3.Implies(z3.And(s >= 0, s < nS), Sol(t0, s) == z3.ToReal(x0.get((s,))) if int_x0 else Sol(t0, s) == x0.get((s,)))))
        world = {'nS': nS, 'solvers': [], 'integrations': [], 'check_forward': False}
        patch_module(vc, world)
        jac_calls = []

        def jacf(it, a, k):
            jac_calls.append(a)
            y = a[1]
            it.ctx.oblige('pre(jac): called as jac(t, y) with a state vector', isinstance(y, SArr) and y.rank == 1)
            return fresh_array(it, 'J', (nS, nS))
        func = Builtin('func', lambda it, a, k: fresh_array(it, 'f', (nS,)))
        jac = Builtin('jac', jacf)
        F = OU + 'integrateFuncJac'

        def before(it, view):
            sol = view['solution']
            r = view['r']
            rows = OwnedRowList(0, nS, lambda m_, s_: z3.RealVal(0), r.buf, lambda m_: z3.BoolVal(False))
            for row in sol:            # the origin row, if any
                rows.py_getattr(it, 'append').py_call(it, [row], {})
            view.set('solution', rows)
            for nm in ('successInfo', 'eigenInfo', 'maxEigen', 'minEigen'):
                if view.get(nm) is not None:
                    view.set(nm, SOpaqueList(0))
        off = 1 if include_origin else 0

        def ghost(it, view, k):
            # at iteration k the integrator r sits at the previous requested time (or t0), on the trajectory
            r = view['r']
            tprev = z3.If(k == 0, t0, ts.get((k - 1,)))
            if full_output:
                # a re-created integrator: fresh object with its own buffer, positioned at tprev
                nr = Solver(it, world, func, jac)
                nr.name, nr.opts = r.name, r.opts
                nr.buf = SArr((nS,), lambda o: Sol(tprev, o[0]))
                nr.t = tprev
                view.set('r', nr)
                view['solution'].watch = nr.buf
            else:
                r.buf.get = lambda o: Sol(tprev, o[0])
                r.t = tprev

        def inv(view, k):
            sol = view['solution']
            sol.rewatch(view['r'].buf)       # only the buffer of the integrator still referenced by `r` is live
            mm, ss = z3.Int('m_inv'), z3.Int('s_inv')
            return [
                ('one row per processed time (plus the origin row)', to_num(sol.length) == k + off),
                ('rows are owned: none of them is the integrator\'s live buffer',
                 z3.ForAll([mm], z3.Implies(z3.And(mm >= 0, mm < k + off), z3.Not(sol.alias(mm))))),
                ('row for t[m] holds the solution at t[m]',
                 z3.ForAll([mm, ss], z3.Implies(z3.And(mm >= 0, mm < k, ss >= 0, ss < nS), sol.contents(mm + off, ss) == Sol(ts.get((mm,)), ss)))),
            ] + ([('origin row is x0', z3.ForAll([ss], z3.Implies(z3.And(ss >= 0, ss < nS), sol.contents(0, ss) == x0.get((ss,)))))] if include_origin else [])
        vc.loop(F, 0, inv, before=before, ghost=ghost, modifies=('solution', 'successInfo', 'eigenInfo', 'maxEigen', 'minEigen'),
                havoc={'r': lambda it, old: old})
        out = vc.call(vc.func(F), func, jac, x0, t0, ts, includeOrigin=include_origin, full_output=full_output, method=method)
        if not out.returned:
            # only a failed integration may raise
            vc.ensure('raises only IntegrationError (the integrator reported failure)', 'IntegrationError' in out.value.tags)
            return
        v = out.value
        sol = v[0] if full_output else v
        vc.ensure('returns an array of rows', isinstance(sol, SArr) and sol.rank == 2)
        if not (isinstance(sol, SArr) and sol.rank == 2):
            return
        vc.ensure('one row per requested time, preceded by the origin when included', to_num(sol.shape[0]) == nT + off)
        m2 = z3.Int('m_q')
        vc.ensure('row for t[m] equals the solution at t[m] at return time',
                  z3.ForAll([m2, s], z3.Implies(z3.And(m2 >= 0, m2 < nT, s >= 0, s < nS), sol.get((m2 + off, s)) == Sol(ts.get((m2,)), s))))
        if include_origin:
            vc.ensure('first row is the initial state', z3.ForAll([s], z3.Implies(z3.And(s >= 0, s < nS), sol.get((z3.IntVal(0), s)) == x0.get((s,)))))
        # method dispatch and tolerances, on the first integrator that was set up
        first = world['solvers'][0] if world['solvers'] else None
        vc.ensure('an integrator was set up', first is not None)
        if first is not None:
            want = {'lsoda': 'lsoda', 'vode': 'vode', 'ivode': 'vode', 'dopri5': 'dopri5', 'dop853': 'dop853', None: 'lsoda'}[method]
            if not (method is None and full_output):
                vc.ensure('method %r selects the scipy integrator %r' % (method, want), first.name == want)
            if method == 'ivode':
                vc.ensure('ivode is vode with the stiff (bdf) method', first.opts.get('method') == 'bdf')
            for sv in world['solvers']:
                vc.ensure('every integrator uses the module tolerances, at most 1e-8',
                          all(isinstance(sv.opts.get(k_), float) and sv.opts.get(k_) <= 1e-8 for k_ in ('atol', 'rtol')))
                vc.ensure('every integrator gets a step budget of at least 10000 internal steps per output time',
                          isinstance(sv.opts.get('nsteps'), int) and sv.opts.get('nsteps') >= 10000)
                vc.ensure('every integrator is given the Jacobian unless it is an explicit Runge-Kutta method',
                          sv.jac is jac or sv.name in ('dopri5', 'dop853'))
        vc.canary('canary: reachable', z3.BoolVal(False))
    run.__doc__ = "integrateFuncJac(method=%r, full_output=%s, includeOrigin=%s): one owned row per requested time, each the solution at that time" % (method, full_output, include_origin)
    contract(cid, ['C02', 'C06', 'C18'], OU + 'integrateFuncJac', replay=_replay,
             also=[OU + '_integrateOneStep', OU + '_setupIntegrator', OU + '_determineIntegratorGivenEigenValue'])(run)


for _m in (None, 'lsoda', 'vode', 'ivode', 'dopri5', 'dop853'):
    for _fo in (False, True):
        for _io in (False, True):
            make_ifj(_m, _fo, _io)
for _fo in (False, True):
    for _io in (False, True):
        make_ifj('vode', _fo, _io, int_x0=True)
