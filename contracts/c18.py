"""C18 -- fit stays inside the box and never returns something worse than its start.

fit is thin glue: it packs (lb, ub) into one bounds pair per variable and hands cost, sensitivity, the start point and the
bounds to scipy's L-BFGS-B.  Proved here: the bounds passed are exactly (lb[i], ub[i]) for every i and every value of the
bounds (zero, negative, equal ...), fun / jac / x0 are the object's cost, its sensitivity and the supplied start, the method
is L-BFGS-B when no linear constraint is given, mismatching lengths are rejected, and the value returned is the optimiser's
x.  ASSUMED (scipy's contract, not proved): L-BFGS-B returns a point within the bounds it was given whose objective does not
exceed the objective at x0; it stops at a point with zero projected gradient."""
import z3
from pyvc.driver import contract
from pyvc.lib import SArr, SList
from pyvc.values import ObjVal, Builtin, BoundMethod, to_num, to_real

LOSS = 'pygom.loss.base_loss:'


def replay_fit(clause, m):
    """the real fit with a recorder in place of scipy.optimize.minimize: bounds containing zero, negative and equal entries"""
    import numpy as np
    from contracts import native
    bl = native.imp('pygom.loss.base_loss')
    rec = {}

    class Dummy(object):
        def cost(self, x=None):
            return 0.0

        def sensitivity(self, x=None):
            return np.zeros(3)
    d = Dummy()

    def fake(fun=None, jac=None, x0=None, bounds=None, constraints=None, method=None, callback=None, **kw):
        rec.update(fun=fun, jac=jac, x0=x0, bounds=bounds, method=method, constraints=constraints)
        return {'x': np.array(x0)}
    old = bl.minimize
    bl.minimize = fake
    bad = []
    try:
        for lb, ub in (([0.0, -1.0, 2.0], [1.0, 0.0, 2.0]), ([0, 0, 0], [5, 6, 7]), ([-3.0, 1e-3, 0.5], [0.0, 0.9, 0.5])):
            x = [0.5 * (a + b) for a, b in zip(lb, ub)]
            r = bl.BaseLoss.fit(d, x, lb, ub)
            got = [tuple(None if v is None else float(v) for v in row) for row in np.asarray(rec['bounds'], dtype=object).tolist()] if rec.get('bounds') is not None else None
            want = [(float(a), float(b)) for a, b in zip(lb, ub)]
            if got != want:
                bad.append("fit(x, lb=%s, ub=%s) hands bounds %s to the optimiser" % (lb, ub, got))
            if rec.get('method') != 'L-BFGS-B' or rec.get('x0') is not x and list(rec.get('x0')) != x:
                bad.append("method %r, x0 %r" % (rec.get('method'), rec.get('x0')))
            if getattr(rec.get('fun'), '__func__', None) is not Dummy.cost or getattr(rec.get('jac'), '__func__', None) is not Dummy.sensitivity:
                bad.append("fun / jac are not the object's cost / sensitivity")
    except Exception as e:
        bad.append("raises %s: %s" % (type(e).__name__, e))
    finally:
        bl.minimize = old
    return {'reproduced': bool(bad), 'observed': bad[:3], 'input': 'BaseLoss.fit with bounds containing 0, negative and equal entries, scipy.optimize.minimize replaced by a recorder'}


def make_fit(kind):
    @contract('C18/fit/%s' % kind, ['C18'], LOSS + 'BaseLoss.fit', replay=replay_fit)
    def fit(vc):
        n = vc.int('n', ge=1)
        x = vc.array('x', (n,))
        lb, ub = vc.array('lb', (n,)), vc.array('ub', (n,))
        rec = {}

        def minimize(it, a, k):
            rec.update(k)
            rec['positional'] = a
            res = SArr((n,), lambda o: z3.Function('OptX', z3.IntSort(), z3.RealSort())(o[0]))
            rec['result'] = res
            return {'x': res}
        cls = vc.cls(LOSS + 'BaseLoss')
        self = ObjVal(cls, {})
        mod = vc.module('pygom.loss.base_loss')
        mod.env.vars['minimize'] = Builtin('scipy.optimize.minimize', minimize)
        vc.it.ctx.note_trusted("scipy.optimize.minimize(method='L-BFGS-B'): returns a point inside the bounds it is given with fun(x) <= fun(x0) (ASSUMED, scipy's contract)")
        if kind == 'lists':
            args = (SList(n, lambda k: x.get((k,))), SList(n, lambda k: lb.get((k,))), SList(n, lambda k: ub.get((k,))))
        else:
            args = (x, lb, ub)
        out = vc.call(vc.func(LOSS + 'BaseLoss.fit'), self, *args)
        vc.ensure('returns normally', out.returned)
        if not out.returned:
            return
        vc.ensure('the optimiser is called exactly with keyword arguments', rec.get('positional') == [] or rec.get('positional') == ())
        b = rec.get('bounds')
        i = z3.Int('q_i')
        vc.assume(z3.And(i >= 0, i < n))
        # scipy accepts an (n, 2) array or a sequence of (lower, upper) pairs; None would mean "unbounded on that side"
        from pyvc.values import SOpt
        if isinstance(b, SArr) and b.rank == 2:
            vc.ensure('bounds has one (lower, upper) row per variable', z3.And(to_num(b.shape[0]) == n, to_num(b.shape[1]) == 2))
            pair = (b.get((i, z3.IntVal(0))), b.get((i, z3.IntVal(1))))
        else:
            vc.ensure('bounds has one (lower, upper) pair per variable', to_num(vc.it.length(b)) == n)
            pair = vc.it.getitem(b, i)
            vc.ensure('each entry is a (lower, upper) pair', isinstance(pair, tuple) and len(pair) == 2)
        for side, got, want in (('lower', pair[0], lb.get((i,))), ('upper', pair[1], ub.get((i,)))):
            if isinstance(got, SOpt):
                vc.ensure('the %s bound of variable i is the one supplied (it is never dropped), for every value including 0' % side, z3.And(z3.Not(got.isnone), got.val == want))
            else:
                vc.ensure('the %s bound of variable i is the one supplied, for every value including 0' % side, got is not None and to_real(got) == want)
        fun, jac = rec.get('fun'), rec.get('jac')
        vc.ensure('fun is the cost of this object', isinstance(fun, BoundMethod) and fun.self_obj is self and fun.func.qualname == 'BaseLoss.cost')
        vc.ensure('jac is the sensitivity (gradient) of this object', isinstance(jac, BoundMethod) and jac.self_obj is self and jac.func.qualname == 'BaseLoss.sensitivity')
        x0 = rec.get('x0')
        vc.ensure('the optimiser starts at the supplied point', x0 is args[0])
        vc.ensure('L-BFGS-B without linear constraints', rec.get('method') == 'L-BFGS-B' and rec.get('constraints') == [])
        vc.ensure("the value returned is the optimiser's x", out.value is rec.get('result'))
        vc.canary('canary: reachable', z3.BoolVal(False))
    fit.__doc__ = "fit(x, lb, ub) (%s): cost, sensitivity, start point and (lb[i], ub[i]) pairs go to L-BFGS-B; its x is returned" % kind
    return fit


make_fit('arrays')
make_fit('lists')


@contract('C18/fit/reject-mismatching-bounds', ['C18'], LOSS + 'BaseLoss.fit')
def fit_reject(vc):
    """bounds of different lengths, or not one per variable, are rejected before the optimiser is called"""
    n, m, k = vc.int('n', ge=1), vc.int('m', ge=1), vc.int('k', ge=1)
    vc.require('lengths do not match', z3.Or(m != k, m != n))
    called = []
    mod = vc.module('pygom.loss.base_loss')
    mod.env.vars['minimize'] = Builtin('scipy.optimize.minimize', lambda it, a, kw: called.append(1))
    self = ObjVal(vc.cls(LOSS + 'BaseLoss'), {})
    out = vc.call(vc.func(LOSS + 'BaseLoss.fit'), self, vc.array('x', (n,)), vc.array('lb', (m,)), vc.array('ub', (k,)))
    vc.ensure('rejected with an error', not out.returned)
    vc.ensure('the optimiser is not called', not called)
    vc.canary('canary: reachable', z3.BoolVal(False))
