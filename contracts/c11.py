"""C11 -- declared state limits are never violated in stochastic simulation."""
import z3
from pyvc.driver import contract
from pyvc.lib import SList, SArr
from pyvc.values import SOpt, z3bool

CHECKJUMP = 'pygom.model.stochastic_simulation:_checkJump'


def _lims(vc, n):
    lo_none = vc.array('lo_none', (n,), 'bool').fn
    hi_none = vc.array('hi_none', (n,), 'bool').fn
    lo = vc.array('lo', (n,)).fn
    hi = vc.array('hi', (n,)).fn
    lims = SList(n, lambda k: (SOpt(lo_none(k), lo(k)), SOpt(hi_none(k), hi(k))))
    return lims, lo_none, lo, hi_none, hi


def _native_checkjump(x, x_new, lims, t, tau):
    """run the real _checkJump and evaluate the contract's postcondition natively"""
    import numpy as np
    from contracts import native
    ss = native.imp('pygom.model.stochastic_simulation')
    xa, xn = np.array(x, float), np.array(x_new, float)
    jumps = [0]
    with native.quiet():
        t_new, jt, x_out, j_out, success = ss._checkJump(xa, xn, lims, t, tau, jumps)
    within = all((lo is None or v >= lo) and (hi is None or v <= hi) for v, (lo, hi) in zip(x_new, lims))
    bad = []
    if bool(success) != within:
        bad.append("success=%s but all-within-limits=%s" % (success, within))
    if success and not (t_new == t + tau and x_out is xn):
        bad.append("accepted step does not advance to (t+tau, proposal)")
    if (not success) and not (t_new == t and x_out is xa):
        bad.append("rejected step changed state or time")
    if jt != tau or j_out is not jumps:
        bad.append("step or jumps not passed through")
    return bad


def replay_checkjump(clause, m):
    """counter-model -> concrete call of the real function; falls back to a small exhaustive
    enumeration when the model describes a mid-loop state rather than an input"""
    import itertools
    from contracts.native import opt
    n = m.get('n', 0)
    tried = []
    if isinstance(n, int) and 0 <= n <= 8 and isinstance(m.get('x_new'), list):
        lims = [(opt(m['lo_none'][i], m['lo'][i]), opt(m['hi_none'][i], m['hi'][i])) for i in range(n)]
        case = dict(x=m['x'], x_new=m['x_new'], lims=lims, t=m['t'], tau=m['tau'])
        bad = _native_checkjump(**case)
        tried.append(case)
        if bad:
            return {'reproduced': True, 'input': case, 'observed': bad}
    vals = [-1.0, 0.0, 1.0]
    limv = [None, 0.0, 1.0]
    for nn in (1, 2):
        for xs in itertools.product(vals, repeat=nn):
            for ls in itertools.product(itertools.product(limv, limv), repeat=nn):
                case = dict(x=[0.0] * nn, x_new=list(xs), lims=list(ls), t=1.0, tau=0.5)
                try:
                    bad = _native_checkjump(**case)
                except TypeError as e:
                    bad = ["TypeError: %s" % e]
                if bad:
                    return {'reproduced': True, 'input': case, 'observed': bad, 'found_by': 'bounded enumeration around the model (n<=2, values in {-1,0,1}, limits in {None,0,1})'}
    return {'reproduced': False, 'tried': tried[:1], 'searched': 'n<=2, values in {-1,0,1}, limits in {None,0,1}'}


@contract('C11/checkJump', ['C11', 'C04', 'C05'], CHECKJUMP, replay=replay_checkjump)
def check_jump(vc):
    """_checkJump accepts exactly the proposals inside every declared limit; a rejected proposal
    leaves state and time unchanged, an accepted one advances time by the step."""
    n = vc.int('n', ge=0)
    x = vc.array('x', (n,))
    x_new = vc.array('x_new', (n,))
    lims, lo_none, lo, hi_none, hi = _lims(vc, n)
    t = vc.real('t')
    tau = vc.real('tau')
    jumps = vc.array('jumps', (vc.int('nE', ge=0),), 'int')

    def outside(j):
        return z3.Or(z3.And(z3.Not(lo_none(j)), x_new.at(j) < lo(j)),
                     z3.And(z3.Not(hi_none(j)), x_new.at(j) > hi(j)))

    def inv(view, k):
        j = z3.Int('j_inv')
        return [('failed-iff-some-state-outside',
                 z3bool(view['failed_jump']) == z3.Exists([j], z3.And(j >= 0, j < k, outside(j))))]
    vc.loop(CHECKJUMP, 0, inv)

    out = vc.call(vc.func(), x, x_new, lims, t, tau, jumps)
    vc.ensure('returns-normally', out.returned)
    if not out.returned:
        return
    t_new, jump_time, x_out, jumps_out, success = out.value
    j = z3.Int('j_post')
    within = z3.ForAll([j], z3.Implies(z3.And(j >= 0, j < n), z3.Not(outside(j))))
    vc.ensure('success-iff-all-within-limits', z3bool(success) == within)
    vc.ensure('step-is-passed-through', jump_time == tau)
    vc.ensure('jumps-are-passed-through', jumps_out is jumps)
    if success is True:
        vc.ensure('accepted: time advances by the step', t_new == t + tau)
        vc.ensure('accepted: state is the proposal', x_out is x_new)
        vc.canary('canary: accepted path reachable with a finite limit', z3.Or(n == 0, lo_none(0)))
    else:
        vc.ensure('rejected: time unchanged', t_new == t)
        vc.ensure('rejected: state unchanged', x_out is x)
        vc.canary('canary: rejected path is reachable', z3.BoolVal(False))
