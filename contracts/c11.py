"""C11 -- declared state limits are never violated in stochastic simulation."""
import z3
from pyvc.driver import contract
from pyvc.lib import SList, SArr
from pyvc.values import SOpt, z3bool

CHECKJUMP = 'pygom.model.stochastic_simulation:_checkJump'


def _lims(vc, n):
    lo_none = vc.array('lo_none', (n,), 'bool').fn
    hi_none = vc.array('hi_none', (n,), 'bool').fn
    lo = vc.array('lo', (n,)).fn
    hi = vc.array('hi', (n,)).fn
    lims = SList(n, lambda k: (SOpt(lo_none(k), lo(k)), SOpt(hi_none(k), hi(k))))
    return lims, lo_none, lo, hi_none, hi


def _native_checkjump(x, x_new, lims, t, tau):
    """run the real _checkJump and evaluate the contract's postcondition natively"""
    import numpy as np
    from contracts import native
    ss = native.imp('pygom.model.stochastic_simulation')
    xa, xn = np.array(x, float), np.array(x_new, float)
    jumps = [0]
    with native.quiet():
        t_new, jt, x_out, j_out, success = ss._checkJump(xa, xn, lims, t, tau, jumps)
    within = all((lo is None or v >= lo) and (hi is None or v <= hi) for v, (lo, hi) in zip(x_new, lims))
    bad = []
    if bool(success) != within:
        bad.append("success=%s but all-within-limits=%s" % (success, within))
    if success and not (t_new == t + tau and x_out is xn):
        bad.append("accepted step does not advance to (t+tau, proposal)")
    if (not success) and not (t_new == t and x_out is xa):
        bad.append("rejected step changed state or time")
    if jt != tau or j_out is not jumps:
        bad.append("step or jumps not passed through")
    return bad


def replay_checkjump(clause, m):
    """counter-model -> concrete call of the real function; falls back to a small exhaustive
    enumeration when the model describes a mid-loop state rather than an input"""
    import itertools
    from contracts.native import opt
    n = m.get('n', 0)
    tried = []
    if isinstance(n, int) and 0 <= n <= 8 and isinstance(m.get('x_new'), list):
        lims = [(opt(m['lo_none'][i], m['lo'][i]), opt(m['hi_none'][i], m['hi'][i])) for i in range(n)]
        case = dict(x=m['x'], x_new=m['x_new'], lims=lims, t=m['t'], tau=m['tau'])
        bad = _native_checkjump(**case)
        tried.append(case)
        if bad:
            return {'reproduced': True, 'input': case, 'observed': bad}
    vals = [-1.0, 0.0, 1.0]
    limv = [None, 0.0, 1.0]
    for nn in (1, 2):
        for xs in itertools.product(vals, repeat=nn):
            for ls in itertools.product(itertools.product(limv, limv), repeat=nn):
                case = dict(x=[0.0] * nn, x_new=list(xs), lims=list(ls), t=1.0, tau=0.5)
                try:
                    bad = _native_checkjump(**case)
                except TypeError as e:
                    bad = ["TypeError: %s" % e]
                if bad:
                    return {'reproduced': True, 'input': case, 'observed': bad, 'found_by': 'bounded enumeration around the model (n<=2, values in {-1,0,1}, limits in {None,0,1})'}
    return {'reproduced': False, 'tried': tried[:1], 'searched': 'n<=2, values in {-1,0,1}, limits in {None,0,1}'}


@contract('C11/checkJump', ['C11', 'C04', 'C05'], CHECKJUMP, replay=replay_checkjump)
def check_jump(vc):
    """_checkJump accepts exactly the proposals inside every declared limit; a rejected proposal
    leaves state and time unchanged, an accepted one advances time by the step."""
    n = vc.int('n', ge=0)
    x = vc.array('x', (n,))
    x_new = vc.array('x_new', (n,))
    lims, lo_none, lo, hi_none, hi = _lims(vc, n)
    t = vc.real('t')
    tau = vc.real('tau')
    jumps = vc.array('jumps', (vc.int('nE', ge=0),), 'int')

    def outside(j):
        return z3.Or(z3.And(z3.Not(lo_none(j)), x_new.at(j) < lo(j)),
                     z3.And(z3.Not(hi_none(j)), x_new.at(j) > hi(j)))

    def inv(view, k):
        j = z3.Int('j_inv')
        return [('failed-iff-some-state-outside',
                 z3bool(view['failed_jump']) == z3.Exists([j], z3.And(j >= 0, j < k, outside(j))))]
    vc.loop(CHECKJUMP, 0, inv)

    out = vc.call(vc.func(), x, x_new, lims, t, tau, jumps)
    vc.ensure('returns-normally', out.returned)
    if not out.returned:
        return
    t_new, jump_time, x_out, jumps_out, success = out.value
    j = z3.Int('j_post')
    within = z3.ForAll([j], z3.Implies(z3.And(j >= 0, j < n), z3.Not(outside(j))))
    vc.ensure('success-iff-all-within-limits', z3bool(success) == within)
    vc.ensure('step-is-passed-through', jump_time == tau)
    vc.ensure('jumps-are-passed-through', jumps_out is jumps)
    if success is True:
        vc.ensure('accepted: time advances by the step', t_new == t + tau)
        vc.ensure('accepted: state is the proposal', x_out is x_new)
        vc.canary('canary: accepted path reachable with a finite limit', z3.Or(n == 0, lo_none(0)))
    else:
        vc.ensure('rejected: time unchanged', t_new == t)
        vc.ensure('rejected: state unchanged', x_out is x)
        vc.canary('canary: rejected path is reachable', z3.BoolVal(False))


# ---------------------------------------------------------------------------------------------
# class invariant of the limits list: one (lower, upper) pair per STATE, default (0, None)

def make_limits(label, decls, expand):
    """decls: the `state` constructor argument; expand: name -> number of states a declaration string expands to (range-style names)"""
    @contract('C11/state-limits/' + label, ['C11'], 'pygom.model.base_ode_model:BaseOdeModel._add_list_attr_with_limits',
              also=['pygom.model.base_ode_model:BaseOdeModel.state_list.setter', 'pygom.model.base_ode_model:BaseOdeModel._addStateSymbol'])
    def limits(vc):
        from contracts.c08 import Ghost, GhostList, GhostDict, OpaqueSymbol
        from pyvc.values import ObjVal, Builtin
        ghost = Ghost()
        cls = vc.cls('pygom.model.base_ode_model:BaseOdeModel')
        can = vc.call(vc.cls('pygom.model.simulate:HasNewTransition')).value
        obj = ObjVal(cls, {'_stateList': GhostList(ghost, '_stateList'), '_paramList': GhostList(ghost, '_paramList'), '_stateDict': GhostDict(ghost, '_stateDict'),
                           '_paramDict': GhostDict(ghost, '_paramDict'), '_vectorStateDict': GhostDict(ghost, '_vectorStateDict'), '_hasNewTransition': can})

        def add_symbol(it, a, k):
            name = a[1]
            n = expand.get(name, 1)
            if n == 1:
                return OpaqueSymbol(symbol=name)
            return [OpaqueSymbol(symbol='%s_%d' % (name, j)) for j in range(n)]       # a range-style declaration: several symbols
        vc.summary('pygom.model.base_ode_model:BaseOdeModel._addSymbol', add_symbol)
        from pyvc.values import TypeTag
        vc.it.builtins_env.vars['str'] = TypeTag('str', ctor=lambda it, a, k: a[0].labels['symbol'] if isinstance(a[0], OpaqueSymbol) else (a[0] if isinstance(a[0], str) else '<str>'))
        out = vc.call(vc.func('pygom.model.base_ode_model:BaseOdeModel._add_list_attr_with_limits'), obj, decls, 'state_list')
        vc.ensure('accepted', out.returned)
        if not out.returned:
            return
        lims = obj.fields.get('_state_lims')
        states = obj.fields['_stateList'].items
        want = []
        entries = decls if isinstance(decls, list) else [s for s in decls.replace(',', ' ').split() if s]
        for d in entries:
            name, lim = (d[0], d[1]) if isinstance(d, tuple) else (d, (0, None))
            want += [lim] * expand.get(name, 1)
        vc.ensure('one state per declared name (range-style names expand)', len(states) == len(want))
        vc.ensure('one limit pair per STATE', isinstance(lims, list) and len(lims) == len(states))
        vc.ensure('state i carries the limits of the declaration it came from, (0, None) when none were declared', lims == want)
        # states added later through the setter get the default pair
        out2 = vc.call(vc.func('pygom.model.base_ode_model:BaseOdeModel.state_list.setter'), obj, ['Znew'])
        lims2 = obj.fields.get('_state_lims')
        vc.ensure('a state added later gets the default pair', out2.returned and lims2 == want + [(0, None)] and len(obj.fields['_stateList'].items) == len(want) + 1)
        vc.canary('canary: reachable', z3.BoolVal(False))
    limits.__doc__ = "_add_list_attr_with_limits (%s): len(_state_lims) = number of states, entry i is the declared pair of state i" % label
    return limits


make_limits('plain names', ['S', 'I', 'R'], {})
make_limits('declared pairs', [('S', (0, 50)), 'I', ('R', (None, 10)), ('V', (None, None))], {})
make_limits('range-style name', ['y1:4'], {'y1:4': 3})
make_limits('range-style name with limits between plain names', ['A', ('y1:3', (1, 9)), 'B', 'z0:2'], {'y1:3': 2, 'z0:2': 2})
