"""C11 -- declared state limits are never violated in stochastic simulation."""
import z3
from pyvc.driver import contract
from pyvc.lib import SList, SArr
from pyvc.values import SOpt, z3bool

CHECKJUMP = 'pygom.model.stochastic_simulation:_checkJump'


def _lims(vc, n):
    lo_none = vc.fn('lo_none', z3.IntSort(), z3.BoolSort())
    hi_none = vc.fn('hi_none', z3.IntSort(), z3.BoolSort())
    lo = vc.fn('lo', z3.IntSort(), z3.RealSort())
    hi = vc.fn('hi', z3.IntSort(), z3.RealSort())
    lims = SList(n, lambda k: (SOpt(lo_none(k), lo(k)), SOpt(hi_none(k), hi(k))))
    return lims, lo_none, lo, hi_none, hi


@contract('C11/checkJump', ['C11', 'C04'], CHECKJUMP)
def check_jump(vc):
    """_checkJump accepts exactly the proposals inside every declared limit; a rejected proposal
    leaves state and time unchanged, an accepted one advances time by the step."""
    n = vc.int('n', ge=0)
    x = vc.array('x', (n,))
    x_new = vc.array('x_new', (n,))
    lims, lo_none, lo, hi_none, hi = _lims(vc, n)
    t = vc.real('t')
    tau = vc.real('tau')
    jumps = vc.array('jumps', (vc.int('nE', ge=0),), 'int')

    def outside(j):
        return z3.Or(z3.And(z3.Not(lo_none(j)), x_new.at(j) < lo(j)),
                     z3.And(z3.Not(hi_none(j)), x_new.at(j) > hi(j)))

    def inv(view, k):
        j = z3.Int('j_inv')
        return [('failed-iff-some-state-outside',
                 z3bool(view['failed_jump']) == z3.Exists([j], z3.And(j >= 0, j < k, outside(j))))]
    vc.loop(CHECKJUMP, 0, inv)

    out = vc.call(vc.func(), x, x_new, lims, t, tau, jumps)
    vc.ensure('returns-normally', out.returned)
    if not out.returned:
        return
    t_new, jump_time, x_out, jumps_out, success = out.value
    j = z3.Int('j_post')
    within = z3.ForAll([j], z3.Implies(z3.And(j >= 0, j < n), z3.Not(outside(j))))
    vc.ensure('success-iff-all-within-limits', z3bool(success) == within)
    vc.ensure('step-is-passed-through', jump_time == tau)
    vc.ensure('jumps-are-passed-through', jumps_out is jumps)
    if success is True:
        vc.ensure('accepted: time advances by the step', t_new == t + tau)
        vc.ensure('accepted: state is the proposal', x_out is x_new)
        vc.canary('canary: accepted path reachable with a finite limit', z3.Or(n == 0, lo_none(0)))
    else:
        vc.ensure('rejected: time unchanged', t_new == t)
        vc.ensure('rejected: state unchanged', x_out is x)
        vc.canary('canary: rejected path is reachable', z3.BoolVal(False))
