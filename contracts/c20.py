"""C20 -- curvature information matches the cost: the Gauss-Newton matrix.

  sens_to_jtj(sens)[b, c] = sum_i sum_a (w[i,a] * sens[i, a + b*num_s]) * (w[i,a] * sens[i, a + c*num_s])
i.e. the sum over observations of S_i^T S_i with S_i the (num_s x num_out) matrix of weighted sensitivities of the observed
states: a sum of Gram matrices, hence symmetric positive semi-definite (Lean lemmas gram_psd, sum_psd).  The column selection
comes from _getTargetParamSensIndex (C07 contracts).
The hessian clause of the property is a KNOWN FINDING (F13, known_findings.json): eval_forwardforward omits second-order
terms and hessian adds the second-order part with the wrong sign; it is reported by the bounded stand-in per model."""
import z3
from pyvc.driver import contract
from pyvc.lib import SList, SArr
from pyvc.values import ObjVal, Builtin, to_num, to_real

LOSS = 'pygom.loss.base_loss:BaseLoss.'
I, R = z3.IntSort(), z3.RealSort()


def replay_c20(clause, m):
    from standins import c20
    r = c20.run('quick', 5)
    fails = [f for f in r['failures'] if not str(f.get('key', '')).startswith('hessian-known:')]
    if fails:
        f = fails[0]
        return {'reproduced': True, 'input': f['case'], 'observed': f['observed'], 'found_by': 'bounded stand-in (jtj against weighted outer products of finite-difference sensitivities)'}
    return {'reproduced': False, 'searched': r['bound']}


@contract('C20/sens_to_jtj', ['C20'], LOSS + 'sens_to_jtj', replay=replay_c20, timeout_ms=60000)
def sens_to_jtj(vc):
    """sens_to_jtj(sens) (no residual): the sum over observations of the Gram matrices of the weighted sensitivities"""
    n, num_s, num_out = vc.int('n', ge=1), vc.int('num_s', ge=1), vc.int('num_out', ge=1)
    p = vc.int('p')
    vc.require('one column per (named state, free variable)', p == num_s * num_out)
    sens = vc.array('sens', (n, p))
    W = vc.array('W', (n, num_s))
    cls = vc.cls('pygom.loss.base_loss:BaseLoss')
    self = ObjVal(cls, {'_stateName': SList(num_s, lambda q: None), '_weight': W})
    vc.ensure('lemma: int(p / num_s) = num_out', z3.ToInt(z3.ToReal(p) / z3.ToReal(num_s)) == num_out)
    F = LOSS + 'sens_to_jtj'
    st = {}
    DOT = vc.fn('GramEntry', I, I, I, R)         # DOT(i, b, c) = (S_i^T S_i)[b, c], defined where np.dot is called
    PSJ = vc.fn('GramSum', I, I, I, R)
    i0, b0, c0 = z3.Int('ps_i'), z3.Int('ps_b'), z3.Int('ps_c')
    vc.assume(z3.ForAll([b0, c0], PSJ(0, b0, c0) == 0))
    vc.assume(z3.ForAll([i0, b0, c0], z3.Implies(i0 >= 0, PSJ(i0 + 1, b0, c0) == PSJ(i0, b0, c0) + DOT(i0, b0, c0)), patterns=[PSJ(i0 + 1, b0, c0)]))

    def before(it, view):
        st['orig'] = view['sens'].get

    def inv(view, j):
        s3 = view['sens']
        i_, a_, b_ = z3.Int('g_i'), z3.Int('g_a'), z3.Int('g_b')
        return [('slices of the first j free variables are multiplied by the weights, the others are untouched',
                 z3.And(s3.rank == 3, to_num(s3.shape[0]) == n, to_num(s3.shape[1]) == num_s, to_num(s3.shape[2]) == num_out,
                        z3.ForAll([i_, a_, b_], z3.Implies(z3.And(i_ >= 0, i_ < n, a_ >= 0, a_ < num_s, b_ >= 0, b_ < num_out),
                                                          s3.get((i_, a_, b_)) == z3.If(b_ < j, st['orig']((i_, a_, b_)) * W.get((i_, a_)), st['orig']((i_, a_, b_)))))))]
    vc.loop(F, 0, inv, before=before, modifies=('sens',))

    def before2(it, view):
        st['weighted'] = view['sens'].get

    def inv2(view, i):
        J = view['J']
        b_, c_ = z3.Int('j_b'), z3.Int('j_c')
        return [('J holds the Gram matrices of the first i observations',
                 z3.And(to_num(J.shape[0]) == num_out, to_num(J.shape[1]) == num_out,
                        z3.ForAll([b_, c_], z3.Implies(z3.And(b_ >= 0, b_ < num_out, c_ >= 0, c_ < num_out), J.get((b_, c_)) == PSJ(i, b_, c_)))))]
    vc.loop(F, 1, inv2, before=before2, modifies=('J',), ghost=lambda it, view, i: st.__setitem__('i', i))

    def dot(it, a, k):
        """np.dot(s.T, s) for the rows of observation i: checked to be the transposed and the plain (num_s x num_out) slice of the
        weighted sensitivities; its result is, by the definition of the matrix product, sum_a S[a,b]*S[a,c] =: DOT(i, b, c)"""
        A, Bm = a[0], a[1]
        i = st['i']
        sw = st['weighted']
        a_, b_ = z3.Int(it.ctx._name('da')), z3.Int(it.ctx._name('db'))
        it.ctx.note_trusted("np.dot(S^T, S)[b, c] = sum_a S[a, b] * S[a, c]")
        it.ctx.oblige('pre(np.dot): left factor is the transposed weighted-sensitivity slice of this observation',
                      isinstance(A, SArr) and A.rank == 2 and z3.And(to_num(A.shape[0]) == num_out, to_num(A.shape[1]) == num_s,
                                                                    z3.ForAll([a_, b_], z3.Implies(z3.And(a_ >= 0, a_ < num_s, b_ >= 0, b_ < num_out), A.get((b_, a_)) == sw((i, a_, b_))))))
        it.ctx.oblige('pre(np.dot): right factor is the weighted-sensitivity slice of this observation',
                      isinstance(Bm, SArr) and Bm.rank == 2 and z3.And(to_num(Bm.shape[0]) == num_s, to_num(Bm.shape[1]) == num_out,
                                                                      z3.ForAll([a_, b_], z3.Implies(z3.And(a_ >= 0, a_ < num_s, b_ >= 0, b_ < num_out), Bm.get((a_, b_)) == sw((i, a_, b_))))))
        return SArr((num_out, num_out), lambda o: DOT(i, o[0], o[1]))
    vc.it.lib.namespace('numpy').attrs['dot'] = Builtin('np.dot', dot)
    out = vc.call(vc.func(F), self, sens)
    vc.ensure('returns normally', out.returned)
    if not out.returned:
        return
    J = out.value
    vc.ensure('a square matrix over the free variables', isinstance(J, SArr) and J.rank == 2 and z3.And(to_num(J.shape[0]) == num_out, to_num(J.shape[1]) == num_out))
    b, c, i, a = z3.Int('q_b'), z3.Int('q_c'), z3.Int('q_i'), z3.Int('q_a')
    vc.assume(z3.And(b >= 0, b < num_out, c >= 0, c < num_out, i >= 0, i < n, a >= 0, a < num_s))
    vc.ensure('jtj[b, c] = sum over observations of the Gram entries (S_i^T S_i)[b, c]', J.get((b, c)) == PSJ(n, b, c))
    vc.hint_blocks([(a + b * num_s, i), (a + c * num_s, i), (i, a)])
    sw = st['weighted']
    vc.ensure('the slice S_i used for observation i is the weighted sensitivity: S_i[a, b] = w[i,a] * sens[i, a + b*num_s]',
              sw((i, a, b)) == sens.get((i, a + b * num_s)) * W.get((i, a)))
    vc.canary('canary: reachable', z3.BoolVal(False))
