"""C09 -- parameter values are bound to the parameters they were given for (and C16: the random forms
draw only from numpy's global generator).

Function under contract: the `parameters` setter of BaseOdeModel (with its callees _extractParamSymbol,
get_param_index, _extractParamIndex executed from their real bodies).  The stored dictionary is modelled as
an insertion-ordered map with symbolic contents (pyvc/lib_dict.py); names are the uninterpreted sort of
declared parameter names with pid / pix the declaration order and its inverse.

Class invariant established by every accepted form and assumed of the prior state in the partial-update form:
  CI(d):   every key of d is a declared parameter name given as str or as the MODEL'S OWN Symbol (a Symbol of the
           same name created elsewhere -- sympy.Symbol('beta') without the model's assumptions -- is a different
           dictionary key and must be normalised on the way in), and for one name a str key precedes a Symbol key
  REL(d,v): v[j] = d[Symbol_j] if present, else d[str_j] if present, else 0      (what evaluators receive)"""
import z3
from pyvc.driver import contract
from pyvc.lib import SList, SArr, SMutList
from pyvc.lib_dict import SDict, SParamSymbol, SKey
from pyvc.values import Model, SName, ObjVal, Builtin, TypeTag, Unsupported, to_num, to_real, PyRaise, ExcVal
from contracts.modelview import NameList, pid, pix, pdeclared

I, R, B = z3.IntSort(), z3.RealSort(), z3.BoolSort()
SETTER = 'pygom.model.base_ode_model:BaseOdeModel.parameters.setter'
F = 'pygom.model.base_ode_model:BaseOdeModel.parameters.setter'


from pyvc.values import name_code
TKEY = z3.IntVal(name_code('t'))


class PDict(Model):
    """_paramDict: declared parameter name -> its sympy Symbol.  The constructor also files the TIME symbol in this dictionary
    under 't' (base_ode_model.py: self._paramDict['t'] = self._t), which is not a parameter and not in _paramList"""
    tags = frozenset({'dict'})

    def _t(self, key):
        if isinstance(key, SName):
            return key.term
        if isinstance(key, str):
            return z3.IntVal(name_code(key))
        raise Unsupported("parameter dictionary key %r" % (key,))

    def py_contains(self, it, key):
        if isinstance(key, SParamSymbol):
            return False        # a Symbol is never equal to a str key
        t = self._t(key)
        return z3.Or(pdeclared(t), t == TKEY)

    def py_getitem(self, it, key):
        t = self._t(key)
        if not it.ctx.branch(z3.Or(pdeclared(t), t == TKEY), 'paramDict-key'):
            raise PyRaise(ExcVal('KeyError', (key,), {'KeyError', 'LookupError', 'Exception', 'BaseException'}))
        return SParamSymbol(t)          # for 't': the time symbol, a Symbol named t that no entry of _paramList equals


class PList(NameList):
    """_paramList; index() also accepts the Symbol (ODEVariable.__eq__ compares the ID with str(symbol))"""

    def py_getattr(self, it, name):
        if name == 'index':
            base = NameList.py_getattr(self, it, 'index')

            def index(it_, a, k):
                x = a[0]
                if isinstance(x, SParamSymbol):
                    x = SName(x.pname)
                return base.py_call(it_, [x], k)
            return Builtin('list.index', index)
        return NameList.py_getattr(self, it, name)


def model(vc, with_prior=False):
    nP = vc.int('nP', ge=1)
    j, n = z3.Int('wf_j'), z3.Int('wf_n')
    vc.assume(z3.ForAll([j], z3.Implies(z3.And(j >= 0, j < nP), z3.And(pdeclared(pid(j)), pix(pid(j)) == j)), patterns=[pid(j)]))
    vc.assume(z3.ForAll([n], z3.Implies(pdeclared(n), z3.And(pix(n) >= 0, pix(n) < nP, pid(pix(n)) == n)), patterns=[pix(n)]))
    vc.assume(z3.Not(pdeclared(TKEY)))        # time is not a parameter (a model that declares a parameter called t is out of scope)
    varcls = vc.cls('pygom.model.ode_variable:ODEVariable')
    cls = vc.cls('pygom.model.base_ode_model:BaseOdeModel')
    fields = {'_paramList': PList(nP, pid, pix, pdeclared, varcls), '_paramDict': PDict(), '_stochasticParam': None}
    obj = ObjVal(cls, fields)
    # dict() is the empty symbolic dict; dict(d) of a symbolic dict is a copy of it (a new object with the same items)
    vc.it.builtins_env.vars['dict'] = TypeTag('dict', ctor=lambda it, a, k: (a[0].clone(it) if (a and isinstance(a[0], SDict)) else SDict(it, 'param_out', empty=True)))
    vc.summary('pygom.model.base_ode_model:BaseOdeModel.set_sp', lambda it, a, k: it.ctx.note_trusted(
        "BaseOdeModel.set_sp writes only _s and _sp (the symbol order states, t, parameters); it does not touch _paramValue"))
    return nP, obj


def CI(d, nP):
    n, kd = z3.Int('ci_n'), z3.Int('ci_k')
    return z3.And(z3.ForAll([n, kd], z3.Implies(d.dom(n, kd), z3.And(pdeclared(n), z3.Or(kd == 0, kd == 1))), patterns=[d.dom(n, kd)]),
                  z3.ForAll([n], z3.Implies(z3.And(d.dom(n, 0), d.dom(n, 1)), d.pos(n, 0) < d.pos(n, 1))))


def lookup(d, j):
    nm = pid(j)
    return z3.If(d.dom(nm, 1), d.val(nm, 1), z3.If(d.dom(nm, 0), d.val(nm, 0), 0.0))


def REL(d, pv, nP):
    j = z3.Int('rel_j')
    return z3.ForAll([j], z3.Implies(z3.And(j >= 0, j < nP), z3.Select(pv.arr, j) == lookup(d, j)))


def final_loop(vc, obj, nP, reject=False):
    """loop 3: the unrolling of the NEW holder (local param_out) into a NEW positional list (local param_value); both are stored on
    the object only after the loop, so an input rejected here leaves the object untouched.
    reject=True: the invariant used to show that the loop cannot run to its end when the holder has a key that is no parameter"""
    def inv(view, r):
        d, pv = view['param_out'], view['param_value']
        j, n, kd = z3.Int('i3_j'), z3.Int('i3_n'), z3.Int('i3_k')
        nm = pid(j)
        upto = z3.If(z3.And(d.dom(nm, 1), d.pos(nm, 1) < r), d.val(nm, 1), z3.If(z3.And(d.dom(nm, 0), d.pos(nm, 0) < r), d.val(nm, 0), 0.0))
        out = [('values of the keys processed so far, the Symbol key of a name taking precedence',
                z3.And(to_num(pv.length) == nP, z3.ForAll([j], z3.Implies(z3.And(j >= 0, j < nP), z3.Select(pv.arr, j) == upto))))]
        if reject:
            out = [('every key processed so far names a declared parameter',
                    z3.And(to_num(pv.length) == nP, z3.ForAll([n, kd], z3.Implies(z3.And(d.dom(n, kd), d.pos(n, kd) < r), pdeclared(n)))))]
        return out
    vc.loop(F, 3, inv, modifies=('param_value',))


def post_common(vc, obj, nP):
    d, pv = obj.fields.get('_parameters'), obj.fields.get('_paramValue')
    vc.binds(isinstance(pv, SMutList), 'the positional values are kept in a python list')
    vc.ensure('a value list with one entry per declared parameter', to_num(pv.length) == nP)
    vc.ensure('class invariant: keys are declared names; str key before Symbol key', CI(d, nP))
    vc.ensure('the positional values are the lookup of the stored dictionary (what evaluators receive after x, t)', REL(d, pv, nP))
    return d, pv


@contract('C09/parameters/positional', ['C09', 'C06', 'C16'], SETTER, also=['pygom.model.base_ode_model:BaseOdeModel.get_param_index',
                                                                     'pygom.model.base_ode_model:BaseOdeModel._extractParamIndex'])
def positional(vc):
    """ordered list / tuple / 1-D array of numbers of length nP: value j is bound to declared parameter j"""
    nP, obj = model(vc)
    v = vc.array('v', (nP,))
    kind = vc.it.ctx.choose(3, 'input-kind')
    params = [SList(nP, lambda k: v.get((k,))), SList(nP, lambda k: v.get((k,)), tags={'tuple'}), v][kind]

    def inv1(view, i):
        d = view['param_out']
        n, kd = z3.Int('i1_n'), z3.Int('i1_k')
        return [('the first i declared names are bound, as str keys, in order',
                 z3.And(d.L == i,
                        z3.ForAll([n, kd], d.dom(n, kd) == z3.And(kd == 0, pdeclared(n), pix(n) < i)),
                        z3.ForAll([n], z3.Implies(z3.And(pdeclared(n), pix(n) < i), z3.And(d.val(n, 0) == v.get((pix(n),)), d.pos(n, 0) == pix(n))))))]
    vc.loop(F, 1, inv1, modifies=('param_out',))
    final_loop(vc, obj, nP)
    out = vc.call(vc.func(), obj, params)
    vc.ensure('accepted', out.returned)
    if not out.returned:
        return
    d, pv = post_common(vc, obj, nP)
    j = z3.Int('q_j')
    vc.ensure('parameter j receives the j-th supplied value', z3.ForAll([j], z3.Implies(z3.And(j >= 0, j < nP), z3.Select(pv.arr, j) == v.get((j,)))))
    vc.canary('canary: reachable', z3.BoolVal(False))


@contract('C09/parameters/pairs', ['C09', 'C06'], SETTER)
def pairs(vc):
    """list of nP (name, value) pairs with distinct declared names in ANY order: each value goes to its name"""
    nP, obj = model(vc)
    pn = vc.fn('pair_name', I, I)
    pv_ = vc.fn('pair_value', I, R)
    a, b = z3.Int('pp_a'), z3.Int('pp_b')
    vc.require('every name is a declared parameter; names are distinct (a permutation of the parameters)',
               z3.And(z3.ForAll([a], z3.Implies(z3.And(a >= 0, a < nP), pdeclared(pn(a)))),
                      z3.ForAll([a, b], z3.Implies(z3.And(a >= 0, a < nP, b >= 0, b < nP, a != b), pn(a) != pn(b)))))
    # inverse of the pairing (well defined because the names are distinct)
    pq, pm = vc.fn('pair_index', I, I), vc.fn('pair_mentions', I, B)
    n_ = z3.Int('pp_n')
    vc.assume(z3.ForAll([a], z3.Implies(z3.And(a >= 0, a < nP), z3.And(pm(pn(a)), pq(pn(a)) == a)), patterns=[pn(a)]))
    vc.assume(z3.ForAll([n_], z3.Implies(pm(n_), z3.And(pq(n_) >= 0, pq(n_) < nP, pn(pq(n_)) == n_)), patterns=[pq(n_)]))
    params = SList(nP, lambda k: (SName(pn(k)), pv_(k)))

    def inv0(view, i):
        d = view['param_out']
        n, kd, p = z3.Int('i0_n'), z3.Int('i0_k'), z3.Int('i0_p')
        return [('the first i pairs are stored under the Symbol of their name, in order',
                 z3.And(d.L == i,
                        z3.ForAll([n, kd], d.dom(n, kd) == z3.And(kd == 1, pm(n), pq(n) < i)),
                        z3.ForAll([n], z3.Implies(z3.And(pm(n), pq(n) < i), z3.And(d.val(n, 1) == pv_(pq(n)), d.pos(n, 1) == pq(n))))))]
    vc.loop(F, 0, inv0, modifies=('param_out',))
    final_loop(vc, obj, nP)
    out = vc.call(vc.func(), obj, params)
    vc.ensure('accepted', out.returned)
    if not out.returned:
        return
    d, pv = post_common(vc, obj, nP)
    vc.ensure('each pair binds its value to the parameter it names',
              z3.ForAll([a], z3.Implies(z3.And(a >= 0, a < nP), z3.Select(pv.arr, pix(pn(a))) == pv_(a))))
    vc.canary('canary: reachable', z3.BoolVal(False))


def input_dict(vc, m, key_kind):
    """an input dict with m keys: names in_name(q) (distinct), kind str/Symbol per key, values in_val(q)"""
    inn, ink, inv_ = vc.fn('in_name', I, I), vc.fn('in_kind', I, I), vc.fn('in_val', I, R)
    inq, inm = vc.fn('in_index', I, I), vc.fn('in_mentioned', I, B)
    q, n = z3.Int('in_q'), z3.Int('in_n')
    vc.assume(z3.ForAll([q], z3.Implies(z3.And(q >= 0, q < m), z3.And(inm(inn(q)), inq(inn(q)) == q, z3.Or(ink(q) == 0, ink(q) == 1))), patterns=[inn(q)]))
    vc.assume(z3.ForAll([n], z3.Implies(inm(n), z3.And(inq(n) >= 0, inq(n) < m, inn(inq(n)) == n)), patterns=[inq(n)]))
    d = SDict(vc.it, 'input')
    vc.assume(d.L == m)
    vc.assume(z3.ForAll([q], z3.Implies(z3.And(q >= 0, q < m), z3.And(z3.Select(d.KN, q) == inn(q), z3.Select(d.KK, q) == ink(q),
                                                                      d.val(inn(q), ink(q)) == inv_(q), z3.Or(ink(q) == 0, ink(q) == 1))),
                        patterns=[inn(q), z3.Select(d.KN, q), z3.Select(d.KK, q)]))
    if key_kind is not None:
        vc.assume(z3.ForAll([q], z3.Implies(z3.And(q >= 0, q < m), ink(q) == key_kind)))
    return d, inn, ink, inv_, inq, inm


@contract('C09/parameters/dict-update', ['C09', 'C06'], SETTER, max_paths=600)
def dict_update(vc):
    """dict keyed by name or by symbol (any mixture), possibly partial, applied to an arbitrary earlier state: every
    mentioned parameter gets the supplied value, every other parameter keeps the value it had"""
    nP, obj = model(vc)
    m = vc.int('m', ge=0)
    vc.require('no more keys than parameters', m <= nP)
    IN, inn, ink, inv_, inq, inm = input_dict(vc, m, None)
    q = z3.Int('du_q')
    vc.require('every key names a declared parameter', z3.ForAll([q], z3.Implies(z3.And(q >= 0, q < m), pdeclared(inn(q)))))
    D0 = SDict(vc.it, 'stored')
    PV0 = SMutList(nP, z3.Array('paramValue0', I, R))
    obj.fields['_parameters'] = D0
    obj.fields['_paramValue'] = PV0
    vc.require('prior state satisfies the class invariant', z3.And(CI(D0, nP), REL(D0, PV0, nP)))
    s0 = D0.snapshot()
    dom0 = lambda n_, k_: z3.Select(s0['Dom'], n_, k_)

    def inv2(view, k):
        d = view['param_out']
        n, kd = z3.Int('i2_n'), z3.Int('i2_k')
        ment = lambda n_: z3.And(inm(n_), inq(n_) < k)
        return [('update: no key is lost and the old keys keep their positions', z3.And(d.L >= s0['L'], z3.ForAll([n, kd], z3.Implies(dom0(n, kd), d.pos(n, kd) == z3.Select(s0['Pos'], n, kd))))),
                ('update: Symbol keys are the earlier ones plus the first k supplied names', z3.ForAll([n], d.dom(n, 1) == z3.Or(dom0(n, 1), ment(n)))),
                ('update: str keys are untouched', z3.ForAll([n], d.dom(n, 0) == dom0(n, 0))),
                ('update: no foreign-Symbol key appears', z3.ForAll([n], d.dom(n, 2) == dom0(n, 2))),
                ('update: values under Symbol keys', z3.ForAll([n], d.val(n, 1) == z3.If(ment(n), inv_(inq(n)), z3.Select(s0['Val'], n, 1)))),
                ('update: values under str keys are untouched', z3.ForAll([n], d.val(n, 0) == z3.Select(s0['Val'], n, 0))),
                ('update: new keys are appended after the old ones', z3.ForAll([n], z3.Implies(z3.And(d.dom(n, 1), z3.Not(dom0(n, 1))), d.pos(n, 1) >= s0['L'])))]
    vc.loop(F, 2, inv2, modifies=('param_out',))
    final_loop(vc, obj, nP)
    out = vc.call(vc.func(), obj, IN)
    vc.ensure('accepted', out.returned)
    if not out.returned:
        return
    d, pv = post_common(vc, obj, nP)
    j = z3.Int('q_j')
    vc.ensure('every mentioned parameter gets the value supplied for its name',
              z3.ForAll([q], z3.Implies(z3.And(q >= 0, q < m), z3.Select(pv.arr, pix(inn(q))) == inv_(q))))
    vc.ensure('every parameter not mentioned keeps the value it had',
              z3.ForAll([j], z3.Implies(z3.And(j >= 0, j < nP, z3.Not(inm(pid(j)))), z3.Select(pv.arr, j) == z3.Select(PV0.arr, j))))
    vc.canary('canary: reachable', z3.BoolVal(False))


@contract('C09/parameters/dict-first-assignment', ['C09', 'C06'], SETTER, max_paths=600)
def dict_first(vc):
    """dict given to a model that has never had parameters: mentioned names get their values, the others are 0"""
    nP, obj = model(vc)
    m = vc.int('m', ge=0)
    vc.require('no more keys than parameters', m <= nP)
    IN, inn, ink, inv_, inq, inm = input_dict(vc, m, None)
    q = z3.Int('du_q')
    vc.require('every key names a declared parameter', z3.ForAll([q], z3.Implies(z3.And(q >= 0, q < m), pdeclared(inn(q)))))

    def inv2(view, k):
        d = view['param_out']
        n, kd = z3.Int('i2_n'), z3.Int('i2_k')
        ment = lambda n_: z3.And(inm(n_), inq(n_) < k)
        return [('the first k supplied values are stored under Symbol keys',
                 z3.And(z3.ForAll([n], d.dom(n, 1) == ment(n)), z3.ForAll([n], z3.Not(d.dom(n, 0))), z3.ForAll([n], z3.Not(d.dom(n, 2))),
                        z3.ForAll([n], z3.Implies(ment(n), d.val(n, 1) == inv_(inq(n))))))]
    vc.loop(F, 2, inv2, modifies=('param_out',))
    final_loop(vc, obj, nP)
    out = vc.call(vc.func(), obj, IN)
    vc.ensure('accepted', out.returned)
    if not out.returned:
        return
    d, pv = post_common(vc, obj, nP)
    j = z3.Int('q_j')
    vc.ensure('every mentioned parameter gets the value supplied for its name',
              z3.ForAll([q], z3.Implies(z3.And(q >= 0, q < m), z3.Select(pv.arr, pix(inn(q))) == inv_(q))))
    vc.ensure('parameters never bound are 0', z3.ForAll([j], z3.Implies(z3.And(j >= 0, j < nP, z3.Not(inm(pid(j)))), z3.Select(pv.arr, j) == 0)))
    vc.canary('canary: reachable', z3.BoolVal(False))


@contract('C09/parameters/dict-update/foreign-symbol-key', ['C09', 'C06'], SETTER, max_paths=600)
def dict_update_foreign(vc):
    """partial update keyed by a Symbol that has the parameter's name but is NOT the model's own Symbol object
    (sympy.Symbol('beta') without the model's assumptions): the value is bound to that parameter, the key is
    normalised to the model's Symbol (so that a later update of the same name replaces it), the others keep theirs"""
    nP, obj = model(vc)
    nm = vc.int('key_name')
    value = vc.real('value')
    vc.require('the symbol is named like a declared parameter', pdeclared(nm))
    D0 = SDict(vc.it, 'stored')
    PV0 = SMutList(nP, z3.Array('paramValue0', I, R))
    obj.fields['_parameters'] = D0
    obj.fields['_paramValue'] = PV0
    vc.require('prior state satisfies the class invariant', z3.And(CI(D0, nP), REL(D0, PV0, nP)))
    final_loop(vc, obj, nP)
    out = vc.call(vc.func(), obj, {SParamSymbol(nm, 2): value})
    vc.ensure('accepted', out.returned)
    if not out.returned:
        return
    d, pv = post_common(vc, obj, nP)
    j = z3.Int('q_j')
    vc.ensure('the named parameter gets the value', z3.Select(pv.arr, pix(nm)) == value)
    vc.ensure('every other parameter keeps the value it had',
              z3.ForAll([j], z3.Implies(z3.And(j >= 0, j < nP, j != pix(nm)), z3.Select(pv.arr, j) == z3.Select(PV0.arr, j))))
    vc.canary('canary: reachable', z3.BoolVal(False))


# ---------------------------------------------------------------------------------------------
# rejections: an error is raised and no value reaches _paramValue under a wrong name

def _unchanged(vc, obj, PV0, D0=None):
    vc.ensure('rejected: the positional value list is the same object with the same contents',
              obj.fields.get('_paramValue') is PV0 and z3.simplify(PV0.arr == PV0._arr0) is not None and (PV0.arr is PV0._arr0 or z3.is_true(z3.simplify(PV0.arr == PV0._arr0))))
    # the class invariant must survive the exceptional exit as well: the stored name -> value holder still describes the values in
    # use, so that a later partial update (which starts from the holder) keeps every value it does not mention
    d = obj.fields.get('_parameters')
    nP = PV0.length
    vc.ensure('rejected: the stored holder still describes the values in use (nothing of the rejected input is kept)',
              isinstance(d, SDict) and z3.And(CI(d, nP), REL(d, PV0, nP)), isolated=True)


def _prior(vc, obj, nP):
    D0 = SDict(vc.it, 'stored')
    PV0 = SMutList(nP, z3.Array('paramValue0', I, R))
    PV0._arr0 = PV0.arr
    obj.fields['_parameters'] = D0
    obj.fields['_paramValue'] = PV0
    vc.assume(z3.And(CI(D0, nP), REL(D0, PV0, nP)))
    return D0, PV0


@contract('C09/parameters/reject-wrong-length', ['C09'], SETTER)
def reject_length(vc):
    """a list, tuple or array whose length is not the number of parameters is rejected with an error"""
    nP, obj = model(vc)
    D0, PV0 = _prior(vc, obj, nP)
    n = vc.int('n', ge=1)
    vc.require('wrong length', n != nP)
    v = vc.array('v', (n,))
    kind = vc.it.ctx.choose(3, 'input-kind')
    params = [SList(n, lambda k: v.get((k,))), SList(n, lambda k: v.get((k,)), tags={'tuple'}), v][kind]
    out = vc.call(vc.func(), obj, params)
    vc.ensure('rejected with an error', not out.returned)
    _unchanged(vc, obj, PV0)
    vc.canary('canary: reachable', z3.BoolVal(False))


def indict(n):
    """the name is a key of _paramDict: a declared parameter, or 't' (the time symbol is filed there too)"""
    return z3.Or(pdeclared(n), n == TKEY)


def _replay_time_key(clause, m):
    """'t' used as a parameter name (pairs and dict): must be rejected and must leave the values in use and the holder as they were"""
    import numpy as np
    from contracts import native
    from standins import c09 as sc
    bad = []
    try:
        mdl, names = sc._model(2)
        with native.quiet():
            mdl.parameters = [1.0, 2.0]
            for inp in ([(names[1], 0.25), ('t', 7.0)], {'t': 7.0}, {names[0]: 9.0, 't': 7.0}):
                try:
                    mdl.parameters = inp
                    bad.append("%r was accepted" % (inp,))
                except Exception:
                    pass
                if [float(v) for v in mdl._paramValue] != [1.0, 2.0]:
                    bad.append("after the rejected %r the values in use are %s (were [1.0, 2.0])" % (inp, [float(v) for v in mdl._paramValue]))
                    break
                try:
                    mdl.parameters = {names[1]: 2.0}
                except Exception as e:
                    bad.append("after the rejected %r a valid partial update raises %s: %s" % (inp, type(e).__name__, e))
                    break
                if [float(v) for v in mdl._paramValue] != [1.0, 2.0]:
                    bad.append("after the rejected %r and the update {%s: 2.0} the values in use are %s" % (inp, names[1], [float(v) for v in mdl._paramValue]))
                    break
    except Exception as e:
        bad.append("raises %s: %s" % (type(e).__name__, e))
    return {'reproduced': bool(bad), 'observed': bad[:3], 'input': "m.parameters = [1.0, 2.0]; then [('gamma', 0.25), ('t', 7.0)] / {'t': 7.0} / {'beta': 9.0, 't': 7.0}, each followed by {'gamma': 2.0}"}


def make_reject_pair(time_key):
    @contract('C09/parameters/reject-unknown-pair-name' + ('/time-symbol-name' if time_key else ''), ['C09'], SETTER, replay=_replay_time_key if time_key else None)
    def reject_pair(vc):
        nP, obj = model(vc)
        D0, PV0 = _prior(vc, obj, nP)
        pn, pv_ = vc.fn('pair_name', I, I), vc.fn('pair_value', I, R)
        bad = vc.int('bad', ge=0)
        a, b = z3.Int('pp_a'), z3.Int('pp_b')
        if not time_key:
            vc.require('some pair names something that is not in the parameter dictionary', z3.And(bad < nP, z3.Not(indict(pn(bad)))))
        else:
            vc.require("every name is a key of the parameter dictionary, one of them is 't' (the time symbol, not a parameter); names are distinct",
                       z3.And(bad < nP, pn(bad) == TKEY, z3.ForAll([a], z3.Implies(z3.And(a >= 0, a < nP), indict(pn(a)))),
                              z3.ForAll([a, b], z3.Implies(z3.And(a >= 0, a < nP, b >= 0, b < nP, a != b), pn(a) != pn(b)))))
        params = SList(nP, lambda k: (SName(pn(k)), pv_(k)))
        pq, pm = vc.fn('pair_index', I, I), vc.fn('pair_mentions', I, B)
        n_ = z3.Int('pp_n')
        if time_key:        # inverse of the pairing (well defined because the names are distinct)
            vc.assume(z3.ForAll([a], z3.Implies(z3.And(a >= 0, a < nP), z3.And(pm(pn(a)), pq(pn(a)) == a)), patterns=[pn(a)]))
            vc.assume(z3.ForAll([n_], z3.Implies(pm(n_), z3.And(pq(n_) >= 0, pq(n_) < nP, pn(pq(n_)) == n_)), patterns=[pq(n_)]))

        def inv0(view, i):
            p = z3.Int('r0_p')
            d = view['param_out']
            n, kd = z3.Int('r0_n'), z3.Int('r0_k')
            out = [('all pairs processed so far named keys of the parameter dictionary', z3.ForAll([p], z3.Implies(z3.And(p >= 0, p < i), indict(pn(p)))))]
            if time_key:
                out.append(("the holder has one Symbol key per processed pair ('t' included), in order",
                            z3.And(d.L == i, z3.ForAll([n, kd], d.dom(n, kd) == z3.And(kd == 1, pm(n), pq(n) < i)),
                                   z3.ForAll([n], z3.Implies(z3.And(pm(n), pq(n) < i), d.pos(n, 1) == pq(n))))))
            return out
        vc.loop(F, 0, inv0, modifies=('param_out',))
        final_loop(vc, obj, nP, reject=True)
        out = vc.call(vc.func(), obj, params)
        vc.ensure('rejected with an error', not out.returned)
        _unchanged(vc, obj, PV0)
        vc.canary('canary: reachable', z3.BoolVal(False))
    reject_pair.__doc__ = ("a pair list that uses 't' (the time symbol, which sits in the parameter dictionary) as a name is rejected; nothing is bound and nothing is lost"
                           if time_key else "a pair list containing a name that is not a declared parameter is rejected; nothing is bound")
    return reject_pair


make_reject_pair(False)
make_reject_pair(True)


def _replay_rejected_dict(clause, m):
    """a rejected dict that also carries a valid name, then a partial update that does not mention that name, on the real setter"""
    from standins import c09 as sc
    ops = [{'kind': 'pairs', 'vals': [6.0, 7.0], 'subset': [0, 1], 'perm': [1, 0]},
           {'kind': 'bad-key', 'vals': [2.5, 2.5], 'subset': [0], 'perm': [0, 1]},
           {'kind': 'dict-name', 'vals': [3.25, 3.25], 'subset': [1], 'perm': [0, 1]}]
    try:
        bad = sc.run_history(2, ops)
    except Exception as e:
        bad = ["raises %s: %s" % (type(e).__name__, e)]
    return {'reproduced': bool(bad), 'observed': bad[:3],
            'input': "m.parameters = [('gamma', 7.0), ('beta', 6.0)]; m.parameters = {'beta': 2.5, 'zeta': 1.0} (rejected); m.parameters = {'gamma': 3.25}"}


def make_reject_key(time_key):
    @contract('C09/parameters/reject-unknown-dict-key' + ('/time-symbol-name' if time_key else ''), ['C09'], SETTER,
              replay=_replay_time_key if time_key else _replay_rejected_dict, max_paths=600)
    def reject_key(vc):
        nP, obj = model(vc)
        D0, PV0 = _prior(vc, obj, nP)
        m = vc.int('m', ge=1)
        vc.require('no more keys than parameters', m <= nP)
        IN, inn, ink, inv_, inq, inm = input_dict(vc, m, None)
        bad = vc.int('bad', ge=0)
        q = z3.Int('rk_q')
        if not time_key:
            vc.require('some key is not in the parameter dictionary', z3.And(bad < m, z3.Not(indict(inn(bad)))))
        else:
            vc.require("every key is in the parameter dictionary, one of them is 't' (as a str or as the time Symbol)",
                       z3.And(bad < m, inn(bad) == TKEY, z3.ForAll([q], z3.Implies(z3.And(q >= 0, q < m), indict(inn(q))))))

        def inv2(view, k):
            p = z3.Int('r2_p')
            d = view['param_out']
            out = [('all keys processed so far were keys of the parameter dictionary', z3.ForAll([p], z3.Implies(z3.And(p >= 0, p < k), indict(inn(p)))))]
            if time_key:
                out.append(("the holder has a Symbol key for every processed key ('t' included) and is a proper dict",
                            z3.ForAll([p], z3.Implies(z3.And(p >= 0, p < k), z3.And(d.dom(inn(p), 1), d.pos(inn(p), 1) >= 0, d.pos(inn(p), 1) < d.L)))))
            return out
        vc.loop(F, 2, inv2, modifies=('param_out',))
        final_loop(vc, obj, nP, reject=True)
        out = vc.call(vc.func(), obj, IN)
        vc.ensure('rejected with an error', not out.returned)
        _unchanged(vc, obj, PV0)
        vc.canary('canary: reachable', z3.BoolVal(False))
    reject_key.__doc__ = ("a dict that uses 't' (the time symbol, which sits in the parameter dictionary) as a key is rejected; the values in use and the stored holder are untouched"
                          if time_key else "a dict with a key that is not a declared parameter (by name or by symbol) is rejected; the values in use and the stored holder are untouched")
    return reject_key


make_reject_key(False)
make_reject_key(True)


@contract('C09/parameters/reject-too-many-keys', ['C09'], SETTER)
def reject_many(vc):
    """a dict with more keys than parameters is rejected"""
    nP, obj = model(vc)
    D0, PV0 = _prior(vc, obj, nP)
    m = vc.int('m', ge=1)
    vc.require('more keys than parameters', m > nP)
    IN, inn, ink, inv_, inq, inm = input_dict(vc, m, None)
    out = vc.call(vc.func(), obj, IN)
    vc.ensure('rejected with an error', not out.returned)
    _unchanged(vc, obj, PV0)
    vc.canary('canary: reachable', z3.BoolVal(False))


# ---------------------------------------------------------------------------------------------
# C16: the random forms of the dict input draw from numpy's global generator only

class Frozen(Model):
    """a scipy.stats frozen distribution: rvs(n) draws n values from numpy's global generator (random_state=None)"""
    tags = frozenset({'rv_frozen'})

    def __init__(self, ident):
        self.ident = ident

    def py_getattr(self, it, name):
        if name == 'rvs':
            def rvs(it_, a, k):
                if k.get('random_state') is not None:
                    raise Unsupported("rvs with random_state")
                it_.lib.namespace('numpy').attrs['random'].py_getattr(it_, 'exponential')   # creates the global stream
                it_.ctx.note_trusted("scipy.stats frozen distribution .rvs(size) with random_state=None draws from numpy's global generator")
                return it_.global_rng.draw(it_, 'frozen', [self.ident], a[0] if a else k.get('size'))
            return Builtin('rv_frozen.rvs', rvs)
        raise Unsupported("frozen distribution attribute %s" % name)


def _replay_random_then_bad(clause, m):
    """a dict that gives one parameter a distribution and misspells another: rejected, and the model must go on drawing from the
    earlier definition"""
    import numpy as np
    import scipy.stats as st
    from contracts import native
    from standins import c09 as sc
    bad = []
    try:
        mdl, names = sc._model(2)
        with native.quiet():
            mdl.parameters = {names[0]: st.gamma(a=2.0, scale=0.2), names[1]: 1.0}
            before = mdl._stochasticParam
            try:
                mdl.parameters = {names[0]: st.gamma(a=3.0, scale=0.2), 'zeta': 0.3}
                bad.append("the misspelt dict was accepted")
            except Exception:
                pass
            if mdl._stochasticParam is not before:
                bad.append("after the rejected input the model draws from the REJECTED definition (keys %s)" % list(mdl._stochasticParam))
            try:
                mdl.parameters = mdl._stochasticParam         # what solve_determ / simulate_param do before every run
            except Exception as e:
                bad.append("re-drawing the parameters now raises %s: %s" % (type(e).__name__, e))
    except Exception as e:
        bad.append("raises %s: %s" % (type(e).__name__, e))
    return {'reproduced': bool(bad), 'observed': bad[:3], 'input': "m.parameters = {'beta': gamma(2, scale=.2), 'gamma': 1.0}; m.parameters = {'beta': gamma(3, scale=.2), 'zeta': 0.3} (rejected); re-draw"}


@contract('C09/parameters/reject-unknown-dict-key/after-a-random-value', ['C09', 'C16'], SETTER, replay=_replay_random_then_bad)
def reject_after_random(vc):
    """a dict whose first value is a distribution and whose second key is not a parameter: rejected; the values in use, the stored
    holder AND the remembered random definition are what they were (the next run re-assigns that definition)"""
    nP, obj = model(vc)
    D0, PV0 = _prior(vc, obj, nP)
    nm, badn = vc.int('key_name'), vc.int('bad_name')
    vc.require('the first key names a declared parameter, the second is not in the parameter dictionary', z3.And(pdeclared(nm), z3.Not(indict(badn))))
    prior_def = obj.fields.get('_stochasticParam')
    final_loop(vc, obj, nP, reject=True)
    inp = {SName(nm): Frozen(vc.real('dist')), SName(badn): vc.real('value')}
    out = vc.call(vc.func(), obj, inp)
    vc.ensure('rejected with an error', not out.returned)
    _unchanged(vc, obj, PV0)
    vc.ensure('rejected: the remembered random definition is the earlier one, not the rejected input', obj.fields.get('_stochasticParam') is prior_def)
    vc.canary('canary: reachable', z3.BoolVal(False))


def make_random_form(form):
    @contract('C16/parameters/random/%s' % form, ['C16', 'C09'], SETTER, also=['pygom.utilR.distn:rgamma'] if form != 'frozen' else [])
    def random_form(vc):
        nP, obj = model(vc)
        nm = vc.int('key_name')
        vc.require('the key names a declared parameter', pdeclared(nm))
        D0 = SDict(vc.it, 'stored')
        PV0 = SMutList(nP, z3.Array('paramValue0', I, R))
        obj.fields['_parameters'] = D0
        obj.fields['_paramValue'] = PV0
        vc.require('prior state satisfies the class invariant', z3.And(CI(D0, nP), REL(D0, PV0, nP)))
        final_loop(vc, obj, nP)
        if form == 'frozen':
            value = Frozen(vc.real('dist'))
        else:
            shape, rate = vc.real('shape'), vc.real('rate')
            vc.require('valid gamma parameters', z3.And(shape > 0, rate > 0))
            rg = vc.func('pygom.utilR.distn:rgamma')
            value = (rg, {'shape': shape, 'rate': rate}) if form == 'sampler-dict' else (rg, (shape, rate))
        inp = {SName(nm): value}
        e0 = vc.it.rng_epoch
        out = vc.call(vc.func(), obj, inp)
        vc.ensure('accepted', out.returned)
        if not out.returned:
            return
        d, pv = post_common(vc, obj, nP)
        vc.ensure('exactly one draw, from the global generator', vc.it.rng_epoch == e0 + 1 and all(e[0] == 'global' for e in vc.it.rng_log) and len(vc.it.rng_log) == 1)
        vc.ensure('the model remembers the random definition for later re-draws', obj.fields.get('_stochasticParam') is inp)
        j = z3.Int('q_j')
        vc.ensure('only the named parameter changes',
                  z3.ForAll([j], z3.Implies(z3.And(j >= 0, j < nP, j != pix(nm)), z3.Select(pv.arr, j) == z3.Select(PV0.arr, j))))
        from pyvc.lib import uf
        if form == 'frozen':
            f = uf('Draw_frozen', I, I, I, R, R)
            want = f(z3.Int('GlobalStream'), to_num(e0), z3.IntVal(0), value.ident)
        else:
            f = uf('Draw_gamma', I, I, I, R, R, R)
            want = f(z3.Int('GlobalStream'), to_num(e0), z3.IntVal(0), shape, 1 / rate)
        vc.ensure('the named parameter is bound to that draw (first element of a size-1 sample)', z3.Select(pv.arr, pix(nm)) == want)
        vc.canary('canary: reachable', z3.BoolVal(False))
    random_form.__doc__ = "dict value given as %s: one draw from numpy's global generator is bound to the named parameter" % form
    return random_form


for _form in ('frozen', 'sampler-dict', 'sampler-tuple'):
    make_random_form(_form)
