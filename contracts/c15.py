"""C15 -- gridded stochastic output agrees with the underlying path.

  _extractObservationAtTime(X, T, g)[k] = X[j] with j the LAST recorded time <= g[k]     (T strictly increasing, g[k] >= T[0])
  _addJumpsBetweenTime(N, T, g, exact)[k, i] = sum of N[j, i] over the events j whose time T[j+1] falls in interval k
  solve_stochast(grid, n, ...): run r's gridded states and counts are computed from run r's raw states, counts and times,
  against the requested grid, for list / tuple / array grids; the horizon handed to _jump is the last grid time.
With the C04 path invariant (row j+1 - row j = V.N[j]) the telescoped identity  Xg[k+1] - Xg[k] = V.counts[k]  follows for
constant V (bounded stand-in checks it natively)."""
import z3
from pyvc.driver import contract
from pyvc.lib import SList, SArr, SMutList, SRowList
from pyvc.values import Model, ObjVal, Builtin, TypeTag, Unsupported, PyRaise, ExcVal, to_num, to_real

SIM = 'pygom.model.simulate:'
I, R, B = z3.IntSort(), z3.RealSort(), z3.BoolSort()


def replay_grid(clause, m):
    from standins import c15
    r = c15.run('quick', 7)
    if r['failures']:
        f = r['failures'][0]
        return {'reproduced': True, 'input': f['case'], 'observed': f['observed'], 'found_by': 'bounded stand-in (seeded gridded runs against their own raw paths)'}
    return {'reproduced': False, 'searched': r['bound']}


@contract('C15/_extractObservationAtTime', ['C15', 'C11', 'C05'], SIM + 'SimulateOde._extractObservationAtTime', replay=replay_grid)
def extract(vc):
    """row k of the gridded states is the state of the path at the last recorded time not after g[k]; row 0 is the initial state when g[0] is the initial time"""
    L, G, nS = vc.int('L', ge=1), vc.int('G', ge=0), vc.int('nS', ge=1)
    X = vc.array('X', (L, nS))
    T = vc.array('T', (L,))
    g = vc.array('g', (G,))
    a, b = z3.Int('pa'), z3.Int('pb')
    vc.require('recorded times strictly increase (C04 path invariant)', z3.ForAll([a, b], z3.Implies(z3.And(a >= 0, a < b, b < L), T.get((a,)) < T.get((b,)))))
    vc.require('the grid does not start before the initial time', z3.ForAll([a], z3.Implies(z3.And(a >= 0, a < G), g.get((a,)) >= T.get((z3.IntVal(0),)))))
    kind = vc.it.ctx.choose(2, 'grid-kind')
    grid = [g, SList(G, lambda k: g.get((k,)))][kind]

    def is_last(j, v):
        return z3.And(j >= 0, j < L, T.get((j,)) <= v, z3.Or(j + 1 >= L, T.get((j + 1,)) > v))

    def before(it, view):
        view.set('X_out', SRowList(0, nS, lambda m, s: z3.RealVal(0)))

    def inv(view, k):
        out = view['X_out']
        m, j, s = z3.Int('e_m'), z3.Int('e_j'), z3.Int('e_s')
        return [('rows so far are the states at the last recorded time not after their grid time',
                 z3.And(to_num(out.length) == k,
                        z3.ForAll([m], z3.Implies(z3.And(m >= 0, m < k),
                                                  z3.Exists([j], z3.And(is_last(j, g.get((m,))),
                                                                        z3.ForAll([s], z3.Implies(z3.And(s >= 0, s < nS), out.get(m, s) == X.get((j, s)))))))))) ]
    vc.loop(SIM + 'SimulateOde._extractObservationAtTime', 0, inv, before=before, modifies=('X_out',))
    cls = vc.cls(SIM + 'SimulateOde')
    out = vc.call(vc.func(), ObjVal(cls, {}), X, T, grid)
    vc.ensure('returns normally', out.returned)
    if not out.returned:
        return
    Y = out.value
    vc.ensure('one row per requested time, one column per state', isinstance(Y, SArr) and Y.rank == 2 and z3.And(to_num(Y.shape[0]) == G, to_num(Y.shape[1]) == nS))
    k, j, s = z3.Int('q_k'), z3.Int('q_j'), z3.Int('q_s')
    vc.ensure('row k is the state of the path at the last recorded time <= g[k]',
              z3.ForAll([k], z3.Implies(z3.And(k >= 0, k < G),
                                        z3.Exists([j], z3.And(is_last(j, g.get((k,))),
                                                              z3.ForAll([s], z3.Implies(z3.And(s >= 0, s < nS), Y.get((k, s)) == X.get((j, s)))))))))
    vc.ensure('when the grid starts at the initial time the first row is the initial state',
              z3.Implies(z3.And(G >= 1, g.get((z3.IntVal(0),)) == T.get((z3.IntVal(0),))),
                         z3.ForAll([s], z3.Implies(z3.And(s >= 0, s < nS), Y.get((z3.IntVal(0), s)) == X.get((z3.IntVal(0), s))))))
    vc.canary('canary: reachable', z3.BoolVal(False))


def make_counts(exact):
    @contract('C15/_addJumpsBetweenTime/exact=%s' % exact, ['C15'], SIM + 'SimulateOde._addJumpsBetweenTime', replay=replay_grid)
    def counts(vc):
        L, G, nE = vc.int('L', ge=1), vc.int('G', ge=2), vc.int('nE', ge=1)
        N = vc.array('N', (L - 1, nE))
        T = vc.array('T', (L,))
        g = vc.array('g', (G,))
        kind = vc.it.ctx.choose(2, 'grid-kind')
        grid = [g, SList(G, lambda k: g.get((k,)))][kind]
        F = SIM + 'SimulateOde._addJumpsBetweenTime'

        def in_bin(tv, b):
            return z3.And(tv >= g.get((b,)), z3.If(b == G - 2, tv <= g.get((b + 1,)), tv < g.get((b + 1,))))
        CS = vc.fn('ColSum', I, I, I, R)       # CS(i, b, j) = sum_{j' < j} N[j', i] * [T[j'+1] in bin b]
        i_, b_, j_ = z3.Int('cs_i'), z3.Int('cs_b'), z3.Int('cs_j')
        vc.assume(z3.ForAll([i_, b_], CS(i_, b_, 0) == 0))
        vc.assume(z3.ForAll([i_, b_, j_], z3.Implies(j_ >= 0, CS(i_, b_, j_ + 1) == CS(i_, b_, j_) + z3.If(in_bin(T.get((j_ + 1,)), b_), N.get((j_, i_)), 0.0))))

        def inv(view, i):
            out = view['X_out']
            c, b = z3.Int('c_c'), z3.Int('c_b')
            return [('columns filled so far hold the per-transition counts of every interval; the others are still zero',
                     z3.And(to_num(out.shape[0]) == G - 1, to_num(out.shape[1]) == nE,
                            z3.ForAll([c, b], z3.Implies(z3.And(c >= 0, c < nE, b >= 0, b < G - 1),
                                                         out.get((b, c)) == z3.If(c < i, CS(c, b, L - 1), 0.0)))))]
        vc.loop(F, 0, inv, modifies=('X_out',), ghost=lambda it, view, i: st.__setitem__('col', i))

        def hist(it, a, k):
            """assumed contract of np.histogram (half-open bins, last bin closed, optional weights), with the arguments checked
            against what the property needs: the sample is the event times T[1:], the bins are the grid, the weights are one
            column of the per-step counts"""
            it.ctx.note_trusted("np.histogram(x, bins=edges, weights=w): hist[b] = sum of w[j] over the x[j] in [e_b, e_b+1) (last bin closed on the right)")
            x = a[0]
            edges = k.get('bins', a[1] if len(a) > 1 else None)
            w = k.get('weights')
            j = z3.Int(it.ctx._name('hj'))
            ok = isinstance(x, SArr) and x.rank == 1
            it.ctx.oblige('pre(histogram): the sample is the event times T[1:] (the initial time is not an event)',
                          ok and z3.And(to_num(x.shape[0]) == L - 1, z3.ForAll([j], z3.Implies(z3.And(j >= 0, j < L - 1), x.get((j,)) == T.get((j + 1,))))))
            e = edges if isinstance(edges, SArr) else (None if edges is None else __import__('pyvc.lib', fromlist=['as_array']).as_array(it, edges))
            it.ctx.oblige('pre(histogram): the bin edges are the requested grid',
                          e is not None and e.rank == 1 and z3.And(to_num(e.shape[0]) == G, z3.ForAll([j], z3.Implies(z3.And(j >= 0, j < G), e.get((j,)) == g.get((j,))))))
            col = it.ctx.fresh_int('hist_col')
            it.ctx.oblige('pre(histogram): weighted by the counts of ONE transition (a column of the per-step counts)',
                          w is not None and isinstance(w, SArr) and w.rank == 1 and
                          z3.Exists([col], z3.And(col >= 0, col < nE, to_num(w.shape[0]) == L - 1,
                                                  z3.ForAll([j], z3.Implies(z3.And(j >= 0, j < L - 1), w.get((j,)) == N.get((j, col)))))))
            if w is None or not isinstance(w, SArr):
                raise Unsupported("histogram without weights")
            # identify the column: the loop variable of the caller
            ci = st['col']
            it.ctx.oblige('pre(histogram): the weights are the column being filled', z3.ForAll([j], z3.Implies(z3.And(j >= 0, j < L - 1), w.get((j,)) == N.get((j, ci)))))
            return (SArr((G - 1,), lambda o: CS(ci, o[0], L - 1)), e)
        st = {}
        vc.it.lib.namespace('numpy').attrs['histogram'] = Builtin('np.histogram', hist)
        cls = vc.cls(SIM + 'SimulateOde')
        out = vc.call(vc.func(F), ObjVal(cls, {}), N, T, grid, exact)
        vc.ensure('returns normally', out.returned)
        if not out.returned:
            return
        C = out.value
        vc.ensure('one row per interval, one column per transition', isinstance(C, SArr) and z3.And(to_num(C.shape[0]) == G - 1, to_num(C.shape[1]) == nE))
        c, b = z3.Int('q_c'), z3.Int('q_b')
        vc.ensure('counts[b, i] = number of firings of transition i whose event time lies in interval b (event j happens at T[j+1])',
                  z3.ForAll([c, b], z3.Implies(z3.And(c >= 0, c < nE, b >= 0, b < G - 1), C.get((b, c)) == CS(c, b, L - 1))))
        vc.canary('canary: reachable', z3.BoolVal(False))
    counts.__doc__ = "_addJumpsBetweenTime (exact=%s): per-interval, per-transition counts of the event times T[1:]" % exact
    return counts


make_counts(True)
make_counts(False)


# ---------------------------------------------------------------------------------------------
# solve_stochast with a grid: pairing of runs through the pop / append rotation

class Rot(Model):
    """a python list used as a queue: the original elements orig[a:] followed by the elements appended so far.
    Elements are arrays identified by (kind, run) tags; contents live in uninterpreted functions of the tag."""
    tags = frozenset({'list'})

    def __init__(self, n, orig_elem, what):
        self.n, self.orig_elem, self.what = n, orig_elem, what
        self.a, self.b = z3.IntVal(0), z3.IntVal(0)
        self.PT = z3.K(I, z3.IntVal(-1))      # run tag of the p-th appended element
        self.PK = z3.K(I, z3.IntVal(-1))      # its kind

    def py_len(self, it):
        return z3.simplify(self.n - self.a + self.b)

    def py_getattr(self, it, name):
        if name == 'pop':
            def pop(it_, a, k):
                if not (a and a[0] == 0):
                    raise Unsupported("pop other than pop(0)")
                it_.ctx.oblige("queue(%s): an unprocessed run is still at the front" % self.what, self.a < self.n)
                e = self.orig_elem(self.a)
                self.a = z3.simplify(self.a + 1)
                return e
            return Builtin('list.pop', pop)
        if name == 'append':
            def app(it_, a, k):
                x = a[0]
                if not hasattr(x, 'tag'):
                    raise Unsupported("append of an untagged element")
                self.PT = z3.Store(self.PT, self.b, x.tag[1])
                self.PK = z3.Store(self.PK, self.b, z3.IntVal(x.tag[0]))
                self.b = z3.simplify(self.b + 1)
            return Builtin('list.append', app)
        raise Unsupported("list method %s" % name)

    def havoc_inplace(self, it, hint):
        self.a, self.b = it.ctx.fresh_int(hint + '_a'), it.ctx.fresh_int(hint + '_b')
        self.PT = z3.Array(it.ctx._name(hint + '_pt'), I, I)
        self.PK = z3.Array(it.ctx._name(hint + '_pk'), I, I)


KIND = {'rawX': 0, 'rawJ': 1, 'rawT': 2, 'gridX': 3, 'gridJ': 4, 'interpX': 5}


def tagged(shape, kind, run):
    f = z3.Function('Run_%s' % kind, I, I, I, R)
    arr = SArr(shape, (lambda o: f(run, o[0], o[1] if len(o) > 1 else 0)))
    arr.tag = (KIND[kind], run)
    return arr


def make_grid(exact, grid_kind):
    @contract('C15/solve_stochast/grid/exact=%s/%s' % (exact, grid_kind), ['C15', 'C16'] + (['C05'] if exact else []), SIM + 'SimulateOde.solve_stochast', replay=replay_grid)
    def grid_runs(vc):
        nS, nE, n, G = vc.int('nS', ge=1), vc.int('nE', ge=1), vc.int('iteration', ge=0), vc.int('G', ge=2)
        x0 = vc.array('x0', (nS,))
        s = z3.Int('s_int')
        vc.require('integer initial state', z3.ForAll([s], z3.Implies(z3.And(s >= 0, s < nS), z3.IsInt(x0.get((s,))))))
        g = vc.array('g', (G,))
        grid = {'array': g, 'list': SList(G, lambda k: g.get((k,))), 'tuple': SList(G, lambda k: g.get((k,)), tags={'tuple'})}[grid_kind]
        RunL = z3.Function('RunLen', I, I)
        st = {'queues': {}}

        def jump_summary(it, args, kw):
            finalT = args[1]
            if it.lazy_index is None:
                raise Unsupported("_jump called outside the run comprehension")
            epoch, r = it.lazy_index
            ft = finalT.get((z3.IntVal(0),)) if isinstance(finalT, SArr) and finalT.rank == 1 else to_real(finalT)
            it.ctx.oblige('pre(_jump): the horizon is the last requested time', ft == g.get((G - 1,)))
            it.ctx.oblige('pre(_jump): the requested algorithm', kw.get('exact', False) is exact)
            it.ctx.oblige('pre(_jump): serial path passes no seed', kw.get('seed', None) is None)
            Lr = RunL(r)
            return (tagged((Lr, nS), 'rawX', r), tagged((Lr - 1, nE), 'rawJ', r), tagged((Lr,), 'rawT', r), tagged((Lr - 1,), 'rawT', r))
        vc.summary(SIM + 'SimulateOde._jump', jump_summary)

        def same_grid(it, t):
            ta = t if isinstance(t, SArr) else None
            ok = ta is not None and ta.rank == 1
            it.ctx.oblige('pre(gridding): the requested times are passed on as an array', ok)
            if ok:
                q = z3.Int(it.ctx._name('gq'))
                it.ctx.oblige('pre(gridding): the times are the requested grid', z3.And(to_num(ta.shape[0]) == G, z3.ForAll([q], z3.Implies(z3.And(q >= 0, q < G), ta.get((q,)) == g.get((q,))))))

        def extract_summary(it, args, kw, kind='gridX'):
            _self, X, T, t = args
            it.ctx.oblige('pre(gridding states): raw states', getattr(X, 'tag', (None,))[0] == KIND['rawX'])
            it.ctx.oblige('pre(gridding states): raw times', getattr(T, 'tag', (None,))[0] == KIND['rawT'])
            it.ctx.oblige('pre(gridding states): states and times of the same run', X.tag[1] == T.tag[1])
            same_grid(it, t)
            return tagged((G, nS), kind, X.tag[1])

        def counts_summary(it, args, kw):
            _self, J, T, t, ex = args
            it.ctx.oblige('pre(gridding counts): raw counts', getattr(J, 'tag', (None,))[0] == KIND['rawJ'])
            it.ctx.oblige('pre(gridding counts): raw times', getattr(T, 'tag', (None,))[0] == KIND['rawT'])
            it.ctx.oblige('pre(gridding counts): counts and times of the same run', J.tag[1] == T.tag[1])
            it.ctx.oblige('pre(gridding counts): the algorithm flag is passed on', ex is exact)
            same_grid(it, t)
            return tagged((G - 1, nE), 'gridJ', J.tag[1])
        vc.summary(SIM + 'SimulateOde._extractObservationAtTime', extract_summary)
        vc.summary(SIM + 'SimulateOde._interpolateObservationAtTime', lambda it, a, k: extract_summary(it, a, k, 'interpX'))
        vc.summary(SIM + 'SimulateOde._addJumpsBetweenTime', counts_summary)

        # `list(column)` of the transposed run results becomes a queue
        orig_list = vc.it.builtins_env.vars['list']

        def list_ctor(it, a, k):
            v = a[0] if a else None
            if isinstance(v, SList) and not isinstance(v.length, int):
                probe = v.element(z3.Int(it.ctx._name('lp')))
                if hasattr(probe, 'tag'):
                    q = Rot(v.length, v.element, probe.tag[0])
                    st['queues'][probe.tag[0]] = q
                    return q
            return orig_list.py_call(it, a, k)
        vc.it.builtins_env.vars['list'] = TypeTag('list', ctor=list_ctor)
        F = SIM + 'SimulateOde.solve_stochast'

        def inv(view, k):
            qs = [view['simXList'], view['simJumpList'], view['simTList']]
            r = z3.Int('rot_r')
            out = [('rotation: k runs popped from each list', z3.And(*[q.a == k for q in qs]))]
            out.append(('rotation: k processed runs appended to states and counts, the times are only popped',
                        z3.And(qs[0].b == k, qs[1].b == k, qs[2].b == 0)))
            out.append(('rotation: the r-th appended element is the gridded output of run r',
                        z3.ForAll([r], z3.Implies(z3.And(r >= 0, r < k),
                                                  z3.And(z3.Select(qs[0].PT, r) == r, z3.Select(qs[0].PK, r) == KIND['gridX' if exact else 'interpX'],
                                                         z3.Select(qs[1].PT, r) == r, z3.Select(qs[1].PK, r) == KIND['gridJ'])))))
            return out
        vc.loop(F, 0, inv, modifies=('simXList', 'simJumpList', 'simTList'))
        cls = vc.cls(SIM + 'SimulateOde')
        self = ObjVal(cls, {'_x0': x0, '_t0': vc.real('t0')})
        out = vc.call(vc.func(F), self, grid, n, parallel=False, exact=exact, full_output=True)
        vc.ensure('returns normally', out.returned)
        if not out.returned:
            return
        vc.ensure('returns (states, counts, times)', isinstance(out.value, tuple) and len(out.value) == 3)
        Xs, Js, Ts = out.value
        ok = isinstance(Xs, Rot) and isinstance(Js, Rot)
        vc.ensure('the state and count lists are the rotated lists', ok)
        if not ok:
            return
        r = z3.Int('q_r')
        vc.ensure('every raw run was consumed and one gridded run appended per run', z3.And(Xs.a == n, Xs.b == n, Js.a == n, Js.b == n))
        vc.ensure('element r of the returned states / counts is the gridded output of run r (states extracted from the path in exact mode, interpolated in tau-leap mode; counts with counts)',
                  z3.ForAll([r], z3.Implies(z3.And(r >= 0, r < n),
                                            z3.And(z3.Select(Xs.PT, r) == r, z3.Select(Xs.PK, r) == KIND['gridX' if exact else 'interpX'],
                                                   z3.Select(Js.PT, r) == r, z3.Select(Js.PK, r) == KIND['gridJ']))))
        ta = Ts if isinstance(Ts, SArr) else None
        q = z3.Int('q_t')
        vc.ensure('the times returned are the requested grid, as an array',
                  ta is not None and z3.And(to_num(ta.shape[0]) == G, z3.ForAll([q], z3.Implies(z3.And(q >= 0, q < G), ta.get((q,)) == g.get((q,))))))
        vc.canary('canary: reachable', z3.BoolVal(False))
    grid_runs.__doc__ = "solve_stochast(%s grid, exact=%s): run r's gridded states and counts come from run r's raw path and the requested grid" % (grid_kind, exact)
    return grid_runs


for _e in (True, False):
    for _g in ('array', 'list', 'tuple'):
        make_grid(_e, _g)


def replay_no_events(clause, m):
    """a model in which no event can fire from the initial state, gridded output requested"""
    import numpy as np
    from contracts import native
    pm = native.imp('pygom.model')
    ou = native.imp('pygom.model.ode_utils')
    bad = []
    try:
        with native.quiet():
            sir = pm.SimulateOde(['S', 'I', 'R'], ['beta', 'gamma'],
                                 event=[pm.Event(rate='beta*S*I', transition_list=[pm.Transition(origin='S', destination='I', transition_type='T')]),
                                        pm.Event(rate='gamma*I', transition_list=[pm.Transition(origin='I', destination='R', transition_type='T')])])
            sir._SC = ou.compileCode(backend='lambda')
            sir.parameters = [0.5, 0.3]
            sir.initial_values = (np.array([10.0, 0.0, 0.0]), np.float64(0.0))
            for exact in (True, False):
                X, J, T = sir.solve_stochast(np.array([0.0, 1.0, 2.0]), 2, exact=exact, full_output=True)
                for r in range(2):
                    if np.shape(X[r]) != (3, 3) or not np.array_equal(np.asarray(X[r], float), np.tile([10.0, 0.0, 0.0], (3, 1))):
                        bad.append("exact=%s run %d: gridded states %s" % (exact, r, np.asarray(X[r]).tolist()))
                    if np.shape(J[r]) != (2, 2) or np.any(np.asarray(J[r]) != 0):
                        bad.append("exact=%s run %d: gridded counts %s" % (exact, r, np.asarray(J[r]).tolist()))
    except Exception as e:
        bad.append("raises %s: %s" % (type(e).__name__, e))
    return {'reproduced': bool(bad), 'observed': bad[:3], 'input': "SIR started with I=0 (no event can fire), solve_stochast([0,1,2], 2, exact=True/False, full_output=True)"}


@contract('C15/_addJumpsBetweenTime/path-without-events', ['C15'], SIM + 'SimulateOde._addJumpsBetweenTime', replay=replay_no_events)
def counts_no_events(vc):
    """a run that recorded no event (nothing can fire from the initial state, or the first proposal was illegal): _jump returns
    np.array([]) for the counts (an empty rank-1 array); the gridded counts are all zero, one row per interval, one column per transition"""
    G, nE = vc.int('G', ge=2), vc.int('nE', ge=1)
    g = vc.array('g', (G,))
    T = vc.array('T', (1,))
    N = SArr((0,), lambda o: z3.RealVal(0))
    cls = vc.cls(SIM + 'SimulateOde')
    self = ObjVal(cls, {'_eventList': SList(nE, lambda k: None)})
    F = SIM + 'SimulateOde._addJumpsBetweenTime'

    def inv(view, i):
        out = view['X_out']
        c, b = z3.Int('c_c'), z3.Int('c_b')
        return [('all counts are zero', z3.And(to_num(out.shape[0]) == G - 1, to_num(out.shape[1]) == nE,
                                               z3.ForAll([c, b], z3.Implies(z3.And(c >= 0, c < nE, b >= 0, b < G - 1), out.get((b, c)) == 0))))]
    vc.loop(F, 0, inv, modifies=('X_out',))
    out = vc.call(vc.func(F), self, N, T, g, True)
    vc.ensure('returns normally', out.returned)
    if not out.returned:
        return
    C = out.value
    c, b = z3.Int('q_c'), z3.Int('q_b')
    vc.ensure('one row per interval, one column per transition, all zero',
              isinstance(C, SArr) and C.rank == 2 and z3.And(to_num(C.shape[0]) == G - 1, to_num(C.shape[1]) == nE,
                                                             z3.ForAll([c, b], z3.Implies(z3.And(c >= 0, c < nE, b >= 0, b < G - 1), C.get((b, c)) == 0))))
    vc.canary('canary: reachable', z3.BoolVal(False))
