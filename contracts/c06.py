"""C06 -- cost is the stated loss of the model trajectory against the data: alignment of rows, columns, weights and theta.

  _getSolution(theta): binds theta, hands the model its parameter holder, integrates ode_T / jacobian_T from (x0, t0) at the
      OBSERVATION times (no origin row, the model's integrator) and returns the columns of the observed states in the order NAMED:
      result[i, j] = solution[i, ix(state_name[j])]   (row i <-> time i, by the C02 contract of integrateFuncJac)
  cost / residual / costIV: the kernel object (C14) is applied to exactly that matrix (costIV binds the trailing initial values first)
  _setWeight_or_spread(n, p, x): element (i, j) of the result is the weight / spread value intended for observation i of state j,
      for the full (n, p) form, the per-state form (p,), the per-observation form (n,) with one state, and a single value
  _setParam / _unrollParam / _unrollState / _setParamStateInput: theta[i] goes to target_param[i] (order SUPPLIED), the trailing
      entries to the initial values (all states or target_state[i], order SUPPLIED)
  the five ode_loss classes hand (y, weights, spread) to the kernel constructor of their own name, in that order"""
import z3
from pyvc.driver import contract
from pyvc.lib import SList, SArr, SMutList
from pyvc.lib_dict import SDict
from pyvc.values import Model, ObjVal, Builtin, SName, Unsupported, PyRaise, ExcVal, to_num, to_real
from contracts.c07 import wiring_object, allof

LOSS = 'pygom.loss.base_loss:BaseLoss.'
I, R = z3.IntSort(), z3.RealSort()


def replay_c06(clause, m):
    from standins import c06
    r = c06.run('quick', 5)
    if r['failures']:
        f = r['failures'][0]
        return {'reproduced': True, 'input': f['case'], 'observed': f['observed'], 'found_by': 'bounded stand-in (independent odeint trajectory and kernels)'}
    return {'reproduced': False, 'searched': r['bound']}


def make_get_solution(with_theta, all_solution):
    @contract('C06/_getSolution/theta=%s/all_solution=%s' % (with_theta, all_solution), ['C06', 'C18'], LOSS + '_getSolution', replay=replay_c06)
    def get_solution(vc):
        nS, nP, n, num_s = vc.int('nS', ge=1), vc.int('nP', ge=1), vc.int('n', ge=1), vc.int('num_s', ge=1)
        obj, ode, x0, T, rec, theta, six = wiring_object(vc, nS, nP, n, num_s)
        q = z3.Int('q_k')
        vc.require('the observed states are states of the model', z3.ForAll([q], z3.Implies(z3.And(q >= 0, q < num_s), z3.And(six(q) >= 0, six(q) < nS))))
        obsT = vc.array('observeT', (n,))
        t0 = vc.real('t0')
        obj.fields['_observeT'] = obsT
        obj.fields['_t0'] = t0
        SOL = vc.array('SOL', (n, nS))
        th_arg = Builtin('theta-argument', lambda it, a, k: None)
        new_holder = Builtin('new-theta-holder', lambda it, a, k: None)
        log = []

        def set_param(it, a, k):
            log.append(('setParam', a[1]))
            a[0].fields['_theta'] = new_holder
        vc.summary(LOSS + '_setParam', set_param)

        def integrate(it, a, k):
            rec['calls'].append((a, k))
            return SOL
        mod = vc.module('pygom.model.ode_utils')
        mod.env.vars['integrateFuncJac'] = Builtin('integrateFuncJac', integrate)
        kw = {'all_solution': True} if all_solution else {}
        out = vc.call(vc.func(LOSS + '_getSolution'), obj, *([th_arg] if with_theta else []), **kw)
        vc.ensure('returns normally', out.returned)
        if not out.returned:
            return
        if with_theta:
            vc.ensure('the supplied theta is bound first', log == [('setParam', th_arg)])
            vc.ensure('the model gets the UPDATED parameter holder before integrating', rec.get('parameters') is new_holder)
        else:
            vc.ensure('no theta: the stored parameters are used', log == [] and rec.get('parameters') is theta)
        vc.ensure('exactly one integration', len(rec['calls']) == 1)
        if len(rec['calls']) != 1:
            return
        a, k = rec['calls'][0]
        vc.ensure('the integrated system is the model ODE with its Jacobian', getattr(a[0], 'name', None) == 'ode_T' and getattr(a[1], 'name', None) == 'jacobian_T')
        vc.ensure('from the stored initial state at the initial time', a[2] is x0 and a[3] is t0)
        vc.ensure('at the OBSERVATION times (not the vector with t0 prepended)', a[4] is obsT)
        vc.ensure('one row per observation time: no origin row, plain output', (not k.get('includeOrigin', False)) and k.get('full_output', False) is False)
        vc.ensure("with the model's integrator", k.get('method') == 'default-method')
        Y = out.value
        if all_solution:
            vc.ensure('all_solution: the whole trajectory', Y is SOL)
        else:
            r_, c_ = z3.Int('q_r'), z3.Int('q_c')
            vc.ensure('column j of the result is the state NAMED j-th; row i is observation time i',
                      allof(isinstance(Y, SArr) and Y.rank == 2,
                            z3.And(to_num(Y.shape[0]) == n, to_num(Y.shape[1]) == num_s,
                                   z3.ForAll([r_, c_], z3.Implies(z3.And(r_ >= 0, r_ < n, c_ >= 0, c_ < num_s), Y.get((r_, c_)) == SOL.get((r_, six(c_)))))) if isinstance(Y, SArr) and Y.rank == 2 else False))
        vc.canary('canary: reachable', z3.BoolVal(False))
    get_solution.__doc__ = "_getSolution(%s): integrates at the observation times and selects the observed states in the order named" % ('theta' if with_theta else '')
    return get_solution


make_get_solution(True, False)
make_get_solution(False, False)
make_get_solution(True, True)


def make_cost(entry):
    @contract('C06/%s' % entry, ['C06', 'C18'], LOSS + entry, replay=replay_c06)
    def cost(vc):
        n, num_s = vc.int('n', ge=1), vc.int('num_s', ge=1)
        cls = vc.cls('pygom.loss.base_loss:BaseLoss')
        YH = vc.array('yhat', (n, num_s))
        th = Builtin('theta-argument', lambda it, a, k: None)
        log = []
        val = vc.real('loss_value')
        RES = vc.array('residual_value', (n, num_s))

        class LossObj(Model):
            def py_getattr(self, it, name):
                if name in ('loss', 'residual'):
                    def f(it_, a, k):
                        log.append((name, a, k))
                        return val if name == 'loss' else RES
                    return Builtin('kernel.' + name, f)
                raise Unsupported(name)

        def get_solution(it, a, k):
            log.append(('getSolution', a[1:], k))
            return YH

        def set_psi(it, a, k):
            log.append(('setParamStateInput', a[1:], k))
        vc.summary(LOSS + '_getSolution', get_solution)
        vc.summary(LOSS + '_setParamStateInput', set_psi)
        obj = ObjVal(cls, {'_lossObj': LossObj(), '_y': vc.array('y', (n, num_s))})
        out = vc.call(vc.func(LOSS + entry), obj, th)
        vc.ensure('returns normally', out.returned)
        if not out.returned:
            return
        names = [l[0] for l in log]
        if entry == 'costIV':
            vc.ensure('parameters and initial values are bound from the argument first, then the trajectory is computed with them',
                      names == ['setParamStateInput', 'getSolution', 'loss'] and log[0][1][0] is th and (len(log[1][1]) == 0 or log[1][1][0] is None) and not log[1][2])
        else:
            vc.ensure('the trajectory is computed for the supplied theta', names[:1] == ['getSolution'] and len(names) == 2 and (th in log[0][1] or log[0][2].get('theta') is th))
        kern = log[-1]
        vc.ensure('the kernel of the loss class is applied to exactly that trajectory', kern[0] == ('residual' if entry == 'residual' else 'loss') and kern[1][0] is YH)
        aw = kern[2].get('apply_weighting', kern[1][1] if len(kern[1]) > 1 else True)
        vc.ensure('with the weights applied (the default)', aw is True)
        if entry == 'residual':
            vc.ensure('the kernel residual is returned', out.value is RES)
        else:
            vc.ensure('the kernel value is returned (real arithmetic: never infinite)', out.value is val or z3.is_true(z3.simplify(to_real(out.value) == val)))
        vc.canary('canary: reachable', z3.BoolVal(False))
    cost.__doc__ = "%s(theta) = kernel(%s)(trajectory for theta at the observation times, observed states in the order named)" % (entry, 'residual' if entry == 'residual' else 'loss')
    return cost


for _e in ('cost', 'residual', 'costIV'):
    make_cost(_e)


# ---------------------------------------------------------------------------------------------
# weights and spread parameters

def make_weights(form):
    @contract('C06/_setWeight_or_spread/%s' % form, ['C06', 'C07', 'C20'], LOSS + '_setWeight_or_spread', replay=replay_c06)
    def weights(vc):
        n, p = vc.int('n', ge=1), vc.int('p', ge=1)
        cls = vc.cls('pygom.loss.base_loss:BaseLoss')
        obj = ObjVal(cls, {})
        i, j = z3.Int('q_i'), z3.Int('q_j')
        if form == 'matrix (n, p)':
            vc.require('several observed states', p >= 2)
            x = vc.array('x', (n, p))
            want = lambda i_, j_: x.get((i_, j_))
        elif form == 'per state (p,)':
            vc.require('several observed states, and the vector is not also one-per-observation of a single state', p >= 2)
            x = vc.array('x', (p,))
            want = lambda i_, j_: x.get((j_,))
        elif form == 'per observation (n,) with one state':
            vc.require('one observed state', p == 1)
            x = vc.array('x', (n,))
            want = lambda i_, j_: x.get((i_,))
        elif form == 'column (n, 1) with one state':
            vc.require('one observed state', p == 1)
            x = vc.array('x', (n, 1))
            want = lambda i_, j_: x.get((i_, z3.IntVal(0)))
        else:      # single value
            x = vc.array('x', (1,))
            vc.require('more than one observation or several states', z3.Or(n >= 2, p >= 2))
            want = lambda i_, j_: x.get((z3.IntVal(0),))
        for is_w in (True, False):
            out = vc.call(vc.func(LOSS + '_setWeight_or_spread'), obj, n, p, x, is_w)
            vc.ensure('accepted (is_weights=%s)' % is_w, out.returned)
            if not out.returned:
                return
            W = out.value
            ok = isinstance(W, SArr)
            vc.ensure('an array (is_weights=%s)' % is_w, ok)
            if not ok:
                return
            vc.ctx.solver.push()
            npc = len(vc.ctx.pc)
            vc.assume(z3.And(i >= 0, i < n, j >= 0, j < p))
            if W.rank == 2:
                vc.ensure('element (i, j) is the value intended for observation i of state j (is_weights=%s)' % is_w,
                          z3.And(to_num(W.shape[0]) == n, to_num(W.shape[1]) == p, W.get((i, j)) == want(i, j)))
            else:
                vc.ensure('a vector is returned only for one observed state, one entry per observation (is_weights=%s)' % is_w,
                          z3.And(p == 1, W.rank == 1, to_num(W.shape[0]) == n, W.get((i,)) == want(i, j)))
            vc.ctx.solver.pop()
            del vc.ctx.pc[npc:]
        vc.canary('canary: reachable', z3.BoolVal(False))
    weights.__doc__ = "_setWeight_or_spread, %s: entry (i, j) of the result is the value for observation i of state j" % form
    return weights


for _f in ('matrix (n, p)', 'per state (p,)', 'per observation (n,) with one state', 'column (n, 1) with one state', 'single value'):
    make_weights(_f)


@contract('C06/_setWeight_or_spread/rejections', ['C06'], LOSS + '_setWeight_or_spread')
def weights_reject(vc):
    """a weight / spread input that is neither per observation, per state, full nor a single value is rejected"""
    n, p, m = vc.int('n', ge=2), vc.int('p', ge=2), vc.int('m', ge=2)
    vc.require('a length that matches nothing', z3.And(m != n, m != p))
    cls = vc.cls('pygom.loss.base_loss:BaseLoss')
    out = vc.call(vc.func(LOSS + '_setWeight_or_spread'), ObjVal(cls, {}), n, p, vc.array('x', (m,)), True)
    vc.ensure('rejected', not out.returned)
    q = vc.int('q', ge=2)
    vc.require('a matrix with the wrong number of columns', z3.And(q != p))
    out2 = vc.call(vc.func(LOSS + '_setWeight_or_spread'), ObjVal(cls, {}), n, p, vc.array('x2', (n, q)), True)
    vc.ensure('rejected (matrix)', z3.Or(not out2.returned, q == 1) if False else (not out2.returned))
    vc.canary('canary: reachable', z3.BoolVal(False))


# ---------------------------------------------------------------------------------------------
# theta -> parameters / initial values

class PName(Model):
    """the i-th supplied target parameter / target state name"""

    def __init__(self, kind, k):
        self.kind, self.k = kind, k

    def py_hash_key(self, it):
        return self


@contract('C06/_setParam/target_param', ['C06', 'C07'], LOSS + '_setParam', replay=replay_c06)
def set_param_target(vc):
    """target_param given (two or more names): theta[i] is stored under target_param[i], in the order supplied"""
    L = vc.int('L', ge=2)
    theta = vc.array('theta', (L,))
    cls = vc.cls('pygom.loss.base_loss:BaseLoss')
    pn = vc.fn('target_param_name', I, I)
    a, b = z3.Int('tp_a'), z3.Int('tp_b')
    vc.require('target parameter names are distinct', z3.ForAll([a, b], z3.Implies(z3.And(a >= 0, a < L, b >= 0, b < L, a != b), pn(a) != pn(b))))
    obj = ObjVal(cls, {'_num_param': vc.int('nP', ge=2), '_targetParam': SList(L, lambda k: SName(pn(k)))})
    vc.it.builtins_env.vars['dict'] = __import__('pyvc.values', fromlist=['TypeTag']).TypeTag('dict', ctor=lambda it, a_, k_: SDict(it, 'thetaDict', empty=True))
    F = LOSS + '_setParam'
    # inverse of the naming (well defined: names distinct)
    inv_, ment = vc.fn('tp_index', I, I), vc.fn('tp_mentioned', I, z3.BoolSort())
    n_ = z3.Int('tp_n')
    vc.assume(z3.ForAll([a], z3.Implies(z3.And(a >= 0, a < L), z3.And(ment(pn(a)), inv_(pn(a)) == a)), patterns=[pn(a)]))
    vc.assume(z3.ForAll([n_], z3.Implies(ment(n_), z3.And(inv_(n_) >= 0, inv_(n_) < L, pn(inv_(n_)) == n_)), patterns=[inv_(n_)]))

    def inv(view, i):
        d = view['thetaDict']
        kd = z3.Int('sp_k')
        return [('the first i names hold the first i values',
                 z3.And(d.L == i, z3.ForAll([n_, kd], d.dom(n_, kd) == z3.And(kd == 0, ment(n_), inv_(n_) < i)),
                        z3.ForAll([n_], z3.Implies(z3.And(ment(n_), inv_(n_) < i), d.val(n_, 0) == theta.get((inv_(n_),))))))]
    vc.loop(F, 0, inv, modifies=('thetaDict',))
    out = vc.call(vc.func(F), obj, theta)
    vc.ensure('accepted', out.returned)
    if not out.returned:
        return
    d = obj.fields.get('_theta')
    vc.ensure('the parameter holder is a dictionary by name', isinstance(d, SDict))
    if isinstance(d, SDict):
        vc.ensure('theta[i] is bound to target_param[i] for every i (the order supplied), nothing else is bound',
                  z3.And(d.L == L, z3.ForAll([a], z3.Implies(z3.And(a >= 0, a < L), z3.And(d.dom(pn(a), 0), d.val(pn(a), 0) == theta.get((a,)))))))
    vc.canary('canary: reachable', z3.BoolVal(False))


@contract('C06/_setParam/all-parameters', ['C06', 'C07'], LOSS + '_setParam', replay=replay_c06)
def set_param_all(vc):
    """no target_param: theta is stored as a copy, position by position (the model binds it positionally, C09)"""
    nP = vc.int('nP', ge=1)
    theta = vc.array('theta', (nP,))
    cls = vc.cls('pygom.loss.base_loss:BaseLoss')
    obj = ObjVal(cls, {'_num_param': nP, '_targetParam': None})
    out = vc.call(vc.func(LOSS + '_setParam'), obj, theta)
    vc.ensure('accepted', out.returned)
    th = obj.fields.get('_theta')
    q = z3.Int('q_k')
    vc.ensure('a copy with the same entries in the same positions',
              allof(isinstance(th, SArr) and th is not theta, z3.And(to_num(th.shape[0]) == nP, z3.ForAll([q], z3.Implies(z3.And(q >= 0, q < nP), th.get((q,)) == theta.get((q,))))) if isinstance(th, SArr) else False))
    vc.canary('canary: reachable', z3.BoolVal(False))


@contract('C06/_unrollState', ['C06', 'C07'], LOSS + '_unrollState', replay=replay_c06)
def unroll_state(vc):
    """target_state given: x0[ix(target_state[i])] = value i, the other initial values keep theirs"""
    nS, L = vc.int('nS', ge=1), vc.int('L', ge=1)
    vals = vc.array('values', (L,))
    x0 = vc.array('x0', (nS,))
    sidx = vc.fn('target_state_index', I, I)
    a, b = z3.Int('ts_a'), z3.Int('ts_b')
    vc.require('target states are distinct states of the model',
               z3.And(z3.ForAll([a], z3.Implies(z3.And(a >= 0, a < L), z3.And(sidx(a) >= 0, sidx(a) < nS))),
                      z3.ForAll([a, b], z3.Implies(z3.And(a >= 0, a < L, b >= 0, b < L, a != b), sidx(a) != sidx(b)))))

    class Ode(Model):
        def py_getattr(self, it, name):
            if name == 'get_state_index':
                return Builtin('get_state_index', lambda it_, a_, k_: [sidx(a_[0].k)])
            raise Unsupported(name)
    cls = vc.cls('pygom.loss.base_loss:BaseLoss')
    cur = x0.copy()
    obj = ObjVal(cls, {'_ode': Ode(), '_targetState': SList(L, lambda k: PName('state', k)), '_x0': cur})
    F = LOSS + '_unrollState'
    q = z3.Int('q_k')

    def inv(view, i):
        c = obj.fields['_x0']
        return [('the first i target states hold their values, every other entry is untouched',
                 z3.And(to_num(c.shape[0]) == nS,
                        z3.ForAll([a], z3.Implies(z3.And(a >= 0, a < i), c.get((sidx(a),)) == vals.get((a,)))),
                        z3.ForAll([q], z3.Implies(z3.And(q >= 0, q < nS, z3.ForAll([a], z3.Implies(z3.And(a >= 0, a < i), sidx(a) != q))), c.get((q,)) == x0.get((q,))))))]

    def inplace(it, view):
        obj.fields['_x0'].havoc_inplace(it, 'x0cur')
    vc.loop(F, 0, inv, inplace=(inplace,))
    out = vc.call(vc.func(F), obj, vals)
    vc.ensure('returns normally', out.returned)
    c = obj.fields['_x0']
    vc.ensure('x0[ix(target_state[i])] = value i for every i (order supplied)', z3.ForAll([a], z3.Implies(z3.And(a >= 0, a < L), c.get((sidx(a),)) == vals.get((a,)))))
    vc.ensure('initial values of the states not targeted are kept',
              z3.ForAll([q], z3.Implies(z3.And(q >= 0, q < nS, z3.ForAll([a], z3.Implies(z3.And(a >= 0, a < L), sidx(a) != q))), c.get((q,)) == x0.get((q,)))))
    vc.canary('canary: reachable', z3.BoolVal(False))


def make_psi(case):
    @contract('C06/_setParamStateInput/%s' % case, ['C06', 'C07'], LOSS + '_setParamStateInput', replay=replay_c06)
    def psi(vc):
        nS, nP = vc.int('nS', ge=1), vc.int('nP', ge=1)
        lp, ls = vc.int('n_target_param', ge=1), vc.int('n_target_state', ge=1)
        cls = vc.cls('pygom.loss.base_loss:BaseLoss')
        tp = SList(lp, lambda k: None) if 'target_param' in case else None
        ts = SList(ls, lambda k: None) if 'target_state' in case else None
        n_par = lp if tp is not None else nP
        n_st = ls if ts is not None else nS
        if case == 'target_param only':
            vc.require('the length is not ambiguous (the code gives the full parameter vector precedence)', z3.And(nS + lp != nP, lp != nP))
        if case == 'target_state only':
            vc.require('the length is not ambiguous', nP + ls != ls)
        theta = vc.array('theta', (n_par + n_st,))
        obj = ObjVal(cls, {'_num_state': nS, '_num_param': nP, '_targetParam': tp, '_targetState': ts})
        log = []
        for nm in ('_setParam', '_unrollParam', '_setX0', '_unrollState'):
            vc.summary(LOSS + nm, (lambda nm_: (lambda it, a, k: log.append((nm_, a[1]))))(nm))
        out = vc.call(vc.func(LOSS + '_setParamStateInput'), obj, theta)
        vc.ensure('accepted', out.returned)
        if not out.returned:
            return
        d = dict(log)
        pk = '_unrollParam' if tp is not None else '_setParam'
        sk = '_unrollState' if ts is not None else '_setX0'
        vc.ensure('one parameter binding and one initial-value binding, of the right kind', sorted(d) == sorted([pk, sk]) and len(log) == 2)
        if sorted(d) != sorted([pk, sk]):
            return
        q = z3.Int('q_k')
        P, S = d[pk], d[sk]
        vc.ensure('the LEADING entries are the parameters, in order',
                  allof(isinstance(P, SArr), z3.And(to_num(P.shape[0]) == n_par, z3.ForAll([q], z3.Implies(z3.And(q >= 0, q < n_par), P.get((q,)) == theta.get((q,))))) if isinstance(P, SArr) else False))
        vc.ensure('the TRAILING entries are the initial values, in order',
                  allof(isinstance(S, SArr), z3.And(to_num(S.shape[0]) == n_st, z3.ForAll([q], z3.Implies(z3.And(q >= 0, q < n_st), S.get((q,)) == theta.get((n_par + q,))))) if isinstance(S, SArr) else False))
        vc.canary('canary: reachable', z3.BoolVal(False))
    psi.__doc__ = "_setParamStateInput (%s): [parameters | initial values] are split at the right place" % case
    return psi


for _c in ('all parameters and all states', 'target_param only', 'target_state only', 'target_param and target_state'):
    make_psi(_c)


def make_loss_type(clsname, kernel, has_spread):
    @contract('C06/%s._setLossType' % clsname, ['C06', 'C14'], 'pygom.loss.ode_loss:%s._setLossType' % clsname)
    def loss_type(vc):
        n = vc.int('n', ge=1)
        y, w, sp = vc.array('y', (n,)), vc.array('w', (n,)), vc.array('spread', (n,))
        made = []
        mod = vc.module('pygom.loss.ode_loss')

        def ctor(name):
            def f(it, a, k):
                made.append((name, a, k))
                return Builtin('kernel-object', lambda *x: None)
            return Builtin(name, f)
        for k_ in ('Normal', 'Square', 'Poisson', 'Gamma', 'NegBinom'):
            mod.env.vars[k_] = ctor(k_)
        cls = vc.cls('pygom.loss.ode_loss:' + clsname)
        obj = ObjVal(cls, {'_y': y, '_weight': w, '_spread_param': sp})
        out = vc.call(vc.func('pygom.loss.ode_loss:%s._setLossType' % clsname), obj)
        vc.ensure('returns the kernel object it stored', out.returned and out.value is obj.fields.get('_lossObj'))
        ok = len(made) == 1 and made[0][0] == kernel
        vc.ensure('the kernel of the same name is constructed', ok)
        if ok:
            a, k = made[0][1], made[0][2]
            vc.ensure('with the data first, then the weights%s' % (', then the spread parameter' if has_spread else ''),
                      a[0] is y and (a[1] if len(a) > 1 else k.get('weights')) is w and
                      ((a[2] if len(a) > 2 else k.get({'Normal': 'sigma', 'Gamma': 'shape', 'NegBinom': 'k'}.get(kernel))) is sp if has_spread else len(a) == 2))
        vc.canary('canary: reachable', z3.BoolVal(False))
    loss_type.__doc__ = "%s uses the %s kernel with (y, weights%s)" % (clsname, kernel, ', spread' if has_spread else '')
    return loss_type


for _c, _k, _s in (('SquareLoss', 'Square', False), ('NormalLoss', 'Normal', True), ('PoissonLoss', 'Poisson', False), ('GammaLoss', 'Gamma', True), ('NegBinomLoss', 'NegBinom', True)):
    make_loss_type(_c, _k, _s)


# ---------------------------------------------------------------------------------------------
# the constructor: what is stored, in which order

def make_init(single_column, name_form='list'):
    @contract('C06/BaseLoss.__init__/%s%s' % ('one observed state' if single_column else 'several observed states',
                                              {'list': '', 'str': '/name given as a str', 'none': '/state_name=None (every state observed)'}[name_form]),
              ['C06', 'C07'], 'pygom.loss.base_loss:BaseLoss.__init__', replay=replay_c06)
    def init(vc):
        n, nS, nP = vc.int('n', ge=1), vc.int('nS', ge=1), vc.int('nP', ge=1)
        p = 1 if single_column else vc.int('p', ge=2)
        if name_form == 'none':
            vc.require('state_name=None: one data column per model state', to_num(nS) == to_num(p))
        t = vc.array('t', (n,))
        y = vc.array('y', (n,) if single_column else (n, p))
        x0 = vc.array('x0', (nS,))
        t0 = vc.real('t0')
        theta = vc.array('theta', (nP,))
        six = vc.fn('state_index_of_named', I, I)
        log = {}

        class Ode(Model):
            def py_getattr(self, it, name):
                if name == 'parameters':
                    return Builtin('current-parameters', lambda *a: None)
                if name == 'num_param':
                    return nP
                if name == 'num_state':
                    return nS
                if name == 'integrate2':
                    return Builtin('integrate2', lambda it_, a, k: log.setdefault('integrate2', a[0]) and SArr((n + 1, nS), lambda o: z3.RealVal(0)) or SArr((n + 1, nS), lambda o: z3.RealVal(0)))
                if name == '_iterStateList':
                    return Builtin('_iterStateList', lambda it_, a, k: SList(nS, lambda q: SName(vc.fn('declared_state', I, I)(q))))
                if name == 'get_state_index':
                    def gsi(it_, a, k):
                        log['gsi'] = a[0]
                        return SList(to_num(it_.length(a[0])), lambda q: six(q))
                    return Builtin('get_state_index', gsi)
                raise Unsupported("ode attribute %s" % name)

            def py_setattr(self, it, name, value):
                if name == 'initial_values':
                    log['iv'] = value
                    return
                raise Unsupported("ode attribute write %s" % name)
        names = SList(p, lambda q: SName(z3.Int('state_name_%s' % 'k')) if False else SName(vc.fn('observed_name', I, I)(q))) if not single_column else [SName(vc.int('observed_name0'))]
        W = vc.array('W', (n, p) if not single_column else (n,))

        def sws(it, a, k):
            log.setdefault('sws', []).append((a[1], a[2], a[3], k.get('is_weights', a[4] if len(a) > 4 else None)))
            return W
        vc.summary(LOSS + '_setWeight_or_spread', sws)
        kernel = Builtin('kernel-object', lambda *a: None)

        def slt(it, a, k):
            self_ = a[0]
            log['loss_type_args'] = (self_.fields.get('_y'), self_.fields.get('_weight'))
            self_.fields['_lossObj'] = kernel
            return kernel
        vc.summary(LOSS + '_setLossType', slt)
        cls = vc.cls('pygom.loss.base_loss:BaseLoss')
        sw = vc.array('state_weight', (n,) if single_column else (p,))
        arg = {'list': names, 'str': names[0] if single_column else None, 'none': None}[name_form]
        out = vc.call(cls, theta, Ode(), x0, t0, t, y, arg, sw)
        vc.ensure('the constructor returns', out.returned)
        if not out.returned:
            return
        obj = out.value
        f = obj.fields
        q = z3.Int('q_k')
        if name_form == 'list':
            vc.ensure('the state indices are looked up for the observed names, in the order given', log.get('gsi') is f.get('_stateName') and (f['_stateName'] is names or f['_stateName'] == names))
        elif name_form == 'str':
            sn = f.get('_stateName')
            vc.ensure('a single name given as a str is looked up as the one-element list of that name', log.get('gsi') is sn and isinstance(sn, list) and len(sn) == 1 and sn[0] is names[0])
        else:
            sn = f.get('_stateName')
            dn = vc.fn('declared_state', I, I)
            vc.ensure('state_name=None: the names looked up are the declared states, in declaration order',
                      allof(log.get('gsi') is sn and isinstance(sn, SList), z3.And(to_num(sn.length) == nS, z3.ForAll([q], z3.Implies(z3.And(q >= 0, q < nS), sn.element(q).term == dn(q)))) if isinstance(sn, SList) else False))
        si = f.get('_stateIndex')
        vc.ensure('_stateIndex[j] = index of the j-th named state', allof(isinstance(si, SList), z3.And(to_num(si.length) == p, z3.ForAll([q], z3.Implies(z3.And(q >= 0, q < p), si.element(q) == six(q)))) if isinstance(si, SList) else False))
        ot, tt = f.get('_observeT'), f.get('_t')
        vc.ensure('the observation times are kept as given (a copy), in order', allof(isinstance(ot, SArr) and ot is not t, z3.And(to_num(ot.shape[0]) == n, z3.ForAll([q], z3.Implies(z3.And(q >= 0, q < n), ot.get((q,)) == t.get((q,))))) if isinstance(ot, SArr) else False))
        vc.ensure('_t is the initial time followed by the observation times', allof(isinstance(tt, SArr), z3.And(to_num(tt.shape[0]) == n + 1, tt.get((z3.IntVal(0),)) == t0,
                                                                                       z3.ForAll([q], z3.Implies(z3.And(q >= 0, q < n), tt.get((q + 1,)) == t.get((q,))))) if isinstance(tt, SArr) else False))
        yy = f.get('_y')
        if single_column:
            vc.ensure('the data vector is stored element for element', allof(isinstance(yy, SArr) and yy.rank == 1, z3.ForAll([q], z3.Implies(z3.And(q >= 0, q < n), yy.get((q,)) == y.get((q,)))) if isinstance(yy, SArr) and yy.rank == 1 else False))
        else:
            vc.ensure('the data matrix is stored as given (row i = observation i, column j = named state j)', yy is y)
        vc.ensure('weights are built from state_weight for n observations of p states', log.get('sws') is not None and len(log['sws']) == 1 and
                  (log['sws'][0][0] is n or z3.is_true(z3.simplify(to_num(log['sws'][0][0]) == n))) and (log['sws'][0][1] == p if isinstance(p, int) else z3.is_true(z3.simplify(to_num(log['sws'][0][1]) == p)))
                  and log['sws'][0][2] is sw and log['sws'][0][3] is True and f.get('_weight') is W)
        vc.ensure('the kernel is built from the stored data and weights', log.get('loss_type_args') is not None and log['loss_type_args'][0] is yy and log['loss_type_args'][1] is W and f.get('_lossObj') is kernel)
        xx = f.get('_x0')
        vc.ensure('the initial state is stored as a copy', allof(isinstance(xx, SArr) and xx is not x0, z3.ForAll([q], z3.Implies(z3.And(q >= 0, q < nS), xx.get((q,)) == x0.get((q,)))) if isinstance(xx, SArr) else False))
        vc.ensure('initial time, parameter and state counts', (f.get('_t0') is t0) and f.get('_num_param') is nP and f.get('_num_state') is nS)
        th = f.get('_theta')
        vc.ensure('theta is stored positionally', allof(isinstance(th, SArr), z3.ForAll([q], z3.Implies(z3.And(q >= 0, q < nP), th.get((q,)) == theta.get((q,)))) if isinstance(th, SArr) else False))
        vc.canary('canary: reachable', z3.BoolVal(False))
    init.__doc__ = "BaseLoss.__init__ (%s): stores the observed-state indices in the named order, the times, data, weights, x0 and theta" % ('one observed state' if single_column else 'several observed states')
    return init


make_init(True)
make_init(False)
make_init(True, 'str')
make_init(False, 'none')
make_init(True, 'none')


@contract('C06/_unrollParam/target_param', ['C06', 'C07'], LOSS + '_unrollParam', replay=replay_c06)
def unroll_param(vc):
    """target_param given: value i replaces the entry stored under target_param[i] (order supplied); other stored entries are kept"""
    L = vc.int('L', ge=1)
    vals = vc.array('values', (L,))
    pn = vc.fn('target_param_name', I, I)
    a, b = z3.Int('tp_a'), z3.Int('tp_b')
    vc.require('target parameter names are distinct', z3.ForAll([a, b], z3.Implies(z3.And(a >= 0, a < L, b >= 0, b < L, a != b), pn(a) != pn(b))))
    inv_, ment = vc.fn('tp_index', I, I), vc.fn('tp_mentioned', I, z3.BoolSort())
    n_ = z3.Int('tp_n')
    vc.assume(z3.ForAll([a], z3.Implies(z3.And(a >= 0, a < L), z3.And(ment(pn(a)), inv_(pn(a)) == a)), patterns=[pn(a)]))
    vc.assume(z3.ForAll([n_], z3.Implies(ment(n_), z3.And(inv_(n_) >= 0, inv_(n_) < L, pn(inv_(n_)) == n_)), patterns=[inv_(n_)]))
    D0 = SDict(vc.it, 'theta')
    s0 = D0.snapshot()
    cls = vc.cls('pygom.loss.base_loss:BaseLoss')
    obj = ObjVal(cls, {'_targetParam': SList(L, lambda k: SName(pn(k))), '_theta': D0})
    F = LOSS + '_unrollParam'

    def inv(view, i):
        d = obj.fields['_theta']
        kd = z3.Int('up_k')
        m_ = lambda n2: z3.And(ment(n2), inv_(n2) < i)
        return [('the first i target parameters hold the new values, every other stored entry is as before',
                 z3.And(z3.ForAll([n_], d.dom(n_, 0) == z3.Or(z3.Select(s0['Dom'], n_, 0), m_(n_))),
                        z3.ForAll([n_], d.val(n_, 0) == z3.If(m_(n_), vals.get((inv_(n_),)), z3.Select(s0['Val'], n_, 0))),
                        z3.ForAll([n_, kd], z3.Implies(kd != 0, z3.And(d.dom(n_, kd) == z3.Select(s0['Dom'], n_, kd), d.val(n_, kd) == z3.Select(s0['Val'], n_, kd))))))]

    def inplace(it, view):
        obj.fields['_theta'].havoc_inplace(it, 'theta_cur')
    vc.loop(F, 1, inv, inplace=(inplace,))      # loop 0 is the dict-argument form, loop 1 the positional form
    out = vc.call(vc.func(F), obj, vals)
    vc.ensure('returns normally', out.returned)
    d = obj.fields['_theta']
    vc.ensure('theta[i] is stored under target_param[i] for every i', z3.ForAll([a], z3.Implies(z3.And(a >= 0, a < L), z3.And(d.dom(pn(a), 0), d.val(pn(a), 0) == vals.get((a,))))))
    vc.ensure('entries of parameters that are not targeted are kept', z3.ForAll([n_], z3.Implies(z3.Not(ment(n_)), z3.And(d.dom(n_, 0) == z3.Select(s0['Dom'], n_, 0), d.val(n_, 0) == z3.Select(s0['Val'], n_, 0)))))
    vc.canary('canary: reachable', z3.BoolVal(False))


@contract('C06/_unrollParam/all-parameters', ['C06', 'C07'], LOSS + '_unrollParam', replay=replay_c06)
def unroll_param_all(vc):
    """no target_param, array holder: entry i of the holder becomes theta[i] for every i, in place (the holder object is the one
    _getSolution hands to the model)"""
    L = vc.int('L', ge=1)
    vals = vc.array('values', (L,))
    hold = vc.array('theta_holder', (L,))
    cls = vc.cls('pygom.loss.base_loss:BaseLoss')
    obj = ObjVal(cls, {'_targetParam': None, '_theta': hold})
    F = LOSS + '_unrollParam'
    q = z3.Int('up_q')

    def inv(view, i):
        h = obj.fields['_theta']
        return [('the first i entries hold the new values', z3.And(to_num(h.shape[0]) == L, z3.ForAll([q], z3.Implies(z3.And(q >= 0, q < i), h.get((q,)) == vals.get((q,))))))]

    def inplace(it, view):
        obj.fields['_theta'].havoc_inplace(it, 'theta_cur')
    vc.loop(F, 3, inv, inplace=(inplace,))      # loops 0/1: target_param forms, loop 2: dict holder, loop 3: array holder
    out = vc.call(vc.func(F), obj, vals)
    vc.ensure('returns normally', out.returned)
    h = obj.fields['_theta']
    vc.ensure('holder[i] == theta[i] for every i', z3.ForAll([q], z3.Implies(z3.And(q >= 0, q < L), h.get((q,)) == vals.get((q,)))))
    vc.canary('canary: reachable', z3.BoolVal(False))
