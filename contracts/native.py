"""Helpers for native replays: import the real pygom from the tree under verification."""
import contextlib
import importlib
import io
import os
import sys


def root():
    return os.environ.get('PYVC_REPO_SRC', '/repo/src')


def imp(modname):
    r = root()
    if sys.path[0] != r:
        sys.path.insert(0, r)
    import warnings
    warnings.filterwarnings('ignore')
    with contextlib.redirect_stdout(io.StringIO()):
        return importlib.import_module(modname)


@contextlib.contextmanager
def quiet():
    with contextlib.redirect_stdout(io.StringIO()):
        yield


def opt(isnone, v):
    return None if isnone else v
