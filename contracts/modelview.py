"""The abstract model view (DESIGN.md section 3): a BaseOdeModel heap whose definition fields
are sequences of symbolic length.

  S   states   sid(i)            names (distinct)            ix(name) = index of a declared state
  P   params   pid(j)
  EV  events   rate(e) : name,  K(e) transitions, each ty(e,k) in {B,D,T}, org(e,k), dst(e,k), mag(e,k) : name
  OD  ode terms oorg(q), oeq(q)

Well-formedness (a precondition of every generator): names distinct; every origin / destination
that its transition type uses names a declared state; T transitions have origin != destination."""
import z3
from pyvc.lib import SList
from pyvc.values import Model, SName, ObjVal, EnumMember, Builtin, Unsupported, to_num, PyRaise, ExcVal
from pyvc.lib_sympy import SExpr, StateSym, ParamSym, Parse, Expr

I, R, B = z3.IntSort(), z3.RealSort(), z3.BoolSort()
sid = z3.Function('sid', I, I)
pid = z3.Function('pid', I, I)
ix = z3.Function('ix', I, I)
pix = z3.Function('pix', I, I)
declared = z3.Function('declared_state', I, B)
pdeclared = z3.Function('declared_param', I, B)
rate = z3.Function('rate', I, I)
K = z3.Function('K', I, I)
ty = z3.Function('ty', I, I, I)
org = z3.Function('org', I, I, I)
dst = z3.Function('dst', I, I, I)
mag = z3.Function('mag', I, I, I)
oorg = z3.Function('oorg', I, I)
oeq = z3.Function('oeq', I, I)
TYPE_CODE = {'B': 0, 'D': 1, 'T': 2, 'ODE': 3}


class SEnum(Model):
    """a TransitionType known only by its code"""
    tags = frozenset({'TransitionType', 'Enum'})

    def __init__(self, code):
        self.code = code

    def py_eq(self, it, other):
        if isinstance(other, EnumMember):
            return self.code == TYPE_CODE[other.name]
        if isinstance(other, SEnum):
            return self.code == other.code
        return False

    def py_is(self, it, other):
        return self.py_eq(it, other)


class NameList(Model):
    """_stateList / _paramList: ODEVariable objects with distinct IDs; index(x) by ID"""
    tags = frozenset({'list'})

    def __init__(self, n, idf, ixf, decl, varcls):
        self.n, self.idf, self.ixf, self.decl, self.varcls = n, idf, ixf, decl, varcls

    def elem(self, k):
        nm = SName(self.idf(k))
        return ObjVal(self.varcls, {'ID': nm, 'name': nm, 'units': None, 'real': True})

    def py_len(self, it):
        return self.n

    def py_iter(self, it):
        from pyvc.values import SymIter
        return SymIter(self.n, self.elem)

    def py_getitem(self, it, idx):
        k = to_num(idx)
        it.ctx.oblige("safety/index-in-range", z3.And(k >= 0, k < self.n))
        return self.elem(k)

    def py_getattr(self, it, name):
        if name == 'index':
            def index(it_, a, k):
                x = a[0]
                t = x.term if isinstance(x, SName) else (x.fields['ID'].term if isinstance(x, ObjVal) else None)
                if t is None:
                    raise Unsupported("index of %r" % (x,))
                it_.ctx.note_trusted("list.index with ODEVariable.__eq__: the position of the variable whose ID equals the name (ValueError if none)")
                if not it_.ctx.branch(self.decl(t), 'list.index'):
                    raise PyRaise(ExcVal('ValueError', ("name is not in list",)))
                return self.ixf(t)
            return Builtin('list.index', index)
        raise Unsupported("list method %s on a name list" % name)

    def py_truth(self, it):
        return self.n != 0

    def __add__(self, other):
        raise Unsupported("list concatenation")


class SymDict(Model):
    """_stateDict / _paramDict: name -> sympy symbol"""
    tags = frozenset({'dict'})

    def __init__(self, symf, decl):
        self.symf, self.decl = symf, decl

    def py_getitem(self, it, key):
        t = key.term if isinstance(key, SName) else None
        if t is None:
            raise Unsupported("symbol dictionary key %r" % (key,))
        if it.pure_depth:
            # element closure of a generator over the declared names: the key is declared by construction
            return SExpr(self.symf(t), ('Symbol',))
        if not it.ctx.branch(self.decl(t), 'dict-key'):
            raise PyRaise(ExcVal('KeyError', (key,), {'KeyError', 'LookupError', 'Exception', 'BaseException'}))
        return SExpr(self.symf(t), ('Symbol',))

    def py_contains(self, it, key):
        t = key.term if isinstance(key, SName) else None
        if t is None:
            raise Unsupported("symbol dictionary key %r" % (key,))
        return self.decl(t)


class ModelView(object):
    """builds the heap of a model with symbolic definition and states the well-formedness facts"""

    def __init__(self, vc, cls_spec='pygom.model.simulate:SimulateOde', with_ode_terms=True):
        self.vc = vc
        self.nS = vc.int('nS', ge=1)
        self.nP = vc.int('nP', ge=0)
        self.nE = vc.int('nE', ge=0)
        self.nQ = vc.int('nQ', ge=0) if with_ode_terms else z3.IntVal(0)
        it = vc.it
        varcls = vc.cls('pygom.model.ode_variable:ODEVariable')
        evcls = vc.cls('pygom.model.transition:Event')
        trcls = vc.cls('pygom.model.transition:Transition')
        self.trcls, self.evcls = trcls, evcls
        nS, nP, nE, nQ = self.nS, self.nP, self.nE, self.nQ
        i, j, e, k, q, n = (z3.Int(x) for x in ('wf_i', 'wf_j', 'wf_e', 'wf_k', 'wf_q', 'wf_n'))
        A = vc.assume
        # names distinct, ix is the inverse of sid on declared names
        A(z3.ForAll([i], z3.Implies(z3.And(i >= 0, i < nS), z3.And(declared(sid(i)), ix(sid(i)) == i)), patterns=[sid(i)]))
        A(z3.ForAll([n], z3.Implies(declared(n), z3.And(ix(n) >= 0, ix(n) < nS, sid(ix(n)) == n)), patterns=[ix(n)]))
        A(z3.ForAll([j], z3.Implies(z3.And(j >= 0, j < nP), z3.And(pdeclared(pid(j)), pix(pid(j)) == j)), patterns=[pid(j)]))
        A(z3.ForAll([n], z3.Implies(pdeclared(n), z3.And(pix(n) >= 0, pix(n) < nP, pid(pix(n)) == n)), patterns=[pix(n)]))
        A(z3.ForAll([e], z3.Implies(z3.And(e >= 0, e < nE), K(e) >= 1), patterns=[K(e)]))
        # every transition has a B/D/T type and names declared states where its type uses them
        A(z3.ForAll([e, k], z3.Implies(z3.And(e >= 0, e < nE, k >= 0, k < K(e)),
                                       z3.And(ty(e, k) >= 0, ty(e, k) <= 2,
                                              z3.Implies(ty(e, k) != 0, declared(org(e, k))),
                                              z3.Implies(ty(e, k) != 1, declared(dst(e, k))),
                                              z3.Implies(ty(e, k) == 2, org(e, k) != dst(e, k)))), patterns=[ty(e, k)]))
        A(z3.ForAll([q], z3.Implies(z3.And(q >= 0, q < nQ), declared(oorg(q))), patterns=[oorg(q)]))
        self.states = NameList(nS, sid, ix, declared, varcls)
        self.params = NameList(nP, pid, pix, pdeclared, varcls)

        def transition(e_, k_):
            return ObjVal(trcls, {'_transition_type': SEnum(ty(e_, k_)), '_orig_state': SName(org(e_, k_)), '_dest_state': SName(dst(e_, k_)),
                                  '_magnitude': SName(mag(e_, k_)), '_equation': None, 'ID': None, 'name': None})

        def event(e_):
            return ObjVal(evcls, {'rate': SName(rate(e_)), 'transition_list': SList(K(e_), lambda k_: transition(e_, k_))})
        self.events = SList(nE, event)
        self.odes = SList(nQ, lambda q_: ObjVal(trcls, {'_transition_type': SEnum(z3.IntVal(3)), '_orig_state': SName(oorg(q_)), '_dest_state': None,
                                                         '_magnitude': '1', '_equation': SName(oeq(q_)), 'ID': None, 'name': None}))
        cls = vc.cls(cls_spec)
        self.obj = ObjVal(cls, {
            '_stateList': self.states, '_paramList': self.params, '_eventList': self.events, '_odeList': self.odes,
            '_stateDict': SymDict(StateSym, declared), '_paramDict': SymDict(ParamSym, pdeclared),
            '_vectorStateDict': {}, '_derivedParamDict': {}, '_derivedParamList': [], '_isDifficult': False,
            '_t': SExpr(z3.Const('t_symbol', Expr), ('Symbol',)), '_transitionList': [], '_birthDeathList': [],
        })
        # checkEquation is a trusted leaf: Parse(string) with the model's symbol tables
        vc.summary('pygom.model._model_verification:checkEquation', self.check_equation)
        # ... which is only sound if it keeps no state between calls: its frame condition is checked on the source (pyvc/frame.py)
        if 'pygom.model._model_verification:checkEquation' not in vc.contract.frame:
            vc.contract.frame.append('pygom.model._model_verification:checkEquation')

    def check_equation(self, it, args, kw):
        it.ctx.note_trusted("_model_verification.checkEquation(string, tables): Parse(string), the sympy expression the user wrote (eval/exec/parse_expr inside it are not executed; derived parameters are substituted by it)")
        s = args[0]
        from pyvc.values import name_code
        if isinstance(s, SName):
            return SExpr(Parse(s.term))
        if isinstance(s, str):
            return SExpr(Parse(z3.IntVal(name_code(s))))
        raise Unsupported("checkEquation of %r" % (s,))
