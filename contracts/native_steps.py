"""Native confirmation of the step contracts (C04/C05/C10/C11/C16): the real firstReaction / tauLeap / _jump
are called with synthetic evaluators and a fixed global seed, and the result is compared with a reference
that re-draws the same stream positions with numpy (a draw is a function of generator state and parameters).
Bounded search (seeded); used as the replay of refuted obligations, never as proof."""
import numpy as np


def _within(x, lims):
    return all((lo is None or v >= lo) and (hi is None or v <= hi) for v, (lo, hi) in zip(x, lims))


def _rand_case(rng):
    nS, nE = int(rng.randint(1, 4)), int(rng.randint(1, 4))
    x = rng.randint(0, 12, size=nS).astype(float)
    V = rng.randint(-2, 3, size=(nS, nE)).astype(float)
    rates = rng.uniform(0.2, 3.0, size=nE) * (rng.uniform(size=nE) < 0.8)
    lims = [[(0, None), (None, None), (0, float(xi + 3)), (None, float(xi + 2))][int(rng.randint(4))] for xi in x]
    pure = rng.uniform(-1, 1, size=nS) * (rng.uniform() < 0.5)
    return dict(x=x.tolist(), V=V.tolist(), rates=rates.tolist(), lims=[list(l) for l in lims], pure=pure.tolist(),
                t=float(rng.uniform(0, 5)), seed=int(rng.randint(1, 2 ** 31 - 1)), pre_tau=float(rng.uniform(0.05, 0.6)),
                epsilon=float(rng.uniform(0.02, 0.3)))


def first_reaction_case(c):
    from contracts import native
    ss = native.imp('pygom.model.stochastic_simulation')
    x, V, rates = np.array(c['x'], float), np.array(c['V'], float), np.array(c['rates'], float)
    lims = [tuple(l) for l in c['lims']]
    np.random.seed(c['seed'])
    with native.quiet():
        out = ss.firstReaction(x.copy(), lims, c['t'], lambda x_, t_: V.copy(), lambda x_, t_: rates.copy())
    after = np.random.get_state()[1][:4].tolist(), np.random.get_state()[2]
    bad = []
    if not (isinstance(out, tuple) and len(out) == 5):
        return ["returns %r, not the five-element step tuple" % (out,)]
    t_new, tau, x_new, jumps, success = out
    if not rates.any():
        return [] if (success is False and not isinstance(x_new, np.ndarray)) else ["all rates zero but a step was proposed"]
    if success is False and not isinstance(x_new, np.ndarray):
        return ["stop tuple although some rate is positive"]
    np.random.seed(c['seed'])
    clocks = np.array([np.random.exponential(scale=1.0 / r, size=1)[0] if r > 0 else np.inf for r in rates])
    ref_after = np.random.get_state()[1][:4].tolist(), np.random.get_state()[2]
    w = int(np.argmin(clocks))
    if after != ref_after:
        bad.append("the global generator was not advanced by exactly one exponential draw per positive rate")
    if tau != clocks[w]:
        bad.append("waiting time %r is not the earliest exponential clock %r (scale 1/rate, same stream)" % (tau, clocks[w]))
    if list(jumps) != [1 if k == w else 0 for k in range(len(rates))]:
        bad.append("counts %r are not one-hot at the fired event %d" % (list(jumps), w))
    prop = x + V[:, w]
    if _within(prop, lims):
        if not (success and np.array_equal(np.asarray(x_new, float), prop) and t_new == c['t'] + clocks[w]):
            bad.append("legal step not taken as x + V[:,w], t + tau: got x=%r t=%r success=%r" % (np.asarray(x_new).tolist(), t_new, success))
    else:
        if success or not np.array_equal(np.asarray(x_new, float), x) or t_new != c['t']:
            bad.append("illegal proposal %r not rejected with state and time unchanged" % prop.tolist())
    return bad


def tau_leap_case(c, fixed=True):
    from contracts import native
    ss = native.imp('pygom.model.stochastic_simulation')
    x, V, rates, pure = np.array(c['x'], float), np.array(c['V'], float), np.array(c['rates'], float), np.array(c['pure'], float)
    nS, nE = V.shape
    lims = [tuple(l) for l in c['lims']]
    react = np.zeros((nS, nE), int)
    mu, s2 = rates * 0.5 - 0.3, np.abs(rates) * 0.7
    kw = dict(epsilon=c['epsilon'])
    if fixed:
        kw['pre_tau'] = c['pre_tau']
    np.random.seed(c['seed'])
    with native.quiet():
        out = ss.tauLeap(x.copy(), lims, c['t'], lambda x_, t_: V.copy(), react, lambda x_, t_: rates.copy(),
                         lambda x_, t_: mu.copy(), lambda x_, t_: s2.copy(), lambda x_, t_: pure.copy(), **kw)
    if not (isinstance(out, tuple) and len(out) == 5):
        return ["returns %r, not the five-element step tuple" % (out,)]
    t_new, tau, x_new, jumps, success = out
    if not rates.any():
        return [] if (success is False and not isinstance(x_new, np.ndarray)) else ["all rates zero but a leap was proposed"]
    if success is False and not isinstance(x_new, np.ndarray):
        return ["stop tuple although some rate is positive"]
    bad = []
    if not tau > 0:
        bad.append("step %r is not positive" % (tau,))
    if fixed and tau != c['pre_tau']:
        bad.append("fixed step %r not used as given (%r)" % (c['pre_tau'], tau))
    np.random.seed(c['seed'])
    ref = [np.random.poisson(tau * r, size=1)[0] for r in rates]
    if [float(j) for j in jumps] != [float(j) for j in ref]:
        bad.append("counts %r are not the Poisson draws with mean tau*rate from the same stream %r" % ([float(j) for j in jumps], [float(j) for j in ref]))
    prop = x + V.dot(np.array(jumps, float)) + pure * tau
    if _within(prop, lims):
        if not (success and np.allclose(np.asarray(x_new, float), prop, rtol=0, atol=1e-9) and abs(t_new - (c['t'] + tau)) < 1e-12):
            bad.append("legal leap not taken as x + V.counts + pure*tau: got %r, expected %r" % (np.asarray(x_new).tolist(), prop.tolist()))
    else:
        if success or not np.array_equal(np.asarray(x_new, float), x) or t_new != c['t']:
            bad.append("illegal proposal %r not rejected with state and time unchanged" % prop.tolist())
    return bad


def search(kind, n=150, seed=5):
    rng = np.random.RandomState(seed)
    fn = {'firstReaction': first_reaction_case, 'tauLeap-fixed': lambda c: tau_leap_case(c, True),
          'tauLeap-adaptive': lambda c: tau_leap_case(c, False)}[kind]
    for k in range(n):
        c = _rand_case(rng)
        try:
            bad = fn(c)
        except Exception as e:
            bad = ["raises %s: %s" % (type(e).__name__, e)]
        if bad:
            return {'reproduced': True, 'input': c, 'observed': bad[:4], 'found_by': 'seeded native search (%d cases, synthetic evaluators, reference re-draw of the same stream)' % n}
    return {'reproduced': False, 'searched': '%d seeded cases of %s with synthetic evaluators' % (n, kind)}


def jump_search(exact, n=40, seed=9):
    """the real _jump on small models with tight limits: recorded lists against re-stepping"""
    from standins import stoch
    rng = np.random.RandomState(seed)
    from contracts import native
    for k in range(n):
        spec, x0, lims, theta = stoch.make(rng, n_states=[None, 1, 2][k % 3], n_events=[None, 1, 2][k % 3])
        if k % 2:
            lims = [(0, float(v + (k % 3))) for v in x0]       # tight upper limits: proposals are often illegal
        m = stoch.build(spec, x0, lims, theta, pre_tau=(0.05 if k % 4 == 0 else None))
        np.random.seed(int(rng.randint(1, 2 ** 31 - 1)))
        try:
            with native.quiet():
                X, J, T, DT = m._jump(float(rng.uniform(0.3, 2.0)), exact=exact, full_output=True)
            bad = stoch.check_raw_path(m, spec, lims, X, J, T, exact, False)
            T, DT = np.asarray(T, float), np.asarray(DT, float)
            if len(DT) != len(T) - 1 or not np.allclose(np.diff(T), DT, rtol=0, atol=1e-12):
                bad.append("recorded step sizes %s are not the differences of the recorded times %s" % (DT.tolist()[:4], np.diff(T).tolist()[:4]))
        except Exception as e:
            bad = ["raises %s: %s" % (type(e).__name__, e)]
        if bad:
            return {'reproduced': True, 'input': dict(events=spec['events'], x0=x0.tolist(), limits=lims, exact=exact), 'observed': bad[:4],
                    'found_by': 'seeded native search (%d small models, tight limits)' % n}
    return {'reproduced': False, 'searched': '%d seeded small models' % n}
