"""C13 -- sensitivity systems are the variational equations of the model (right-hand sides and Jacobian block layout).

With z = [x | s], J = jacobian(x, t) (nS x nS), G = grad(x, t) (nS x nP), f = ode(x, t):
  by parameter (default):  S[i, j] = s[i + j*nS]      by state:  S[i, j] = s[i*nP + j]
  sensitivity(s, t, x, by_state)              = vec(J S + G)                     in the same layout
  ode_and_sensitivity(z, t, by_state)         = [ f | vec(J S + G) ]
  sensitivityIV / ode_and_sensitivityIV       = [ f | vecF(J S + G) | vecF(J S0) ],  S0[i, j] = s0[i + j*nS]
  ode_and_sensitivity_jacobian(z, t, by_state): blocks  [[J, 0], [L, I_nP (x) J]]  (by parameter)  or  [[J, 0], [P L, J (x) I_nP]]  (by state),
     where L = grad_jacobian + sens_jacobian_state and (P L)[i*nP + j, :] = L[j*nS + i, :]  (rows re-arranged to the by-state order)
Every equality is proved at fresh symbolic indices (extensionality), for any number of states and parameters.
The evaluators jacobian / grad / ode / diff_jacobian / grad_jacobian are used through their C01/C03 contracts (rank and shape)."""
import z3
from pyvc.driver import contract
from pyvc.lib import SList, SArr
from pyvc.values import ObjVal, Builtin, to_num, to_real

DET = 'pygom.model.deterministic:DeterministicOde.'
OU = 'pygom.model.ode_utils:'
I, R = z3.IntSort(), z3.RealSort()


def replay_c13(clause, m):
    from standins import c13
    r = c13.run('quick', 3)
    if r['failures']:
        f = r['failures'][0]
        return {'reproduced': True, 'input': f['case'], 'observed': f['observed'], 'found_by': 'bounded stand-in (random models, both arrangements, finite differences)'}
    return {'reproduced': False, 'searched': r['bound']}


def model(vc, nS, nP):
    J = vc.array('J', (nS, nS))
    G = vc.array('G', (nS, nP))
    f = vc.array('f', (nS,))
    cls = vc.cls('pygom.model.deterministic:DeterministicOde')
    sa = vc.call(vc.cls(OU + 'shapeAdjust'), nS, nP).value
    calls = []

    def ev(name, arr):
        def call(it, a, k):
            calls.append((name, a, k))
            return arr.copy()
        return Builtin(name, call)
    obj = ObjVal(cls, {'_stateList': SList(nS, lambda k: None), '_paramList': SList(nP, lambda k: None), '_SAUtil': sa,
                       'jacobian': ev('jacobian', J), 'grad': ev('grad', G), 'ode': ev('ode', f)})
    return obj, J, G, f, calls


def JS_plus_G(vc, J, S, G, nS, i, j, tag):
    """(J S + G)[i, j] as a named partial sum:  PS(nS) with PS(k+1) = PS(k) + J[i,k]*S(k,j)"""
    return lambda k: J.get((i, k)) * S(k, j)


def make_sensitivity(by_state, entry):
    @contract('C13/%s/by_state=%s' % (entry, by_state), ['C13', 'C07'], DET + entry, replay=replay_c13,
              also=[DET + 'eval_sensitivity', OU + 'vecToMatSens', OU + 'matToVecSens'])
    def sens(vc):
        nS, nP = vc.int('nS', ge=1), vc.int('nP', ge=1)
        obj, J, G, f, calls = model(vc, nS, nP)
        x = vc.array('x', (nS,))
        s = vc.array('s', (nS * nP,))
        t = vc.real('t')
        S = (lambda k, j: s.get((k * nP + j,))) if by_state else (lambda k, j: s.get((k + j * nS,)))
        if entry == 'sensitivity':
            out = vc.call(vc.func(DET + 'sensitivity'), obj, s, t, x, by_state)
            off = 0
        else:
            z = vc.array('z', (nS + nS * nP,))
            q = z3.Int('zq')
            vc.assume(z3.ForAll([q], z3.Implies(z3.And(q >= 0, q < nS), z.get((q,)) == x.get((q,)))))
            vc.assume(z3.ForAll([q], z3.Implies(z3.And(q >= 0, q < nS * nP), z.get((q + nS,)) == s.get((q,)))))
            out = vc.call(vc.func(DET + 'ode_and_sensitivity'), obj, z, t, by_state)
            off = nS
        vc.ensure('returns normally', out.returned)
        if not out.returned:
            return
        r = out.value
        vc.ensure('a vector with one entry per state (and per state-parameter pair)', isinstance(r, SArr) and r.rank == 1 and to_num(r.shape[0]) == off + nS * nP)
        i, j = z3.Int('q_i'), z3.Int('q_j')
        vc.assume(z3.And(i >= 0, i < nS, j >= 0, j < nP))
        vc.hint_blocks([(i, j), (j, i)])
        if entry != 'sensitivity':
            vc.ensure('the first block is the ODE right-hand side', r.get((i,)) == f.get((i,)))
            st_arg = [c for c in calls if c[0] == 'ode']
            vc.ensure('the evaluators are called with the state part of z', len(st_arg) >= 1)
        pos = (i * nP + j) if by_state else (i + j * nS)
        val = r.get((off + pos,))
        # val = (sum_k J[i,k] S[k,j]) + G[i,j]
        vc.ensure_sum_plus('entry (i,j) of the sensitivity block, in the documented layout, is (J S)[i,j] + G[i,j]', val, nS,
                           lambda k: J.get((i, k)) * S(k, j), G.get((i, j)))
        vc.canary('canary: reachable', z3.BoolVal(False))
    sens.__doc__ = "%s(by_state=%s) = vec(J S + G) in the documented layout" % (entry, by_state)
    return sens


for _bs in (False, True):
    for _e in ('sensitivity', 'ode_and_sensitivity'):
        make_sensitivity(_bs, _e)


def make_iv(entry):
    @contract('C13/%s' % entry, ['C13', 'C07'], DET + entry, replay=replay_c13, also=[DET + 'eval_sensitivityIV'])
    def sens_iv(vc):
        nS, nP = vc.int('nS', ge=1), vc.int('nP', ge=1)
        obj, J, G, f, calls = model(vc, nS, nP)
        x = vc.array('x', (nS,))
        s = vc.array('s', (nS * nP + nS * nS,))
        t = vc.real('t')
        S = lambda k, j: s.get((k + j * nS,))
        S0 = lambda k, j: s.get((nS * nP + k + j * nS,))
        if entry == 'sensitivityIV':
            out = vc.call(vc.func(DET + 'sensitivityIV'), obj, s, t, x)
        else:
            z = vc.array('z', (nS + nS * nP + nS * nS,))
            q = z3.Int('zq')
            vc.assume(z3.ForAll([q], z3.Implies(z3.And(q >= 0, q < nS), z.get((q,)) == x.get((q,)))))
            vc.assume(z3.ForAll([q], z3.Implies(z3.And(q >= 0, q < nS * nP + nS * nS), z.get((q + nS,)) == s.get((q,)))))
            out = vc.call(vc.func(DET + 'ode_and_sensitivityIV'), obj, z, t)
        vc.ensure('returns normally', out.returned)
        if not out.returned:
            return
        i, j, a = z3.Int('q_i'), z3.Int('q_j'), z3.Int('q_a')
        vc.assume(z3.And(i >= 0, i < nS, j >= 0, j < nP, a >= 0, a < nS))
        vc.hint_blocks([(j, i), (a, i), (i, j), (i, a)])
        if entry == 'sensitivityIV':
            ok = isinstance(out.value, tuple) and len(out.value) == 2
            vc.ensure('returns (parameter block, initial-value block)', ok)
            if not ok:
                return
            pblock, ivblock = out.value
            pget = lambda p: pblock.get((p,))
            vget = lambda p: ivblock.get((p,))
            vc.ensure('block lengths', z3.And(to_num(pblock.shape[0]) == nS * nP, to_num(ivblock.shape[0]) == nS * nS))
        else:
            r = out.value
            vc.ensure('a vector [f | parameter block | initial-value block]', isinstance(r, SArr) and r.rank == 1 and to_num(r.shape[0]) == nS + nS * nP + nS * nS)
            vc.ensure('the first block is the ODE right-hand side', r.get((i,)) == f.get((i,)))
            pget = lambda p: r.get((nS + p,))
            vget = lambda p: r.get((nS + nS * nP + p,))
        vc.ensure_sum_plus('parameter block entry (i,j) at i + j*nS is (J S)[i,j] + G[i,j]', pget(i + j * nS), nS, lambda k: J.get((i, k)) * S(k, j), G.get((i, j)))
        vc.ensure_sum_plus('initial-value block entry (i,a) at i + a*nS is (J S0)[i,a]', vget(i + a * nS), nS, lambda k: J.get((i, k)) * S0(k, a), z3.RealVal(0))
        vc.canary('canary: reachable', z3.BoolVal(False))
    sens_iv.__doc__ = "%s = [f | vecF(J S + G) | vecF(J S0)]" % entry
    return sens_iv


make_iv('sensitivityIV')
make_iv('ode_and_sensitivityIV')


@contract('C13/layout/vecToMatSens-matToVecSens', ['C13', 'C07', 'C20'], OU + 'vecToMatSens', also=[OU + 'matToVecSens'])
def layout(vc):
    """vecToMatSens(s)[i, j] = s[i + j*nS] (Fortran order) and matToVecSens is its inverse"""
    nS, nP = vc.int('nS', ge=1), vc.int('nP', ge=1)
    s = vc.array('s', (nS * nP,))
    M = vc.array('M', (nS, nP))
    i, j = z3.Int('q_i'), z3.Int('q_j')
    o1 = vc.call(vc.func(OU + 'vecToMatSens'), s, nS, nP)
    o2 = vc.call(vc.func(OU + 'matToVecSens'), M, nS, nP)
    vc.ensure('both return', o1.returned and o2.returned)
    vc.assume(z3.And(i >= 0, i < nS, j >= 0, j < nP))
    A, v = o1.value, o2.value
    vc.ensure('matrix shape (nS, nP)', z3.And(to_num(A.shape[0]) == nS, to_num(A.shape[1]) == nP))
    vc.ensure('vecToMatSens(s)[i,j] = s[i + j*nS]', A.get((i, j)) == s.get((i + j * nS,)))
    vc.ensure('matToVecSens(M)[i + j*nS] = M[i,j]', z3.And(to_num(v.shape[0]) == nS * nP, v.get((i + j * nS,)) == M.get((i, j))))
    vc.canary('canary: reachable', z3.BoolVal(False))


def make_jacobian(by_state):
    @contract('C13/ode_and_sensitivity_jacobian/by_state=%s' % by_state, ['C13'], DET + 'ode_and_sensitivity_jacobian', replay=replay_c13, max_paths=800)
    def jac(vc):
        nS, nP = vc.int('nS', ge=1), vc.int('nP', ge=1)
        obj, J, G, f, calls = model(vc, nS, nP)
        GJ = vc.array('GJ', (nS * nP, nS))
        SJ = vc.array('SJ', (nS * nP, nS))
        z = vc.array('z', (nS + nS * nP,))
        t = vc.real('t')
        obj.fields['grad_jacobian'] = Builtin('grad_jacobian', lambda it, a, k: GJ.copy())
        q = z3.Int('q_z')

        def sjs(it, args, kw):
            sp = args[1]
            i_, j_ = z3.Int(it.ctx._name('si')), z3.Int(it.ctx._name('sj'))
            src = (lambda i2, j2: z.get((nS + i2 * nP + j2,))) if by_state else (lambda i2, j2: z.get((nS + i2 + j2 * nS,)))
            it.ctx.oblige('pre(sens_jacobian_state): state part first, then the sensitivities in the by-parameter layout',
                          z3.And(to_num(sp.shape[0]) == nS + nS * nP,
                                 z3.ForAll([q], z3.Implies(z3.And(q >= 0, q < nS), sp.get((q,)) == z.get((q,)))),
                                 z3.ForAll([i_, j_], z3.Implies(z3.And(i_ >= 0, i_ < nS, j_ >= 0, j_ < nP), sp.get((nS + i_ + j_ * nS,)) == src(i_, j_)))))
            return SJ.copy()
        vc.summary(DET + 'sens_jacobian_state', sjs)
        out = vc.call(vc.func(DET + 'ode_and_sensitivity_jacobian'), obj, z, t, by_state)
        vc.ensure('returns normally', out.returned)
        if not out.returned:
            return
        M = out.value
        N = nS + nS * nP
        vc.ensure('a square matrix over [x | s]', isinstance(M, SArr) and M.rank == 2 and z3.And(to_num(M.shape[0]) == N, to_num(M.shape[1]) == N))
        i, j, i2, j2, a, b = (z3.Int(n) for n in ('q_i', 'q_j', 'q_i2', 'q_j2', 'q_a', 'q_b'))
        vc.assume(z3.And(i >= 0, i < nS, j >= 0, j < nP, i2 >= 0, i2 < nS, j2 >= 0, j2 < nP, a >= 0, a < nS, b >= 0, b < nS))
        pos = (lambda ii, jj: nS + ii * nP + jj) if by_state else (lambda ii, jj: nS + ii + jj * nS)
        vc.hint_blocks([(i, j), (j, i), (i2, j2), (j2, i2)])
        vc.ensure('d f_a / d x_b = J[a, b]', M.get((a, b)) == J.get((a, b)), isolated=True)
        vc.ensure('d f_a / d S[i, j] = 0', M.get((a, pos(i, j))) == 0, isolated=True)
        vc.ensure('d (J S + G)[i, j] / d S[i2, j2] = J[i, i2] * [j == j2]   (rows and columns in the documented layout)',
                  M.get((pos(i, j), pos(i2, j2))) == z3.If(j == j2, J.get((i, i2)), 0.0), isolated=True)
        vc.ensure('d (J S + G)[i, j] / d x_b = (grad_jacobian + sens_jacobian_state)[j*nS + i, b]   (row taken from the by-parameter block)',
                  M.get((pos(i, j), b)) == GJ.get((j * nS + i, b)) + SJ.get((j * nS + i, b)), isolated=True)
        vc.canary('canary: reachable', z3.BoolVal(False))
    jac.__doc__ = "ode_and_sensitivity_jacobian(by_state=%s): block layout of the Jacobian of [f | vec(J S + G)]" % by_state
    return jac


make_jacobian(False)
make_jacobian(True)


@contract('C13/sens_jacobian_state', ['C13'], DET + 'sens_jacobian_state', replay=replay_c13, also=[DET + 'eval_sens_jacobian_state'])
def sens_jac_state(vc):
    """sens_jacobian_state(z, t)[j*nS + i, a] = sum_b diff_jacobian[i*nS + a, b] * S[b, j]   with S[b, j] = z[nS + b + j*nS];
    with diff_jacobian[i*nS + a, b] = d J[i,a] / d x_b (C03) and the symmetry of second derivatives this is d (J S)[i,j] / d x_a"""
    nS, nP = vc.int('nS', ge=1), vc.int('nP', ge=1)
    obj, J, G, f, calls = model(vc, nS, nP)
    DJ = vc.array('DJ', (nS * nS, nS))
    obj.fields['diff_jacobian'] = Builtin('diff_jacobian', lambda it, a, k: DJ.copy())
    z = vc.array('z', (nS + nS * nP,))
    t = vc.real('t')
    out = vc.call(vc.func(DET + 'sens_jacobian_state'), obj, z, t)
    vc.ensure('returns normally', out.returned)
    if not out.returned:
        return
    M = out.value
    vc.ensure('shape (nS*nP, nS)', isinstance(M, SArr) and M.rank == 2 and z3.And(to_num(M.shape[0]) == nS * nP, to_num(M.shape[1]) == nS))
    i, j, a = z3.Int('q_i'), z3.Int('q_j'), z3.Int('q_a')
    vc.assume(z3.And(i >= 0, i < nS, j >= 0, j < nP, a >= 0, a < nS))
    vc.hint_blocks([(i, j), (j, i), (i, a), (j, i * nS + a), (j * nS + i, a)])
    vc.ensure_sum_plus('row j*nS + i, column a holds sum_b DJ[i*nS + a, b] * S[b, j]', M.get((j * nS + i, a)), nS,
                       lambda b: DJ.get((i * nS + a, b)) * z.get((nS + b + j * nS,)), z3.RealVal(0))
    vc.canary('canary: reachable', z3.BoolVal(False))


@contract('C13/ode_and_sensitivityIV_jacobian', ['C13'], DET + 'ode_and_sensitivityIV_jacobian', replay=replay_c13, max_paths=800, timeout_ms=60000)
def jac_iv(vc):
    """Jacobian of [f | vecF(J S + G) | vecF(J S0)] over [x | s | s0]: the derivative blocks with respect to the sensitivities are
    I (x) J (block diagonal in the parameter / initial-value index), the cross blocks vanish, the x-column of the initial-value block is
    sum_b diff_jacobian[i*nS + a', b] * S0[b, c], and the x-column of the parameter block is grad_jacobian + sens_jacobian_state"""
    nS, nP = vc.int('nS', ge=1), vc.int('nP', ge=1)
    obj, J, G, f, calls = model(vc, nS, nP)
    GJ = vc.array('GJ', (nS * nP, nS))
    SJ = vc.array('SJ', (nS * nP, nS))
    DJ = vc.array('DJ', (nS * nS, nS))
    N = nS + nS * nP + nS * nS
    z = vc.array('z', (N,))
    t = vc.real('t')
    obj.fields['grad_jacobian'] = Builtin('grad_jacobian', lambda it, a, k: GJ.copy())
    obj.fields['diff_jacobian'] = Builtin('diff_jacobian', lambda it, a, k: DJ.copy())
    q = z3.Int('q_z')

    def sjs(it, args, kw):
        sp = args[1]
        it.ctx.oblige('pre(sens_jacobian_state): the state and parameter-sensitivity part of z',
                      z3.And(to_num(sp.shape[0]) == nS + nS * nP, z3.ForAll([q], z3.Implies(z3.And(q >= 0, q < nS + nS * nP), sp.get((q,)) == z.get((q,))))))
        return SJ.copy()
    vc.summary(DET + 'sens_jacobian_state', sjs)
    out = vc.call(vc.func(DET + 'ode_and_sensitivityIV_jacobian'), obj, z, t)
    vc.ensure('returns normally', out.returned)
    if not out.returned:
        return
    M = out.value
    vc.ensure('a square matrix over [x | s | s0]', isinstance(M, SArr) and M.rank == 2 and z3.And(to_num(M.shape[0]) == N, to_num(M.shape[1]) == N))
    i, j, i2, j2, a, b, c, c2 = (z3.Int(n) for n in ('q_i', 'q_j', 'q_i2', 'q_j2', 'q_a', 'q_b', 'q_c', 'q_c2'))
    vc.assume(z3.And(i >= 0, i < nS, j >= 0, j < nP, i2 >= 0, i2 < nS, j2 >= 0, j2 < nP, a >= 0, a < nS, b >= 0, b < nS, c >= 0, c < nS, c2 >= 0, c2 < nS))
    vc.hint_blocks([(i, j), (j, i), (i2, j2), (j2, i2), (c, i), (c2, i2), (i, a), (c, i * nS + a), (c * nS + i, a), (i, c), (i2, c2)])
    ps = lambda ii, jj: nS + ii + jj * nS                 # S[ii, jj]
    p0 = lambda ii, cc: nS + nS * nP + ii + cc * nS       # S0[ii, cc]
    E = lambda name, g: vc.ensure(name, g, isolated=True)
    E('d f_a / d x_b = J[a, b]', M.get((a, b)) == J.get((a, b)))
    E('d f_a / d S = 0 and d f_a / d S0 = 0', z3.And(M.get((a, ps(i, j))) == 0, M.get((a, p0(i, c))) == 0))
    E('d (J S + G)[i, j] / d S[i2, j2] = J[i, i2] * [j == j2]', M.get((ps(i, j), ps(i2, j2))) == z3.If(j == j2, J.get((i, i2)), 0.0))
    E('d (J S + G)[i, j] / d S0 = 0', M.get((ps(i, j), p0(i2, c))) == 0)
    E('d (J S + G)[i, j] / d x_b = (grad_jacobian + sens_jacobian_state)[j*nS + i, b]', M.get((ps(i, j), b)) == GJ.get((j * nS + i, b)) + SJ.get((j * nS + i, b)))
    E('d (J S0)[i, c] / d S0[i2, c2] = J[i, i2] * [c == c2]', M.get((p0(i, c), p0(i2, c2))) == z3.If(c == c2, J.get((i, i2)), 0.0))
    E('d (J S0)[i, c] / d S = 0', M.get((p0(i, c), ps(i2, j2))) == 0)
    vc.ensure_sum_plus('d (J S0)[i, c] / d x_a = sum_b diff_jacobian[i*nS + a, b] * S0[b, c]', M.get((p0(i, c), a)), nS,
                       lambda bb: DJ.get((i * nS + a, bb)) * z.get((p0(bb, c),)), z3.RealVal(0))
    vc.canary('canary: reachable', z3.BoolVal(False))


@contract('C13/ode_and_sensitivityIV_jacobian/no-parameters', ['C13'], DET + 'ode_and_sensitivityIV_jacobian', replay=replay_c13, max_paths=800, timeout_ms=60000)
def jac_iv_no_param(vc):
    """a model without parameters: the Jacobian of [f | vecF(J S0)] over [x | s0] is [[J, 0], [A, I (x) J]] with A the x-derivative of J S0"""
    nS = vc.int('nS', ge=1)
    nP = 0
    obj, J, G, f, calls = model(vc, nS, nP)
    DJ = vc.array('DJ', (nS * nS, nS))
    N = nS + nS * nS
    z = vc.array('z', (N,))
    t = vc.real('t')
    obj.fields['diff_jacobian'] = Builtin('diff_jacobian', lambda it, a, k: DJ.copy())
    out = vc.call(vc.func(DET + 'ode_and_sensitivityIV_jacobian'), obj, z, t)
    vc.ensure('returns normally', out.returned)
    if not out.returned:
        return
    M = out.value
    vc.ensure('a square matrix over [x | s0]', isinstance(M, SArr) and M.rank == 2 and z3.And(to_num(M.shape[0]) == N, to_num(M.shape[1]) == N))
    i, i2, a, b, c, c2 = (z3.Int(n) for n in ('q_i', 'q_i2', 'q_a', 'q_b', 'q_c', 'q_c2'))
    vc.assume(z3.And(i >= 0, i < nS, i2 >= 0, i2 < nS, a >= 0, a < nS, b >= 0, b < nS, c >= 0, c < nS, c2 >= 0, c2 < nS))
    vc.hint_blocks([(c, i), (c2, i2), (i, a), (c, i * nS + a), (c * nS + i, a), (i, c), (i2, c2)])
    p0 = lambda ii, cc: nS + ii + cc * nS
    E = lambda name, g: vc.ensure(name, g, isolated=True)
    E('d f_a / d x_b = J[a, b]', M.get((a, b)) == J.get((a, b)))
    E('d f_a / d S0 = 0', M.get((a, p0(i, c))) == 0)
    E('d (J S0)[i, c] / d S0[i2, c2] = J[i, i2] * [c == c2]', M.get((p0(i, c), p0(i2, c2))) == z3.If(c == c2, J.get((i, i2)), 0.0))
    vc.ensure_sum_plus('d (J S0)[i, c] / d x_a = sum_b diff_jacobian[i*nS + a, b] * S0[b, c]', M.get((p0(i, c), a)), nS,
                       lambda bb: DJ.get((i * nS + a, bb)) * z.get((p0(bb, c),)), z3.RealVal(0))
    vc.canary('canary: reachable', z3.BoolVal(False))
