"""C19 -- R-style distribution helpers are the distributions they name.

Every d/p/q wrapper must return scipy.stats.<family>.<pdf|pmf / cdf / ppf> (log variant when
log=True) at the same point with R's parameterisation; every seeded generator must draw from
RandomState(seed) only.  The reference functions are uninterpreted (scipy is the reference)."""
import z3
from pyvc.driver import contract
from pyvc.lib import SArr, uf
from pyvc.lib_scipy import stats_ref, FAMILIES
from pyvc.values import to_real

M = 'pygom.utilR.distn:'

# function -> (family, kind, argument names after the point, canonical-parameter builder)
def _inv(v):
    return 1.0 / v if isinstance(v, (int, float)) else 1 / to_real(v)


def _sub(a, b):
    return a - b if isinstance(a, (int, float)) and isinstance(b, (int, float)) else to_real(a) - to_real(b)


TABLE = {
    'exp':   ('expon', ['rate'], lambda a: {'loc': 0, 'scale': _inv(a['rate'])}, {'rate': 1.0}),
    'gamma': ('gamma', ['shape', 'rate'], lambda a: {'a': a['shape'], 'loc': 0, 'scale': _inv(a['rate'])}, {'rate': 1.0}),
    'norm':  ('norm', ['mean', 'sd'], lambda a: {'loc': a['mean'], 'scale': a['sd']}, {'mean': 0, 'sd': 1}),
    'chisq': ('chi2', ['df'], lambda a: {'df': a['df'], 'loc': 0, 'scale': 1}, {}),
    'unif':  ('uniform', ['min', 'max'], lambda a: {'loc': a['min'], 'scale': _sub(a['max'], a['min'])}, {'min': 0.0, 'max': 1.0}),
    'beta':  ('beta', ['shape1', 'shape2'], lambda a: {'a': a['shape1'], 'b': a['shape2'], 'loc': 0, 'scale': 1}, {}),
    'pois':  ('poisson', ['mu'], lambda a: {'mu': a['mu'], 'loc': 0}, {'mu': 1.0}),
    'binom': ('binom', ['size', 'prob'], lambda a: {'n': a['size'], 'p': a['prob'], 'loc': 0}, {}),
}
PROVIDED = {
    'd': ['exp', 'gamma', 'norm', 'chisq', 'unif', 'beta', 'pois', 'binom'],
    'p': ['exp', 'gamma', 'norm', 'chisq', 'unif', 'pois', 'binom'],
    'q': ['exp', 'gamma', 'norm', 'chisq', 'unif', 'beta', 'pois', 'binom'],
}
SCIPY_NAME = {'expon': 'expon', 'gamma': 'gamma', 'norm': 'norm', 'chi2': 'chi2', 'uniform': 'uniform', 'beta': 'beta',
              'poisson': 'poisson', 'binom': 'binom'}


def _method(kind, family, log):
    disc = FAMILIES[family][1]
    if kind == 'd':
        base = 'pmf' if disc else 'pdf'
    elif kind == 'p':
        base = 'cdf'
    else:
        return 'ppf'
    return ('log' + base) if log else base


def _native_dpq(fname, kind, dist, log, args, use_defaults):
    """real function vs scipy.stats at concrete arguments"""
    import numpy as np
    import scipy.stats as st
    from contracts import native
    mod = native.imp('pygom.utilR.distn')
    family, pnames, canon, defaults = TABLE[dist]
    f = getattr(mod, fname)
    call_args = [args['x']] + ([] if use_defaults else [args[p] for p in pnames])
    kw = {'log': True} if log else {}
    full = dict(args)
    if use_defaults:
        full.update(defaults)
    cp = canon({k: float(v) for k, v in full.items() if k != 'x'})
    ref = getattr(getattr(st, family), _method(kind, family, log))(args['x'], **cp)
    try:
        got = f(*call_args, **kw)
    except Exception as e:
        return {'reproduced': True, 'input': {'call': fname, 'args': call_args, 'kw': kw}, 'observed': "raises %s: %s" % (type(e).__name__, e), 'expected': float(ref)}
    ok = (np.isnan(ref) and np.isnan(got)) or np.isclose(got, ref, rtol=1e-9, atol=1e-12)
    return {'reproduced': not bool(ok), 'input': {'call': fname, 'args': call_args, 'kw': kw}, 'observed': float(got), 'expected': float(ref)}


def _sample_args(dist):
    base = {'exp': {'x': 0.7, 'rate': 2.5}, 'gamma': {'x': 1.3, 'shape': 2.2, 'rate': 1.7}, 'norm': {'x': 0.4, 'mean': 1.1, 'sd': 2.3},
            'chisq': {'x': 2.6, 'df': 3.0}, 'unif': {'x': 0.9, 'min': 0.5, 'max': 2.5}, 'beta': {'x': 0.3, 'shape1': 2.0, 'shape2': 3.5},
            'pois': {'x': 3, 'mu': 2.4}, 'binom': {'x': 3, 'size': 7, 'prob': 0.35}}[dist]
    return dict(base)


def _make_dpq(kind, dist, log, use_defaults):
    family, pnames, canon, defaults = TABLE[dist]
    fname = kind + dist
    cid = "C19/%s%s%s" % (fname, '/log' if log else '', '/defaults' if use_defaults else '')

    def replay(clause, m):
        args = _sample_args(dist)
        if kind == 'q':
            args['x'] = 0.37
        # the model's values are used when they are in the support; the sample point otherwise
        r = _native_dpq(fname, kind, dist, log, args, use_defaults)
        r['model'] = m
        return r

    def run(vc):
        x = vc.real('x')
        a = {p: vc.real(p) for p in pnames}
        vc.require('parameters positive', z3.And(*[v > 0 for v in a.values()]) if a else z3.BoolVal(True))
        if dist == 'unif':
            vc.require('min < max', a['min'] < a['max'])
        kw = {}
        if log:
            kw['log'] = True
        if use_defaults:
            out = vc.call(vc.func(M + fname), x, **kw)
            full = dict(defaults)
        else:
            out = vc.call(vc.func(M + fname), x, *[a[p] for p in pnames], **kw)
            full = a
        vc.ensure('returns-normally (no exception for valid arguments)', out.returned)
        if not out.returned:
            return
        ref = stats_ref(family, _method(kind, family, log), x, canon(full))
        vc.ensure('result = scipy.stats.%s.%s with R parameterisation' % (family, _method(kind, family, log)),
                  to_real(out.value) == ref if isinstance(out.value, z3.ExprRef) else z3.BoolVal(False))
        vc.canary('canary: result is not a constant', to_real(out.value) == 0 if isinstance(out.value, z3.ExprRef) else z3.BoolVal(False))
    run.__doc__ = "%s = scipy.stats.%s.%s (log=%s, defaults=%s)" % (fname, family, _method(kind, family, log), log, use_defaults)
    contract(cid, ['C19'], M + fname, replay=replay)(run)


for _kind, _dists in PROVIDED.items():
    for _d in _dists:
        for _log in ((False, True) if _kind in ('d', 'p') else (False,)):
            _make_dpq(_kind, _d, _log, False)
        if TABLE[_d][3] and len(TABLE[_d][3]) == len(TABLE[_d][1]):
            _make_dpq(_kind, _d, False, True)


# ---------------------------------------------------------------------------------------------
# negative binomial: mean/size form agrees with the (n, p) form

def _log_axioms(vc, terms_pos):
    """instances of Log(a/b) = Log a - Log b and Log(ab) = Log a + Log b for positive terms"""
    Log = uf('Log', z3.RealSort(), z3.RealSort())
    for a, b in terms_pos:
        vc.assume(Log(a / b) == Log(a) - Log(b))


@contract('C19/dnbinom-mu-form', ['C19', 'C14'], M + 'dnbinom', also=[M + 'nb2pmf'])
def dnbinom_mu(vc):
    """dnbinom(x, size, mu=mu, log=True) equals the closed form of nbinom.logpmf(x; n=size,
    p=size/(size+mu)); the non-log form is Exp of it."""
    Log = uf('Log', z3.RealSort(), z3.RealSort())
    G = uf('Gammaln', z3.RealSort(), z3.RealSort())
    Exp = uf('Exp', z3.RealSort(), z3.RealSort())
    x, k, mu = vc.real('x'), vc.real('size'), vc.real('mu')
    vc.require('x >= 0, size > 0, mu > 0', z3.And(x >= 0, k > 0, mu > 0))
    p = k / (k + mu)
    _log_axioms(vc, [(k, k + mu), (mu, k + mu)])
    closed = G(k + x) - G(x + 1) - G(k) + k * Log(p) + x * Log(1 - p)
    vc.assume(1 - p == mu / (k + mu))     # field identity, checked below as its own obligation
    vc.ensure('field identity 1 - k/(k+mu) = mu/(k+mu)', 1 - k / (k + mu) == mu / (k + mu))
    for log in (True, False):
        out = vc.call(vc.func(M + 'dnbinom'), x, k, mu=mu, log=log)
        vc.ensure('mu-form returns normally (log=%s)' % log, out.returned)
        if not out.returned:
            return
        want = closed if log else Exp(closed)
        vc.ensure('mu-form = closed form of nbinom(n=size, p=size/(size+mu)) (log=%s)' % log, out.value == want)
    vc.canary('canary: closed form is not trivially equal to 0', closed == 0)


@contract('C19/dnbinom-prob-form', ['C19'], M + 'dnbinom')
def dnbinom_prob(vc):
    """dnbinom(x, size, prob) = scipy.stats.nbinom.pmf / logpmf"""
    x, k, p = vc.real('x'), vc.real('size'), vc.real('prob')
    vc.require('valid', z3.And(x >= 0, k > 0, p > 0, p <= 1))
    for log in (False, True):
        out = vc.call(vc.func(M + 'dnbinom'), x, k, p, log=log)
        vc.ensure('prob-form returns normally (log=%s)' % log, out.returned)
        if not out.returned:
            return
        ref = stats_ref('nbinom', 'logpmf' if log else 'pmf', x, {'n': k, 'p': p, 'loc': 0})
        vc.ensure('prob-form = scipy.stats.nbinom.%s' % ('logpmf' if log else 'pmf'), out.value == ref)
    out = vc.call(vc.func(M + 'dnbinom'), x, k)
    vc.ensure('neither prob nor mu is rejected', not out.returned)
    out = vc.call(vc.func(M + 'dnbinom'), x, k, p, mu=p)
    vc.ensure('both prob and mu is rejected', not out.returned)


# ---------------------------------------------------------------------------------------------
# seeded generators

GEN = {
    # R name: (numpy sampler family, parameter names, draw-parameter builder)
    'exp':   ('exponential', ['rate'], lambda a: [_inv(a['rate'])]),
    'gamma': ('gamma', ['shape', 'rate'], lambda a: [a['shape'], _inv(a['rate'])]),
    'norm':  ('normal', ['mean', 'sd'], lambda a: [a['mean'], a['sd']]),
    'chisq': ('chisquare', ['df'], lambda a: [a['df']]),
    'unif':  ('uniform', ['min', 'max'], lambda a: [a['min'], a['max']]),
    'pois':  ('poisson', ['mu'], lambda a: [a['mu']]),
    'binom': ('binomial', ['size', 'prob'], lambda a: [a['size'], a['prob']]),
}
NP_NAME = {'exponential': 'exponential', 'gamma': 'gamma', 'normal': 'normal', 'chisquare': 'chisquare',
           'uniform': 'uniform', 'poisson': 'poisson', 'binomial': 'binomial'}


def _native_seeded(fname, seed, n):
    import numpy as np
    from contracts import native
    mod = native.imp('pygom.utilR.distn')
    args = {'rexp': (2.0,), 'rgamma': (2.0, 1.5), 'rnorm': (1.0, 2.0), 'rchisq': (3.0,), 'runif': (0.5, 2.5),
            'rpois': (2.5,), 'rbinom': (7, 0.4)}[fname]
    f = getattr(mod, fname)
    np.random.seed(12345)
    a = f(n, *args, seed=seed)
    st1 = np.random.get_state()[1].copy()
    np.random.seed(54321)
    b = f(n, *args, seed=seed)
    np.random.seed(12345)
    st0 = np.random.get_state()[1].copy()
    same = bool(np.all(np.asarray(a) == np.asarray(b)))
    untouched = bool(np.all(st0 == st1))
    return {'reproduced': not (same and untouched), 'input': {'call': fname, 'n': n, 'args': args, 'seed': seed},
            'observed': {'two calls with the same seed equal': same, 'global generator untouched': untouched}}


def _make_gen(dist):
    family, pnames, build = GEN[dist]
    fname = 'r' + dist

    def replay(clause, m):
        for seed in [m.get('seed'), 1, 7, 0, 12345]:
            for n in (1, 3):
                if isinstance(seed, int) and not isinstance(seed, bool) and 0 <= seed < 2 ** 32:
                    r = _native_seeded(fname, seed, n)
                    if r['reproduced']:
                        return r
        return {'reproduced': False, 'tried': 'seeds from the model and {0,1,7,12345}, n in {1,3}'}

    def run(vc):
        n = vc.int('n', ge=1)
        seed = vc.int('seed', ge=0)
        a = {p: vc.real(p) for p in pnames}
        vc.require('parameters positive', z3.And(*[v > 0 for v in a.values()]))
        out = vc.call(vc.func(M + fname), n, *[a[p] for p in pnames], seed=seed)
        vc.ensure('returns-normally', out.returned)
        if not out.returned:
            return
        log = vc.it.rng_log
        vc.ensure('draws only from RandomState(seed): global generator and OS entropy untouched',
                  all(entry[0] == 'seeded' for entry in log) and len(log) == 1)
        stream = uf('SeededStream', z3.IntSort(), z3.IntSort())(seed)
        params = [to_real(p) for p in build(a)]
        D = uf('Draw_' + family, *([z3.IntSort()] * 3 + [z3.RealSort()] * len(params) + [z3.RealSort()]))
        e0 = 0
        v = out.value
        if isinstance(v, SArr):
            j = z3.Int('j')
            vc.ensure('n > 1: the n draws of RandomState(seed).%s' % family,
                      z3.And(v.shape[0] == n,
                             z3.ForAll([j], z3.Implies(z3.And(j >= 0, j < n), v.get((j,)) == D(stream, 0, j, *params)))))
        else:
            vc.ensure('n = 1: first draw of RandomState(seed).%s' % family, v == D(stream, 0, 0, *params))
        vc.canary('canary: draw is not a constant', (v.get((z3.IntVal(0),)) if isinstance(v, SArr) else v) == 0)
    run.__doc__ = "%s(n, ..., seed=int) = RandomState(seed).%s(..., size=n); no other generator is touched" % (fname, family)
    contract('C19/%s-seeded' % fname, ['C19'], M + fname, replay=replay, also=[M + 'test_seed'])(run)


for _d in GEN:
    _make_gen(_d)
