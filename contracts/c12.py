"""C12 -- equivalent ways of specifying a model give the same model.

Every route is proved to append to the model exactly the NORMALISED process it was given:
  normal form of a process = (rate, [(type, origin, destination, magnitude)])
so two models given the same set of processes through different routes have event lists that are equal up to order
(and equal lists of explicit ODE terms); by the C01 contract the ODE is a SUM over the event list, and a finite sum does
not depend on the order (Lean lemma sum_perm), hence the same ODE and the same evaluations.

Under contract: Transition.__init__ / _setTransitionType (incl. a birth named by origin or by destination and the string
aliases), Event.__init__ (the four documented rate cases and the rejected combinations, any number of member transitions),
add_transition, add_birth_death, add_event (both input kinds; the caller's objects are not modified), add_ode, and the list
setters (items are added in order, each exactly once)."""
import z3
from pyvc.driver import contract
from pyvc.lib import SList, SMutList
from pyvc.values import Model, SName, SOpt, ObjVal, EnumMember, Builtin, Unsupported, PyRaise, ExcVal, MaybeUnbound, to_num
from contracts.c08 import Ghost, GhostList, GhostDict

TR = 'pygom.model.transition:'
BASE = 'pygom.model.base_ode_model:'
I, R, B = z3.IntSort(), z3.RealSort(), z3.BoolSort()


def names(vc, *ns):
    return [SName(vc.int(n)) for n in ns]


def ttype(obj):
    t = obj.fields.get('_transition_type')
    return t.name if isinstance(t, EnumMember) else None


def same_name(a, b):
    if isinstance(a, SName) and isinstance(b, SName):
        return a.term == b.term
    return a is b or a == b


def make_transition_nf(ty, alias):
    @contract('C12/Transition/%s/%s' % (ty, alias), ['C12', 'C01'], TR + 'Transition.__init__', also=[TR + 'Transition._setTransitionType'])
    def transition_nf(vc):
        o, d, eq, mag = names(vc, 'origin', 'destination', 'equation', 'magnitude')
        cls = vc.cls(TR + 'Transition')
        tcls = vc.cls(TR + 'TransitionType')
        tt = tcls.attrs[ty] if alias == 'enum' else alias
        vc.require('origin and destination differ', o.term != d.term)
        variants = {'T': [dict(origin=o, destination=d)], 'D': [dict(origin=o)], 'ODE': [dict(origin=o)],
                    'B': [dict(destination=d), dict(origin=d)]}[ty]
        made = []
        for kw in variants:
            out = vc.call(cls, equation=eq, transition_type=tt, magnitude=mag, **kw)
            vc.ensure('accepted (%s)' % sorted(kw), out.returned)
            if not out.returned:
                return
            t = out.value
            made.append(t)
            vc.ensure('type is %s' % ty, ttype(t) == ty)
            vc.ensure('equation and magnitude are kept as given', same_name(t.fields.get('_equation'), eq) is not False and same_name(t.fields.get('_magnitude'), mag) is not False
                      and z3.And(t.fields['_equation'].term == eq.term, t.fields['_magnitude'].term == mag.term))
            if ty in ('T', 'D', 'ODE'):
                vc.ensure('origin is the state given', isinstance(t.fields.get('_orig_state'), SName) and t.fields['_orig_state'].term == o.term)
            if ty == 'T':
                vc.ensure('destination is the state given', isinstance(t.fields.get('_dest_state'), SName) and t.fields['_dest_state'].term == d.term)
            if ty in ('D', 'ODE'):
                vc.ensure('no destination is recorded', '_dest_state' not in t.fields)
            if ty == 'B':
                vc.ensure('a birth records the state it feeds as destination, whichever way it was named',
                          isinstance(t.fields.get('_dest_state'), SName) and t.fields['_dest_state'].term == d.term and '_orig_state' not in t.fields)
        if ty == 'B':
            a, b = made
            vc.ensure('birth by origin and birth by destination are the same process',
                      ttype(a) == ttype(b) and z3.And(a.fields['_dest_state'].term == b.fields['_dest_state'].term,
                                                     a.fields['_magnitude'].term == b.fields['_magnitude'].term,
                                                     a.fields['_equation'].term == b.fields['_equation'].term))
        vc.canary('canary: reachable', z3.BoolVal(False))
    transition_nf.__doc__ = "Transition(..., transition_type=%r): the normal form (type, origin, destination, magnitude, equation) is what was given" % alias
    return transition_nf


for _ty, _aliases in (('T', ('T', 't', 'between states', 'enum')), ('B', ('B', 'birth process', 'enum')), ('D', ('D', 'death process', 'enum')),
                      ('ODE', ('ODE', 'ode equation', 'enum'))):
    for _a in _aliases:
        make_transition_nf(_ty, _a)


@contract('C12/Transition/rejections', ['C12'], TR + 'Transition.__init__')
def transition_rejections(vc):
    """inputs that do not describe a process of the stated type are rejected (no silent re-interpretation)"""
    o, d, eq = names(vc, 'origin', 'destination', 'equation')
    cls = vc.cls(TR + 'Transition')
    for label, kw in (('T without destination', dict(origin=o, transition_type='T')), ('T without origin', dict(destination=d, transition_type='T')),
                      ('T with origin == destination', dict(origin=o, destination=o, transition_type='T')),
                      ('D with a destination', dict(origin=o, destination=d, transition_type='D')), ('D without origin', dict(transition_type='D')),
                      ('B without any state', dict(transition_type='B')), ('ODE with a destination', dict(origin=o, destination=d, transition_type='ODE')),
                      ('unknown type string', dict(origin=o, destination=d, transition_type='X'))):
        out = vc.call(cls, equation=eq, **kw)
        vc.ensure('rejected: ' + label, not out.returned)
    vc.canary('canary: reachable', z3.BoolVal(False))


# ---------------------------------------------------------------------------------------------
# Event.__init__

def sym_transition(vc, cls, tcls, k, has_eq, eqn, ty='T'):
    return ObjVal(cls, {'_transition_type': tcls.attrs[ty], '_orig_state': SName(z3.Int('o%s' % k)), '_dest_state': SName(z3.Int('d%s' % k)),
                        '_magnitude': SName(z3.Int('m%s' % k)), '_equation': eqn, 'ID': None, 'name': None})


@contract('C12/Event/single-transition', ['C12', 'C01'], TR + 'Event.__init__')
def event_single(vc):
    """one member transition: the event's rate is the one rate supplied (on the transition or on the event); both or neither is rejected"""
    cls, tcls, ecls = vc.cls(TR + 'Transition'), vc.cls(TR + 'TransitionType'), vc.cls(TR + 'Event')
    eq, rate = names(vc, 'equation', 'rate')
    for has_eq in (True, False):
        for has_rate in (True, False):
            for as_list in (True, False):
                t = sym_transition(vc, cls, tcls, 0, has_eq, eq if has_eq else None)
                snapshot = dict(t.fields)
                out = vc.call(ecls, [t] if as_list else t, rate if has_rate else None)
                label = 'equation on the member: %s, rate on the event: %s, %s' % (has_eq, has_rate, 'list' if as_list else 'bare transition')
                if has_eq != has_rate:
                    vc.ensure('accepted (%s)' % label, out.returned)
                    if out.returned:
                        ev = out.value
                        want = eq if has_eq else rate
                        vc.ensure('rate is the one supplied (%s)' % label, isinstance(ev.fields.get('rate'), SName) and ev.fields['rate'].term == want.term)
                        tl = ev.fields.get('transition_list')
                        vc.ensure('the member list holds exactly that transition (%s)' % label, isinstance(tl, list) and len(tl) == 1 and tl[0] is t)
                else:
                    vc.ensure('rejected (%s)' % label, not out.returned)
                vc.ensure('the transition object is not modified (%s)' % label, t.fields == snapshot)
    vc.canary('canary: reachable', z3.BoolVal(False))


def make_event_multi(has_rate):
    @contract('C12/Event/multi-transition/rate-on-event=%s' % has_rate, ['C12', 'C01'], TR + 'Event.__init__', max_paths=2000)
    def event_multi(vc):
        cls, tcls, ecls = vc.cls(TR + 'Transition'), vc.cls(TR + 'TransitionType'), vc.cls(TR + 'Event')
        K = vc.int('K', ge=2)
        rate = SName(vc.int('rate'))
        heq = vc.fn('member_has_equation', I, B)
        meq = vc.fn('member_equation', I, I)
        CNT = vc.fn('EqCount', I, I)       # number of members with an equation among the first k
        k_ = z3.Int('cnt_k')
        vc.assume(CNT(0) == 0)
        vc.assume(z3.ForAll([k_], z3.Implies(k_ >= 0, CNT(k_ + 1) == CNT(k_) + z3.If(heq(k_), 1, 0)), patterns=[CNT(k_ + 1)]))
        vc.assume(z3.ForAll([k_], z3.Implies(k_ >= 0, z3.And(CNT(k_) >= 0, CNT(k_) <= k_)), patterns=[CNT(k_)]))    # (follows by induction)

        def member(k):
            return ObjVal(cls, {'_transition_type': tcls.attrs['T'], '_orig_state': SName(z3.Int('o')), '_dest_state': SName(z3.Int('d')),
                                '_magnitude': SName(z3.Int('m')), '_equation': SOpt(z3.Not(heq(k)), SName(meq(k))), 'ID': None, 'name': None})
        tl = SList(K, member)
        F = TR + 'Event.__init__'
        vc.loop(F, 0, lambda view, k: [])
        vc.loop(F, 1, lambda view, k: [])

        def inv2(view, k):
            n_eq = view['n_eq']
            out = [('n_eq counts the members with an equation', to_num(n_eq) == CNT(k))]
            mr = view.get('member_rate')
            j = z3.Int('mr_j')
            if mr is None:
                return out       # before the loop: not bound, and CNT(0) = 0
            bound = True
            if isinstance(mr, MaybeUnbound):
                bound, mr = mr.cond, mr.value
            out.append(('member_rate is bound as soon as one member had an equation', z3.Implies(CNT(k) >= 1, bound) if bound is not True else True))
            if isinstance(mr, SOpt):
                out.append(('member_rate is a real equation, not None', z3.Implies(CNT(k) >= 1, z3.Not(mr.isnone))))
                mr = mr.val
            out.append(('member_rate is the equation of the last member that has one',
                        z3.Implies(CNT(k) >= 1, z3.Exists([j], z3.And(j >= 0, j < k, heq(j), mr.term == meq(j), CNT(j + 1) == CNT(k))))))
            return out

        def havoc_mr(it, old):
            return MaybeUnbound(it.ctx.fresh_bool('member_rate_bound'), SName(it.ctx.fresh_int('member_rate')))
        vc.loop(F, 2, inv2, havoc={'member_rate': havoc_mr}, modifies=('member_rate',))
        # `member_rate` is only bound inside the loop body: give it a placeholder so that the havoc has something to replace
        out = vc.call(ecls, tl, rate if has_rate else None)
        n = CNT(K)
        if has_rate:
            if out.returned:
                vc.ensure('accepted only when no member carries an equation', n == 0)
                vc.ensure('rate is the event rate', isinstance(out.value.fields.get('rate'), SName) and out.value.fields['rate'].term == rate.term)
            else:
                vc.ensure('rejected only when some member also carries an equation', n >= 1)
        else:
            if out.returned:
                vc.ensure('accepted only when exactly one member carries an equation', n == 1)
                r = out.value.fields.get('rate')
                j = z3.Int('q_j')
                if isinstance(r, SOpt):
                    vc.ensure('rate is not None', z3.Not(r.isnone))
                    r = r.val
                vc.ensure('rate is the equation of that member', isinstance(r, SName) and z3.Exists([j], z3.And(j >= 0, j < K, heq(j), r.term == meq(j))))
            else:
                vc.ensure('rejected only when no member or more than one member carries an equation', z3.Or(n == 0, n >= 2))
        if out.returned:
            vc.ensure('the member list is kept as given', out.value.fields.get('transition_list') is tl)
        vc.canary('canary: reachable', z3.BoolVal(False))
    event_multi.__doc__ = "Event with K >= 2 member transitions, rate %s: the rate is the unique rate supplied; ambiguous or missing rates are rejected" % ('on the event' if has_rate else 'not on the event')
    return event_multi


make_event_multi(True)
make_event_multi(False)


# ---------------------------------------------------------------------------------------------
# routes into the model

def bare_model(vc, ghost):
    cls = vc.cls(BASE + 'BaseOdeModel')
    can = vc.call(vc.cls('pygom.model.simulate:HasNewTransition')).value
    fields = {'_hasNewTransition': can, '_explicitOde': False}
    for n in ('_eventList', '_odeList', '_transitionList', '_birthDeathList'):
        fields[n] = GhostList(ghost, n)
    return ObjVal(cls, fields)


def nf(t):
    f = t.fields
    return (ttype(t), f.get('_orig_state'), f.get('_dest_state'), f.get('_magnitude'))


def nf_equal(a, b):
    if a[0] != b[0]:
        return False
    conj = []
    for x, y in zip(a[1:], b[1:]):
        if (x is None) != (y is None):
            return False
        if x is not None:
            if not (isinstance(x, SName) and isinstance(y, SName)):
                return False
            conj.append(x.term == y.term)
    return z3.And(*conj) if conj else True


def make_route(label, method, ty, by_origin=False):
    @contract('C12/route/' + label, ['C12', 'C01'], BASE + 'BaseOdeModel.' + method)
    def route(vc):
        o, d, eq, mag = names(vc, 'origin', 'destination', 'equation', 'magnitude')
        vc.require('origin and destination differ', o.term != d.term)
        ghost = Ghost()
        model = bare_model(vc, ghost)
        T, E = vc.cls(TR + 'Transition'), vc.cls(TR + 'Event')
        kw = {'T': dict(origin=o, destination=d), 'D': dict(origin=o), 'B': (dict(origin=d) if by_origin else dict(destination=d)), 'ODE': dict(origin=o)}[ty]
        t = vc.call(T, equation=eq, transition_type=ty, magnitude=mag, **kw).value
        snapshot = dict(t.fields)
        out = vc.call(vc.it.getattr(model, method), t)
        vc.ensure('accepted', out.returned)
        if not out.returned:
            return
        vc.ensure("the caller's transition object is left as it was (it can define a second model)", t.fields == snapshot)
        if ty == 'ODE':
            ol = model.fields['_odeList'].items
            vc.ensure('exactly this ODE term is appended to the list of explicit terms', len(ol) == 1 and ol[0] is t and len(model.fields['_eventList'].items) == 0)
        else:
            el = model.fields['_eventList'].items
            ok = len(el) == 1 and isinstance(el[0], ObjVal) and el[0].cls.name == 'Event'
            vc.ensure('exactly one event is appended', ok and len(model.fields['_odeList'].items) == 0)
            if ok:
                ev = el[0]
                r = ev.fields.get('rate')
                vc.ensure("the event's rate is the transition's equation", isinstance(r, SName) and r.term == eq.term)
                tl = ev.fields.get('transition_list')
                ok2 = isinstance(tl, list) and len(tl) == 1 and isinstance(tl[0], ObjVal)
                vc.ensure('the event has exactly one member', ok2)
                if ok2:
                    want = (ty, o if ty in ('T', 'D') else None, d if ty in ('T', 'B') else None, mag)
                    vc.ensure('the member is the same process: type, origin, destination AND magnitude', nf_equal(nf(tl[0]), want))
        vc.canary('canary: reachable', z3.BoolVal(False))
    route.__doc__ = "%s(%s%s): the model receives exactly the normalised process (rate, [(type, origin, destination, magnitude)])" % (method, ty, ' named by origin' if by_origin else '')
    return route


make_route('add_transition(T)', 'add_transition', 'T')
make_route('add_birth_death(B by destination)', 'add_birth_death', 'B')
make_route('add_birth_death(B by origin)', 'add_birth_death', 'B', True)
make_route('add_birth_death(D)', 'add_birth_death', 'D')
make_route('add_event(Transition T)', 'add_event', 'T')
make_route('add_event(Transition B)', 'add_event', 'B')
make_route('add_event(Transition D)', 'add_event', 'D')
make_route('add_ode(ODE)', 'add_ode', 'ODE')


@contract('C12/route/add_event(Event)', ['C12', 'C01'], BASE + 'BaseOdeModel.add_event')
def route_event(vc):
    """add_event(Event): the very object is appended, nothing else changes"""
    ghost = Ghost()
    model = bare_model(vc, ghost)
    ev = ObjVal(vc.cls(TR + 'Event'), {'rate': SName(vc.int('rate')), 'transition_list': SList(vc.int('K', ge=1), lambda k: None)})
    snapshot = dict(ev.fields)
    out = vc.call(vc.it.getattr(model, 'add_event'), ev)
    vc.ensure('accepted', out.returned)
    el = model.fields['_eventList'].items
    vc.ensure('exactly this event is appended', len(el) == 1 and el[0] is ev and ev.fields == snapshot and len(model.fields['_odeList'].items) == 0)
    vc.canary('canary: reachable', z3.BoolVal(False))


def make_list_setter(field, adder):
    @contract('C12/list-setter/' + field, ['C12', 'C08'], BASE + 'BaseOdeModel.' + field + '.setter')
    def list_setter(vc):
        n = vc.int('n', ge=0)
        cls = vc.cls(BASE + 'BaseOdeModel')
        model = ObjVal(cls, {})
        calls = SMutList(0, z3.K(I, z3.IntVal(-1)))

        class Item(Model):
            def __init__(self, k):
                self.k = k

        def adder_summary(it, args, kw):
            calls.py_getattr(it, 'append').py_call(it, [args[1].k], {})
            return None
        vc.summary(BASE + 'BaseOdeModel.' + adder, adder_summary)
        F = BASE + 'BaseOdeModel.' + field + '.setter'

        def inplace(it, view):
            calls.length = it.ctx.fresh_int('ncalls')
            calls.arr = z3.Array(it.ctx._name('calls'), I, I)
        m = z3.Int('ls_m')
        vc.loop(F, 0, lambda view, k: [('the first k items were added, in order, once each',
                                        z3.And(to_num(calls.length) == k, z3.ForAll([m], z3.Implies(z3.And(m >= 0, m < k), z3.Select(calls.arr, m) == m))))],
                inplace=(inplace,))
        kind = vc.it.ctx.choose(2, 'list-or-tuple')
        items = SList(n, lambda k: Item(k), tags=({'tuple'} if kind else {'list'}))
        if field == 'ode_list' and kind:
            return      # the ode_list setter documents lists only
        out = vc.call(vc.func(F), model, items)
        vc.ensure('accepted', out.returned)
        vc.ensure('every item is handed to %s exactly once, in the order given' % adder,
                  z3.And(to_num(calls.length) == n, z3.ForAll([m], z3.Implies(z3.And(m >= 0, m < n), z3.Select(calls.arr, m) == m))))
        vc.canary('canary: reachable', z3.BoolVal(False))
    list_setter.__doc__ = "%s = [...]: each item goes through %s once, in order (incremental calls are the constructor's loop body)" % (field, adder)
    return list_setter


make_list_setter('event_list', 'add_event')
make_list_setter('transition_list', 'add_transition')
make_list_setter('birth_death_list', 'add_birth_death')
make_list_setter('ode_list', 'add_ode')
