"""C08 -- evaluators never go stale after a model is modified.

Representation invariant (DESIGN.md 4/C08, A.11), with ghost state kept by this file:
  ver        bumped by every write to a definition field of the model (the lists of states, parameters,
             derived parameters, events, ODE terms, legacy transitions / birth-deaths and the symbol dictionaries)
  built[m]   the value of ver when the closure <m>Compiled was produced
  INV:  for every evaluator m:   hasattr(model, m+'Compiled') and not flag[m]   ==>   built[m] == ver

* every mutator: on a normally returning path that wrote a definition field, ALL flags are set afterwards
  (trip() makes INV true whatever ver is); on a raising path nothing was written;
* every evaluator (the closure made by add_func): with INV as precondition, it recompiles exactly when its
  closure is missing or its flag is set, compiles with its own generator and output type from the CURRENT
  definition, clears only its own flag (the master evaluator sets all others first), leaves INV true, and
  returns the result of a closure with built == ver, called with the evaluation arguments read at call time
  (so changing parameter VALUES needs no recompilation);
* CompileCanary: trip sets every flag, reset clears one, assignment can clear but never set.
By induction on the operations this covers histories of any length."""
import z3
from pyvc.driver import contract
from pyvc.lib import SList
from pyvc.values import Model, ObjVal, Builtin, Unsupported, PyRaise, ExcVal, FuncVal, BoundMethod

BASE = 'pygom.model.base_ode_model:'
DET = 'pygom.model.deterministic:'
SIMM = 'pygom.model.simulate:'
CAN = 'pygom.model.ode_utils.compile_canary:'
DEF_LISTS = ('_stateList', '_paramList', '_derivedParamList', '_eventList', '_odeList', '_transitionList', '_birthDeathList')
DEF_DICTS = ('_stateDict', '_paramDict', '_derivedParamDict', '_vectorStateDict')
EVALUATORS = ['ode', 'jacobian', 'diff_jacobian', 'grad', 'grad_jacobian', 'transitionJacobian', 'pureOdeVector', 'vMat',
              'eventRateVector', 'transitionMean', 'transitionVar']
GEN = {'ode': 'get_ode_eqn', 'jacobian': 'get_jacobian_eqn', 'diff_jacobian': 'get_diff_jacobian_eqn', 'grad': 'get_grad_eqn',
       'grad_jacobian': 'get_grad_jacobian_eqn', 'transitionJacobian': 'get_TransitionJacobian', 'pureOdeVector': 'get_pureOdeVector',
       'vMat': 'get_StateChangeMatrix', 'eventRateVector': 'get_EventRateVector', 'transitionMean': 'get_TransitionMean',
       'transitionVar': 'get_TransitionVar'}


class Ghost(object):
    def __init__(self):
        self.ver = 0
        self.writes = []
        self.built = {}
        self.compiles = []
        self.pver = 0

    def bump(self, what):
        self.ver += 1
        self.writes.append(what)


class GhostList(Model):
    """a definition list: every structural write bumps the ghost version"""
    tags = frozenset({'list'})

    def __init__(self, ghost, name, items=None):
        self.ghost, self.name, self.items = ghost, name, list(items or [])

    def py_len(self, it):
        return len(self.items)

    def py_iter(self, it):
        return list(self.items)

    def py_truth(self, it):
        return bool(self.items)

    def py_getitem(self, it, idx):
        return self.items[idx]

    def py_contains(self, it, item):
        return it.contains(self.items, item)

    def py_getattr(self, it, name):
        if name == 'append':
            def app(it_, a, k):
                self.items.append(a[0])
                self.ghost.bump('%s.append' % self.name)
            return Builtin('list.append', app)
        if name == 'index':
            def index(it_, a, k):
                for i, x in enumerate(self.items):
                    if it_.eq(x, a[0]) is True:
                        return i
                raise PyRaise(ExcVal('ValueError', ("not in list",)))
            return Builtin('list.index', index)
        raise Unsupported("list method %s on a definition list" % name)

    def py_binop(self, it, op, other, refl):
        import ast
        if isinstance(op, ast.Add):
            o = other.items if isinstance(other, GhostList) else list(other)
            return (o + self.items) if refl else (self.items + o)
        return NotImplemented


class GhostDict(Model):
    tags = frozenset({'dict'})

    def __init__(self, ghost, name):
        self.ghost, self.name, self.d = ghost, name, {}

    def py_setitem(self, it, k, v):
        self.d[it.hashable(k)] = v
        self.ghost.bump('%s[...] = ' % self.name)

    def py_getitem(self, it, k):
        k = it.hashable(k)
        if k in self.d:
            return self.d[k]
        raise PyRaise(ExcVal('KeyError', (k,), {'KeyError', 'LookupError', 'Exception', 'BaseException'}))

    def py_contains(self, it, k):
        return it.hashable(k) in self.d

    def py_iter(self, it):
        return list(self.d.keys())

    def py_len(self, it):
        return len(self.d)


class Opaque(Model):
    """an opaque sympy object / compiled callable carrying ghost labels"""

    def __init__(self, **labels):
        self.labels = labels

    def __repr__(self):
        return "Opaque(%r)" % (self.labels,)

    def py_truth(self, it):
        return True


class OpaqueSymbol(Opaque):
    tags = frozenset({'Symbol', 'Expr', 'Basic'})


def build_model(vc, ghost, flags=None):
    """a SimulateOde made by the REAL constructors of SimulateOde and DeterministicOde (so the evaluators are the
    real add_func closures), with BaseOdeModel.__init__ summarised as 'creates empty definition fields'"""
    it = vc.it

    def base_init(it_, args, kw):
        self = args[0]
        for n in DEF_LISTS:
            self.fields[n] = GhostList(ghost, n)
        for n in DEF_DICTS:
            self.fields[n] = GhostDict(ghost, n)
        self.fields.update({'_derivedParamEqn': [], '_isDifficult': False, '_explicitOde': False, '_state_lims': [], '_parameters': None,
                            '_t': Opaque(symbol='t')})
        return None
    vc.summary(BASE + 'BaseOdeModel.__init__', base_init)
    vc.summary(BASE + 'BaseOdeModel.set_sp', lambda it_, a, k: a[0].fields.__setitem__('_sp', Opaque(sp_at=ghost.ver)))

    class SC(Model):
        def py_getattr(self_, it_, name):
            if name == 'compileExprAndFormat':
                def comp(it2, a, k):
                    sp, expr = a[0], a[1]
                    label = dict(expr.labels) if isinstance(expr, Opaque) else {'expr': repr(expr)}
                    label.update(outType=k.get('outType'), sp=sp)

                    def compiled(it3, a3, k3):
                        return Opaque(result_of=label, called_with=a3[0] if a3 else None)
                    return Builtin('compiled', compiled)
                return Builtin('compileExprAndFormat', comp)
            raise Unsupported("compileCode attribute %s" % name)
    cls = vc.cls(SIMM + 'SimulateOde')
    out = vc.call(cls, None, None)
    if not out.returned:
        raise Unsupported("the constructor raised: %r" % (out.value,))
    model = out.value
    model.fields['_SC'] = SC()      # the compile back end (C01 contracts) is summarised: it returns a callable labelled with what it compiled
    # the generators are summarised: they return an object labelled with the generator and the definition version it read
    for m, g in GEN.items():
        for owner in (BASE + 'BaseOdeModel.', DET + 'DeterministicOde.', SIMM + 'SimulateOde.'):
            vc.summary(owner + g, (lambda g_: (lambda it_, a, k: Opaque(generator=g_, definition_version=ghost.ver)))(g))
    vc.summary(DET + 'DeterministicOde._getEvalParam', lambda it_, a, k: Opaque(eval_args=(a[1], a[2]), param_values_version=ghost.pver))
    if flags is not None:
        can = model.fields['_hasNewTransition']
        can.fields['_states'] = dict(flags)
    return model


def all_set(model):
    st = model.fields['_hasNewTransition'].fields['_states']
    return sorted(st.keys()) == sorted(EVALUATORS) and all(v is True for v in st.values())


# ---------------------------------------------------------------------------------------------
# the canary container

@contract('C08/CompileCanary', ['C08'], CAN + 'CompileCanary.trip', also=[CAN + 'CompileCanary.reset', CAN + 'CompileCanary.__setattr__',
                                                                        CAN + 'CompileCanary.__getattr__', CAN + 'CompileCanary.__init__'])
def canary_container(vc):
    """trip sets every flag; reset(name) clears exactly that flag; attribute assignment can clear a flag but never set it;
    a new container starts with every flag set; reading an unknown name raises AttributeError"""
    cls = vc.cls(SIMM + 'HasNewTransition')
    flags = {m: vc.bool('flag_' + m) for m in EVALUATORS}
    out = vc.call(cls)
    vc.ensure('constructor returns', out.returned)
    can = out.value
    st = can.fields.get('_states')
    vc.ensure('a new container has one flag per evaluator, all set', isinstance(st, dict) and sorted(st) == sorted(EVALUATORS) and all(v is True for v in st.values()))
    for which in EVALUATORS:
        can.fields['_states'] = dict(flags)
        o = vc.call(vc.func(CAN + 'CompileCanary.reset'), can, which)
        st = can.fields['_states']
        vc.ensure('reset(%s) returns' % which, o.returned)
        vc.ensure('reset(%s) clears that flag and no other' % which, st[which] is False and all(st[m] is flags[m] for m in EVALUATORS if m != which))
        vc.it.setattr(can, which, True)
        vc.ensure('assigning True to %s does not set the flag' % which, can.fields['_states'][which] is False)
        got = vc.it.getattr(can, which)
        vc.ensure('reading %s gives the stored flag' % which, got is False)
    can.fields['_states'] = dict(flags)
    o = vc.call(vc.func(CAN + 'CompileCanary.trip'), can)
    vc.ensure('trip returns', o.returned)
    st = can.fields['_states']
    vc.ensure('trip sets every flag', sorted(st) == sorted(EVALUATORS) and all(v is True for v in st.values()))
    try:
        vc.it.getattr(can, 'no_such_evaluator')
        vc.ensure('reading an unknown flag raises AttributeError', False)
    except PyRaise as e:
        vc.ensure('reading an unknown flag raises AttributeError', 'AttributeError' in e.exc.tags)
    vc.canary('canary: reachable', z3.BoolVal(False))


# ---------------------------------------------------------------------------------------------
# mutators

def _transition(vc, **kw):
    return vc.call(vc.cls('pygom.model.transition:Transition'), **kw).value


def _event(vc, tl, rate=None):
    return vc.call(vc.cls('pygom.model.transition:Event'), tl, rate).value


def mutator_cases(vc):
    T = lambda **kw: _transition(vc, **kw)
    return {
        'add_transition(T)': ('add_transition', lambda: [T(origin='S', destination='I', equation='beta*S*I', transition_type='T')], True),
        'add_transition(B: rejected)': ('add_transition', lambda: [T(destination='S', equation='mu', transition_type='B')], False),
        'add_event(Event)': ('add_event', lambda: [_event(vc, [T(origin='S', destination='I', transition_type='T')], 'beta*S*I')], True),
        'add_event(Transition with rate)': ('add_event', lambda: [T(origin='S', destination='I', equation='beta*S*I', transition_type='T')], True),
        'add_event(wrong type: rejected)': ('add_event', lambda: ['beta*S*I'], False),
        'add_birth_death(B)': ('add_birth_death', lambda: [T(destination='S', equation='mu', transition_type='B')], True),
        'add_birth_death(D)': ('add_birth_death', lambda: [T(origin='S', equation='mu*S', transition_type='D')], True),
        'add_birth_death(T: rejected)': ('add_birth_death', lambda: [T(origin='S', destination='I', equation='b', transition_type='T')], False),
        'add_ode(ODE)': ('add_ode', lambda: [T(origin='S', equation='-beta*S', transition_type='ODE')], True),
        'add_ode(T: rejected)': ('add_ode', lambda: [T(origin='S', destination='I', equation='b', transition_type='T')], False),
        '_addDerivedParam': ('_addDerivedParam', lambda: ['R0', 'beta/gamma'], True),
    }


def make_mutator(label):
    @contract('C08/mutator/' + label, ['C08', 'C12'], BASE + 'BaseOdeModel.' + label.split('(')[0])
    def mutator(vc):
        ghost = Ghost()
        flags = {m: vc.bool('flag_' + m) for m in EVALUATORS}
        model = build_model(vc, ghost, flags)
        vc.summary('pygom.model._model_verification:checkEquation', lambda it_, a, k: Opaque(parsed=a[0]))
        if 'pygom.model._model_verification:checkEquation' not in vc.contract.frame:
            vc.contract.frame.append('pygom.model._model_verification:checkEquation')
        meth, mkargs, accepts = mutator_cases(vc)[label]
        args = mkargs()
        v0 = ghost.ver
        out = vc.call(vc.it.getattr(model, meth), *args)
        wrote = ghost.ver != v0
        if accepts:
            vc.ensure('accepted', out.returned)
            vc.ensure('the definition was extended', wrote)
        else:
            vc.ensure('rejected with an error', not out.returned)
        if out.returned:
            vc.ensure('a mutator that wrote a definition field leaves every flag set', (not wrote) or all_set(model))
        else:
            vc.ensure('a rejected call wrote no definition field', not wrote)
        vc.canary('canary: reachable', z3.BoolVal(False))
    mutator.__doc__ = "%s: after a write to the definition every evaluator's recompile flag is set; a rejected call writes nothing" % label
    return mutator


for _l in ['add_transition(T)', 'add_transition(B: rejected)', 'add_event(Event)', 'add_event(Transition with rate)', 'add_event(wrong type: rejected)',
           'add_birth_death(B)', 'add_birth_death(D)', 'add_birth_death(T: rejected)', 'add_ode(ODE)', 'add_ode(T: rejected)', '_addDerivedParam']:
    make_mutator(_l)


def make_setter(label, field, mkvalue):
    @contract('C08/setter/' + label, ['C08', 'C12'], BASE + 'BaseOdeModel.' + field + '.setter')
    def setter(vc):
        ghost = Ghost()
        flags = {m: vc.bool('flag_' + m) for m in EVALUATORS}
        model = build_model(vc, ghost, flags)
        vc.summary('pygom.model._model_verification:checkEquation', lambda it_, a, k: Opaque(parsed=a[0]))
        if 'pygom.model._model_verification:checkEquation' not in vc.contract.frame:
            vc.contract.frame.append('pygom.model._model_verification:checkEquation')
        vc.summary(BASE + 'BaseOdeModel._addSymbol', lambda it_, a, k: OpaqueSymbol(symbol=a[1]))
        value = mkvalue(vc)
        v0 = ghost.ver
        out = vc.call(vc.func(BASE + 'BaseOdeModel.' + field + '.setter'), model, value)
        wrote = ghost.ver != v0
        vc.ensure('accepted', out.returned)
        vc.ensure('the definition was extended', wrote)
        if out.returned:
            vc.ensure('a setter that wrote a definition field leaves every flag set', all_set(model))
        vc.canary('canary: reachable', z3.BoolVal(False))
    setter.__doc__ = "%s = ...: after the write every evaluator's recompile flag is set" % field
    return setter


make_setter('param_list', 'param_list', lambda vc: ['delta', 'eps'])
make_setter('param_list(str)', 'param_list', lambda vc: 'delta')
make_setter('state_list', 'state_list', lambda vc: ['V'])
make_setter('derived_param_list', 'derived_param_list', lambda vc: [('R0', 'beta/gamma')])
make_setter('event_list', 'event_list', lambda vc: [_event(vc, [_transition(vc, origin='S', destination='I', transition_type='T')], 'beta*S*I')])
make_setter('transition_list', 'transition_list', lambda vc: [_transition(vc, origin='S', destination='I', equation='beta*S*I', transition_type='T')])
make_setter('birth_death_list', 'birth_death_list', lambda vc: [_transition(vc, destination='S', equation='mu', transition_type='B')])
make_setter('ode_list', 'ode_list', lambda vc: [_transition(vc, origin='S', equation='-beta*S', transition_type='ODE')])
make_setter('ode_list(single)', 'ode_list', lambda vc: _transition(vc, origin='S', equation='-beta*S', transition_type='ODE'))


# ---------------------------------------------------------------------------------------------
# evaluators

def make_evaluator(m):
    @contract('C08/evaluator/' + m, ['C08'], DET + 'DeterministicOde.add_func.func', also=[DET + 'DeterministicOde.add_compiled_sympy_object',
                                                                                       DET + 'DeterministicOde.add_compiled_sympy_object.comp_obj'])
    def evaluator(vc):
        ghost = Ghost()
        flags = {n: vc.bool('flag_' + n) for n in EVALUATORS}
        model = build_model(vc, ghost, flags)
        # an arbitrary reachable state: every evaluator may or may not have a compiled closure; INV relates them to ver
        ghost.ver = 7
        stale_ok = {}
        for n in EVALUATORS:
            has = vc.it.ctx.branch(vc.bool('has_' + n), 'has-compiled') if n == m else (vc.bool('has_' + n))
            if n == m:
                if has:
                    fresh = vc.it.ctx.branch(vc.bool('built_current_' + n), 'built-current')
                    lab = {'generator': GEN[n], 'definition_version': ghost.ver if fresh else 3, 'outType': 'old', 'sp': None}
                    model.fields[n + 'Compiled'] = Builtin('old-compiled', (lambda lab_: (lambda it3, a3, k3: Opaque(result_of=lab_, called_with='old-path')))(lab))
                    # INV (precondition): compiled and flag clear  ==>  built from the current definition
                    vc.require('INV for %s' % n, z3.Implies(z3.Not(flags[n]), z3.BoolVal(fresh)))
                    stale_ok['fresh'] = fresh
            # the other evaluators: INV is carried as the symbolic fact  inv_other[n] = (has and not flag ==> current)
        inv_other = {n: vc.bool('built_current_' + n) for n in EVALUATORS if n != m}
        for n in inv_other:
            vc.require('INV for %s' % n, z3.Implies(z3.And(vc.bool('has_' + n), z3.Not(flags[n])), inv_other[n]))
        ghost.pver = 11
        x, t = Opaque(arg='state'), Opaque(arg='time')
        f = model.fields.get(m)
        vc.ensure('%s is an add_func closure bound to the model' % m, isinstance(f, BoundMethod) and f.func.qualname.endswith('add_func.func') and f.self_obj is model)
        out = vc.call(f, x, t)
        vc.ensure('returns normally', out.returned)
        if not out.returned:
            return
        r = out.value
        ok = isinstance(r, Opaque) and 'result_of' in r.labels
        vc.ensure('the value comes from a compiled closure', ok)
        if not ok:
            return
        lab = r.labels['result_of']
        vc.ensure('compiled from the CURRENT definition (never stale)', lab.get('definition_version') == ghost.ver)
        vc.ensure('compiled from its own generator', lab.get('generator') == GEN[m])
        st = model.fields['_hasNewTransition'].fields['_states']
        vc.ensure("its own flag is clear afterwards or was clear before", st[m] is False or (st[m] is flags[m]))
        recompiled = lab.get('outType') != 'old'
        if recompiled:
            vc.ensure('recompilation only when the closure was missing or the flag was set',
                      z3.Or(z3.Not(vc.bool('has_' + m)), flags[m]))
            cw = r.labels.get('called_with')
            vc.ensure('evaluation arguments (state, time, current parameter values) are read at call time',
                      isinstance(cw, Opaque) and cw.labels.get('param_values_version') == ghost.pver and cw.labels.get('eval_args') == (x, t))
            if m == 'ode':
                vc.ensure('the master evaluator sets every other flag before clearing its own',
                          st[m] is False and all(st[n] is True for n in EVALUATORS if n != m))
            else:
                vc.ensure('clears only its own flag', st[m] is False and all(st[n] is flags[n] for n in EVALUATORS if n != m))
        else:
            vc.ensure('no recompilation: flags untouched', all(st[n] is flags[n] for n in EVALUATORS))
        # INV afterwards for the others: unchanged flags keep INV; flags that were set make it trivially true
        for n in inv_other:
            after_flag = st[n]
            vc.ensure('INV still holds for %s' % n,
                      z3.Implies(z3.And(vc.bool('has_' + n), z3.Not(after_flag if not isinstance(after_flag, bool) else z3.BoolVal(after_flag))), inv_other[n]))
        vc.canary('canary: reachable', z3.BoolVal(False))
    evaluator.__doc__ = "%s(x, t): recompiles exactly when needed, from the current definition and its own generator; never returns a stale closure's value" % m
    return evaluator


for _m in EVALUATORS:
    make_evaluator(_m)
