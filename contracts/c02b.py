"""C02 (part 2) -- the model's entry points hand the right callables, initial state, origin and
time grid to the two integrator wrappers (whose contracts are C02/integrateFuncJac and the
assumed contract of scipy.integrate.odeint)."""
import z3
from pyvc.driver import contract
from pyvc.lib import SArr, SList
from pyvc.values import Builtin, ObjVal, BoundMethod, Namespace, to_num, to_real

DET = 'pygom.model.deterministic:'
SIMM = 'pygom.model.simulate:'
OU = 'pygom.model.ode_utils:'


def _model(vc, cls_spec, **extra):
    nS = vc.int('nS', ge=1)
    cls = vc.cls(cls_spec)
    x0 = vc.array('x0', (nS,))
    t0 = vc.real('t0')
    fields = {'_x0': x0, '_t0': t0, '_stochasticParam': None, '_odeTime': None, '_odeSolution': None, '_odeOutput': None, '_intName': None}
    fields.update(extra)
    return ObjVal(cls, fields), nS, x0, t0


def _grid(vc):
    nT = vc.int('nT', ge=1)
    return vc.array('t', (nT,)), nT


@contract('C02/integrate2-wiring', ['C02', 'C06'], DET + 'DeterministicOde.integrate2',
          also=[DET + 'DeterministicOde._integrate2', DET + 'DeterministicOde._setIntegrateTime', DET + 'DeterministicOde.ode_T', DET + 'DeterministicOde.jacobian_T'])
def integrate2(vc):
    """integrate2(t, method): integrateFuncJac(ode_T, jacobian_T, x0, t0, t, includeOrigin=True, method) -- the
    origin row followed by one row per element of t, in order"""
    seen = {}
    self, nS, x0, t0 = _model(vc, DET + 'DeterministicOde')
    self.fields['ode'] = Builtin('ode', lambda it, a, k: seen.setdefault('ode', a) and SArr((nS,), lambda o: z3.Real('f')))
    self.fields['jacobian'] = Builtin('jacobian', lambda it, a, k: seen.setdefault('jac', a) and SArr((nS, nS), lambda o: z3.Real('J')))
    ts, nT = _grid(vc)
    result = (vc.array('solution', (nT + 1, nS)), {'in': 'lsoda'})

    def ifj(it, a, k):
        seen['args'], seen['kw'] = a, k
        return result
    vc.summary(OU + 'integrateFuncJac', ifj)
    for method in (None, 'vode'):
        for fo in (False, True):
            out = vc.call(vc.func(DET + 'DeterministicOde.integrate2'), self, ts, full_output=fo, method=method)
            vc.ensure('returns', out.returned)
            if not out.returned:
                return
            a, k = seen['args'], seen['kw']
            f, j, x, tstart, tgrid = a[:5]
            vc.ensure('right-hand side is the model\'s ode with (t, state) argument order',
                      isinstance(f, BoundMethod) and f.self_obj is self and f.func.qualname.endswith('.ode_T'))
            vc.ensure('Jacobian is the model\'s jacobian with (t, state) argument order',
                      isinstance(j, BoundMethod) and j.self_obj is self and j.func.qualname.endswith('.jacobian_T'))
            vc.ensure('initial state is the model\'s initial state', x is x0)
            vc.ensure('initial time is the model\'s initial time', to_real(tstart) == t0)
            i = z3.Int('i')
            vc.ensure('requested times are passed on unchanged and in order',
                      z3.And(to_num(tgrid.shape[0]) == nT, z3.ForAll([i], z3.Implies(z3.And(i >= 0, i < nT), tgrid.get((i,)) == ts.get((i,))))))
            vc.ensure('the origin row is requested', k.get('includeOrigin') is True)
            vc.ensure('the method argument is passed through', k.get('method') == method)
            vc.ensure('returns the wrapper\'s solution (with its info dict only on request)',
                      (out.value[0] is result[0] and out.value[1] is result[1]) if fo else out.value is result[0])
    # ode_T / jacobian_T swap the arguments
    tt, st = vc.real('tt'), vc.array('state', (nS,))
    vc.call(vc.func(DET + 'DeterministicOde.ode_T'), self, tt, st)
    vc.ensure('ode_T(t, state) evaluates ode(state, t)', seen.get('ode') is not None and seen['ode'][0] is st and seen['ode'][1] is tt)
    vc.call(vc.func(DET + 'DeterministicOde.jacobian_T'), self, tt, st)
    vc.ensure('jacobian_T(t, state) evaluates jacobian(state, t)', seen.get('jac') is not None and seen['jac'][0] is st and seen['jac'][1] is tt)


@contract('C02/integrate-wiring', ['C02', 'C16'], DET + 'DeterministicOde.integrate',
          also=[DET + 'DeterministicOde._integrate', DET + 'DeterministicOde._setIntegrateTime', OU + 'integrate', SIMM + 'SimulateOde.solve_determ'])
def integrate(vc):
    """integrate(t) / solve_determ(t): odeint(ode.ode, x0, [t0] ++ t, Dfun=ode.jacobian, col_deriv=False) --
    assumed contract of odeint: row k is the flow from row 0's time to t[k]"""
    seen = {}
    self, nS, x0, t0 = _model(vc, SIMM + 'SimulateOde')
    self.fields['ode'] = Builtin('ode', lambda it, a, k: None)
    self.fields['jacobian'] = Builtin('jacobian', lambda it, a, k: None)
    ts, nT = _grid(vc)
    result = (vc.array('solution', (nT + 1, nS)), {'message': 'ok'})

    def odeint(it, a, k):
        it.ctx.note_trusted("scipy.integrate.odeint(f, y0, t, Dfun, col_deriv=False): row k is the solution at t[k] started from y0 at t[0]; Dfun[i,j] = d f_i / d y_j")
        seen['args'], seen['kw'] = a, k
        return result
    mod = vc.module('pygom.model.ode_utils')
    sc = mod.env.vars['scipy']

    class ScipyNS(Namespace):
        def py_getattr(self_, it, name):
            if name == 'integrate':
                return Namespace('scipy.integrate', {'odeint': Builtin('odeint', odeint)})
            return sc.py_getattr(it, name)
    mod.env.vars['scipy'] = ScipyNS('scipy')
    for entry in ('integrate', 'solve_determ'):
        out = vc.call(vc.func((DET + 'DeterministicOde.integrate') if entry == 'integrate' else (SIMM + 'SimulateOde.solve_determ')), self, ts)
        vc.ensure('%s returns' % entry, out.returned)
        if not out.returned:
            return
        a, k = seen['args'], seen['kw']
        vc.ensure('%s: right-hand side is the model\'s ode(state, t)' % entry, a[0] is self.fields['ode'])
        vc.ensure('%s: initial state is the model\'s initial state' % entry, a[1] is x0)
        grid = a[2]
        i = z3.Int('i')
        vc.ensure('%s: time grid is the initial time followed by the requested times, in order' % entry,
                  z3.And(to_num(grid.shape[0]) == nT + 1, grid.get((z3.IntVal(0),)) == t0,
                         z3.ForAll([i], z3.Implies(z3.And(i >= 0, i < nT), grid.get((i + 1,)) == ts.get((i,))))))
        vc.ensure('%s: Jacobian is the model\'s jacobian(state, t) in row-derivative layout' % entry,
                  k.get('Dfun') is self.fields['jacobian'] and k.get('col_deriv') is False)
        vc.ensure('%s: odeint is given a step budget of at least 10000 internal steps per output time (its default of 500 silently leaves rows unfilled)' % entry,
                  isinstance(k.get('mxstep'), int) and k.get('mxstep') >= 10000)
        vc.ensure('%s: returns odeint\'s solution array (origin row first)' % entry, out.value is result[0])
