"""C04 / C11 / C15 / C16 -- SimulateOde._jump: the jump loop records exactly the accepted steps.

The step functions are used through their contracts (proved in C04/firstReaction and
C04/tauLeap).  Ghost sequences indexed by the loop iteration m:  Tin(m), Xin(m,s) the state and
time a step was started from; Tau(m), Tout(m), Xout(m,s), Jm(m,e) what the accepted step of
iteration m returned.  The loop invariant ties the four recorded lists to these sequences."""
import z3
from pyvc.driver import contract
from pyvc.lib import SList, SArr, SMutList, SRowList, uf
from pyvc.values import SOpt, Builtin, ObjVal, to_real, to_num
from contracts.c04 import limits, SS

SIM = 'pygom.model.simulate:'
I, R, B = z3.IntSort(), z3.RealSort(), z3.BoolSort()
Tin, Tout, Tau = z3.Function('Tin', I, R), z3.Function('Tout', I, R), z3.Function('Tau', I, R)
Xin, Xout = z3.Function('Xin', I, I, R), z3.Function('Xout', I, I, R)
Jm = z3.Function('Jm', I, I, R)


def make_jump(exact):
    cid = 'C04/_jump/' + ('exact' if exact else 'tau-leap')

    def run(vc):
        nS, nE = vc.int('nS', ge=1), vc.int('nE', ge=1)
        x0 = vc.array('x0', (nS,))
        t0, finalT = vc.real('t0'), vc.real('finalT')
        lims, within = limits(vc, nS)
        vc.require('initial state within its limits', within(x0))
        st = {'k': None, 'calls': []}

        def within_fn(f):
            j = z3.Int(vc.ctx._name('jw'))
            lo, hi = lims.element(j)
            return z3.ForAll([j], z3.Implies(z3.And(j >= 0, j < nS),
                                             z3.And(z3.Or(lo.isnone, f(j) >= lo.val), z3.Or(hi.isnone, f(j) <= hi.val))))

        def step_summary(name, arity_pos):
            def summ(it, args, kw):
                x, x_lims, t = args[0], args[1], args[2]
                k = st['k']
                st['calls'].append((name, k))
                it.ctx.oblige('pre(%s): the limits passed are the model\'s limits' % name, x_lims is lims)
                it.ctx.oblige('pre(%s): serial path passes seed=None' % name, kw.get('seed', None) is None)
                # the step is started from the current end of the recorded path
                s = z3.Int(it.ctx._name('s'))
                it.ctx.assume(Tin(k) == t)
                it.ctx.assume(z3.ForAll([s], z3.Implies(z3.And(s >= 0, s < nS), Xin(k, s) == x.get((s,)))))
                which = it.ctx.choose(3, name)
                if which == 0:          # no event can fire
                    return (0, 0, 0, 0, False)
                tau = it.ctx.fresh_real('tau')
                it.ctx.assume(tau > 0)
                jumps = SMutList(nE, z3.Array(it.ctx._name('jumps'), I, R))
                if which == 1:          # accepted
                    xn = SArr((nS,), (lambda k_: (lambda o: Xout(k_, o[0])))(k))
                    it.ctx.assume(within_fn(lambda j: Xout(k, j)))
                    it.ctx.assume(z3.And(Tau(k) == tau, Tout(k) == t + tau))
                    e = z3.Int(it.ctx._name('e'))
                    it.ctx.assume(z3.ForAll([e], z3.Implies(z3.And(e >= 0, e < nE), Jm(k, e) == z3.Select(jumps.arr, e))))
                    return (t + tau, tau, xn, jumps, True)
                return (t, tau, x, jumps, False)   # rejected: state and time unchanged
            return summ
        vc.summary(SS + 'firstReaction', step_summary('firstReaction', 3))
        vc.summary(SS + 'tauLeap', step_summary('tauLeap', 3))
        vc.summary('pygom.model.base_ode_model:BaseOdeModel.get_ReactantMatrix', lambda it, a, k: None)

        def before(it, view):
            # the four python lists become symbolic-length sequences (same contents)
            xl, tl = view['xList'], view['tList']
            rows = SRowList(0, None, lambda m, s: z3.RealVal(0))
            rows.py_getattr(it, 'append').py_call(it, [xl[0]], {})
            view.set('xList', rows)
            view.set('tList', SMutList(1, z3.Store(z3.K(I, z3.RealVal(0)), 0, to_real(tl[0]))))
            view.set('dtList', SMutList(0, z3.K(I, z3.RealVal(0))))
            view.set('jumpList', SRowList(0, nE, lambda m, s: z3.RealVal(0)))

        def ghost(it, view, k):
            st['k'] = k

        def inv(view, k):
            X, T, DT, J = view['xList'], view['tList'], view['dtList'], view['jumpList']
            x, t = view['x'], view['t']
            m, s, e = z3.Int('m_inv'), z3.Int('s_inv'), z3.Int('e_inv')
            Tm = lambda i: z3.Select(T.arr, i)
            return [
                ('list lengths', z3.And(to_num(X.length) == k + 1, to_num(T.length) == k + 1, to_num(DT.length) == k, to_num(J.length) == k)),
                ('path starts at the initial state and time', z3.And(Tm(0) == t0, z3.ForAll([s], z3.Implies(z3.And(s >= 0, s < nS), X.get(0, s) == x0.get((s,)))))),
                ('the current state and time are the last recorded ones',
                 z3.And(Tm(k) == to_real(t), to_num(x.shape[0]) == nS, z3.ForAll([s], z3.Implies(z3.And(s >= 0, s < nS), X.get(k, s) == x.get((s,)))))),
                ('recorded step m is the accepted step of iteration m, started from record m',
                 z3.ForAll([m], z3.Implies(z3.And(m >= 0, m < k),
                                           z3.And(Tm(m) == Tin(m), Tm(m + 1) == Tout(m), Tout(m) == Tin(m) + Tau(m), Tau(m) > 0,
                                                  z3.Select(DT.arr, m) == Tau(m))))),
                ('recorded states', z3.ForAll([m, s], z3.Implies(z3.And(m >= 0, m < k, s >= 0, s < nS),
                                                                 z3.And(X.get(m, s) == Xin(m, s), X.get(m + 1, s) == Xout(m, s))))),
                ('recorded counts', z3.ForAll([m, e], z3.Implies(z3.And(m >= 0, m < k, e >= 0, e < nE), J.get(m, e) == Jm(m, e)))),
                ('every recorded state is within the limits', z3.ForAll([m], z3.Implies(z3.And(m >= 0, m <= k), within_fn(lambda j: X.get(m, j))))),
            ]
        vc.loop(SIM + 'SimulateOde._jump', 0, inv, before=before, ghost=ghost,
                modifies=('xList', 'tList', 'dtList', 'jumpList'))
        cls = vc.cls(SIM + 'SimulateOde')
        noop = Builtin('evaluator', lambda it, a, k: None)
        self = ObjVal(cls, {'_stochasticParam': None, '_t0': t0, '_x0': x0, '_state_lims': lims, 'vMat': noop,
                            'eventRateVector': noop, 'transitionMean': noop, 'transitionVar': noop, 'pureOdeVector': noop,
                            '_lambdaMat': None, '_epsilon': z3.RealVal('0.03'), 'pre_tau': None})
        out = vc.call(vc.func(SIM + 'SimulateOde._jump'), self, finalT, exact=exact)
        vc.ensure('returns normally', out.returned)
        if not out.returned:
            return
        Xa, Ja, Ta, DTa = out.value
        vc.ensure('returns arrays of states, counts, times, steps', all(isinstance(v, SArr) for v in (Xa, Ja, Ta, DTa)))
        L = Ta.shape[0]
        m, s, e = z3.Int('m_q'), z3.Int('s_q'), z3.Int('e_q')
        vc.ensure('one state row per time, one count row and one step per transition',
                  z3.And(to_num(Xa.shape[0]) == to_num(L), to_num(Ja.shape[0]) == to_num(L) - 1, to_num(DTa.shape[0]) == to_num(L) - 1, to_num(L) >= 1))
        vc.ensure('first row is the initial state at the initial time',
                  z3.And(Ta.get((z3.IntVal(0),)) == t0, z3.ForAll([s], z3.Implies(z3.And(s >= 0, s < nS), Xa.get((z3.IntVal(0), s)) == x0.get((s,))))))
        vc.ensure('times strictly increase by the recorded steps',
                  z3.ForAll([m], z3.Implies(z3.And(m >= 0, m < to_num(L) - 1),
                                            z3.And(Ta.get((m + 1,)) == Ta.get((m,)) + DTa.get((m,)), DTa.get((m,)) > 0))))
        vc.ensure('row m+1 is what the accepted step started from row m returned (state and counts)',
                  z3.ForAll([m], z3.Implies(z3.And(m >= 0, m < to_num(L) - 1),
                                            z3.And(Ta.get((m,)) == Tin(m), DTa.get((m,)) == Tau(m),
                                                   z3.ForAll([s], z3.Implies(z3.And(s >= 0, s < nS),
                                                                             z3.And(Xa.get((m, s)) == Xin(m, s), Xa.get((m + 1, s)) == Xout(m, s)))),
                                                   z3.ForAll([e], z3.Implies(z3.And(e >= 0, e < nE), Ja.get((m, e)) == Jm(m, e)))))))
        vc.ensure('every recorded state is within the declared limits',
                  z3.ForAll([m], z3.Implies(z3.And(m >= 0, m < to_num(L)), within_fn(lambda j: Xa.get((m, j))))))
        vc.canary('canary: some path returns', z3.BoolVal(False))
    run.__doc__ = "_jump (%s): the recorded path is exactly the chain of accepted steps from (x0, t0); rejected or impossible steps record nothing" % ('exact' if exact else 'tau-leap with first-reaction fall-back')
    contract(cid, ['C04', 'C10', 'C11', 'C15', 'C16'] + (['C05'] if exact else []), SIM + 'SimulateOde._jump', max_paths=3000,
             replay=(lambda clause, m: __import__('contracts.native_steps', fromlist=['x']).jump_search(exact)))(run)


make_jump(True)
make_jump(False)


# ---------------------------------------------------------------------------------------------
# solve_stochast, scalar horizon: the raw paths returned are exactly the outputs of `iteration`
# serial calls of _jump with this horizon and algorithm

RunX = z3.Function('RunX', I, I, I, R)     # (run, row, state)
RunJ = z3.Function('RunJ', I, I, I, R)
RunT = z3.Function('RunT', I, I, R)
RunL = z3.Function('RunL', I, I)            # number of recorded times of a run


def make_solve_raw(exact, full_output):
    cid = 'C04/solve_stochast/raw/exact=%s/full_output=%s' % (exact, full_output)

    def run(vc):
        nS, nE, n = vc.int('nS', ge=1), vc.int('nE', ge=1), vc.int('iteration', ge=0)
        x0 = vc.array('x0', (nS,))
        s = z3.Int('s_int')
        vc.require('integer initial state', z3.ForAll([s], z3.Implies(z3.And(s >= 0, s < nS), z3.IsInt(x0.get((s,))))))
        T = vc.real('T')
        calls = []

        def jump_summary(it, args, kw):
            self_, finalT = args[0], args[1]
            if it.lazy_index is None:
                raise Unsupported("_jump called outside the run comprehension")
            epoch, r = it.lazy_index
            calls.append(dict(kw))
            it.ctx.oblige('pre(_jump): horizon is the requested time', to_real(finalT) == T)
            it.ctx.oblige('pre(_jump): the requested algorithm', kw.get('exact', False) is exact)
            it.ctx.oblige('pre(_jump): full raw output requested', kw.get('full_output', True) is True)
            it.ctx.oblige('pre(_jump): serial path passes no seed', kw.get('seed', None) is None)
            L = RunL(r)
            return (SArr((L, nS), lambda o: RunX(r, o[0], o[1])), SArr((L - 1, nE), lambda o: RunJ(r, o[0], o[1])),
                    SArr((L,), lambda o: RunT(r, o[0])), SArr((L - 1,), lambda o: z3.RealVal(0)))
        vc.summary(SIM + 'SimulateOde._jump', jump_summary)
        cls = vc.cls(SIM + 'SimulateOde')
        self = ObjVal(cls, {'_x0': x0, '_t0': vc.real('t0')})
        out = vc.call(vc.func(SIM + 'SimulateOde.solve_stochast'), self, T, n, parallel=False, exact=exact, full_output=full_output)
        vc.ensure('returns normally', out.returned)
        if not out.returned:
            return
        if full_output:
            vc.ensure('returns (states, counts, times)', isinstance(out.value, tuple) and len(out.value) == 3)
            Xs, Js, Ts = out.value
        else:
            Xs, Js, Ts = out.value, None, None
        r = z3.Int('r_q')
        a, b = z3.Int('a_q'), z3.Int('b_q')
        vc.ensure('one raw path per requested run', to_num(vc.it.length(Xs)) == n)
        vc.assume(z3.And(r >= 0, r < n))
        Xr = vc.it.getitem(Xs, r)
        vc.ensure('run r: states are the states of the r-th _jump call',
                  z3.And(to_num(Xr.shape[0]) == RunL(r), z3.ForAll([a, b], Xr.get((a, b)) == RunX(r, a, b))))
        if full_output:
            Jr, Tr = vc.it.getitem(Js, r), vc.it.getitem(Ts, r)
            vc.ensure('run r: counts and times belong to the same _jump call as the states',
                      z3.And(z3.ForAll([a, b], Jr.get((a, b)) == RunJ(r, a, b)), z3.ForAll([a], Tr.get((a,)) == RunT(r, a))))
        vc.canary('canary: reachable', z3.BoolVal(False))
    run.__doc__ = "solve_stochast with a scalar horizon returns, per run, exactly what the r-th serial _jump(T, exact=%s) returned" % exact
    contract(cid, ['C04', 'C10', 'C16', 'C11'] + (['C05'] if exact else []), SIM + 'SimulateOde.solve_stochast')(run)


from pyvc.values import Unsupported  # noqa: E402
for _e in (True, False):
    for _f in (True, False):
        make_solve_raw(_e, _f)
