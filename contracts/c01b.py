"""C01 (part 2) -- a model definition is assembled into exactly the equations it describes.

For every well-formed model view (any number of states, events, transitions per event, ODE
terms), under every valuation val:
    val(ode[i])   = sum_e sum_k val(R_e) * val(M_ek) * coef(e,k,i)  +  sum_{q: ix(oorg_q)=i} val(Parse(oeq_q))
    val(vMat[i,e]) = sum_k val(M_ek) * coef(e,k,i)
    rates[e]       = Parse(rate_e)            (the same expression, not just the same value)
    val(pure[i])   = sum_{q: ix(oorg_q)=i} val(Parse(oeq_q))
with coef(e,k,i) = [type in {T,B} and ix(dst)=i] - [type in {T,D} and ix(org)=i]."""
import z3
from pyvc.driver import contract
from pyvc.lib_sympy import SMatrix, SExpr, val, Parse, Expr, InAtoms
from pyvc.values import to_num
from contracts.modelview import ModelView, rate, K, ty, org, dst, mag, oorg, oeq, ix

I, R = z3.IntSort(), z3.RealSort()
DET = 'pygom.model.deterministic:DeterministicOde.'
BAS = 'pygom.model.base_ode_model:BaseOdeModel.'


def coef(e, k, i):
    plus = z3.And(z3.Or(ty(e, k) == 2, ty(e, k) == 0), ix(dst(e, k)) == i)
    minus = z3.And(z3.Or(ty(e, k) == 2, ty(e, k) == 1), ix(org(e, k)) == i)
    return z3.If(plus, 1.0, 0.0) - z3.If(minus, 1.0, 0.0)


def M(e, k):
    return val(Parse(mag(e, k)))


def Rt(e):
    return val(Parse(rate(e)))


def sums(vc, with_rate, tag):
    """PSK(e,k,i): partial sum over the first k transitions of event e; PSE(e,i): over the first e events"""
    PSK = z3.Function('PSK_' + tag, I, I, I, R)
    PSE = z3.Function('PSE_' + tag, I, I, R)
    e, k, i = z3.Int('ps_e'), z3.Int('ps_k'), z3.Int('ps_i')
    term = (Rt(e) * M(e, k) * coef(e, k, i)) if with_rate else (M(e, k) * coef(e, k, i))
    vc.assume(z3.ForAll([e, i], PSK(e, 0, i) == 0, patterns=[PSK(e, 0, i)]))
    vc.assume(z3.ForAll([e, k, i], z3.Implies(k >= 0, PSK(e, k + 1, i) == PSK(e, k, i) + term), patterns=[PSK(e, k + 1, i)]))
    vc.assume(z3.ForAll([i], PSE(0, i) == 0, patterns=[PSE(0, i)]))
    vc.assume(z3.ForAll([e, i], z3.Implies(e >= 0, PSE(e + 1, i) == PSE(e, i) + PSK(e, K(e), i)), patterns=[PSE(e + 1, i)]))
    return PSK, PSE


def ode_sums(vc):
    PSQ = z3.Function('PSQ', I, I, R)
    q, i = z3.Int('pq_q'), z3.Int('pq_i')
    vc.assume(z3.ForAll([i], PSQ(0, i) == 0, patterns=[PSQ(0, i)]))
    vc.assume(z3.ForAll([q, i], z3.Implies(q >= 0, PSQ(q + 1, i) == PSQ(q, i) + z3.If(ix(oorg(q)) == i, val(Parse(oeq(q))), 0.0)),
                        patterns=[PSQ(q + 1, i)]))
    return PSQ


def col(m, i):
    return val(z3.Select(m.arr, i, 0))


def _replay_ode_eqn(clause, m):
    """directed models for the accumulation clauses of get_ode_eqn: several explicit ODE terms on the SAME state next to events that
    touch it, and events whose members differ in size, each against the independent sympy reconstruction (standins/models.py)"""
    import numpy as np
    from standins import c01 as sc
    specs = [
        {'states': ['S', 'I'], 'state_decl': ['S', 'I'], 'params': ['p0', 'p1'],
         'events': [('p0*S*I', [('T', 'S', 'I', '1')])], 'odes': [('S', '-p1*S'), ('S', 'p0'), ('I', 'p1*S'), ('I', '-p0*I')], 'derived': []},
        {'states': ['S', 'I', 'R'], 'state_decl': ['S', 'I', 'R'], 'params': ['p0', 'p1'],
         'events': [('p0*S', [('D', 'S', 'S', '2'), ('B', 'I', 'I', '1'), ('T', 'I', 'R', '3'), ('B', 'R', 'R', '1')]),
                    ('p1*I', [('T', 'I', 'R', '1'), ('T', 'R', 'S', '2')])], 'odes': [('R', '-p1*R'), ('R', '-p0*R')], 'derived': []},
    ]
    bad, inp = [], None
    for spec in specs:
        try:
            b = sc.check_spec(spec, np.random.RandomState(3), 'lambda')
        except Exception as e:
            b = ["raises %s: %s" % (type(e).__name__, e)]
        if b:
            bad, inp = b[:3], spec
            break
    return {'reproduced': bool(bad), 'observed': bad, 'input': inp or 'two directed models (repeated ODE terms on one state; members of different sizes)'}


@contract('C01/get_ode_eqn', ['C01', 'C10', 'C12'], DET + 'get_ode_eqn', max_paths=4000, replay=_replay_ode_eqn)
def get_ode_eqn(vc):
    """the symbolic right-hand side: for every state i and every valuation, the sum over events of
    rate x magnitude x signed incidence plus the explicit ODE terms for i"""
    mv = ModelView(vc)
    nS, nE, nQ = mv.nS, mv.nE, mv.nQ
    PSK, PSE = sums(vc, True, 'ode')
    PSQ = ode_sums(vc)
    st = {}
    F = 'pygom.model.deterministic:DeterministicOde.get_ode_eqn'
    i = z3.Int('inv_i')
    rng = lambda: z3.And(i >= 0, i < nS)

    def both(view, i_):
        return col(view['between_state_ode'], i_) + col(view['birth_death_ode'], i_)

    def shape_ok(view):
        return z3.And(*[z3.And(to_num(view[n].rows) == nS, to_num(view[n].cols) == 1) for n in ('between_state_ode', 'birth_death_ode', 'pure_ode')])
    vc.loop(F, 0, lambda view, e: [('accumulated events', z3.ForAll([i], z3.Implies(rng(), both(view, i) == PSE(e, i))))],
            modifies=('between_state_ode', 'birth_death_ode'), ghost=lambda it, view, e: st.__setitem__('e', e))
    vc.loop(F, 1, lambda view, k: [('accumulated transitions of the current event',
                                    z3.ForAll([i], z3.Implies(rng(), both(view, i) == PSE(st['e'], i) + PSK(st['e'], k, i))))],
            modifies=('between_state_ode', 'birth_death_ode'))
    vc.loop(F, 2, lambda view, q: [('accumulated ODE terms', z3.ForAll([i], z3.Implies(rng(), col(view['pure_ode'], i) == PSQ(q, i))))],
            modifies=('pure_ode',))

    def before3(it, view):
        st['ode0'] = mv.obj.fields['_ode'].arr

    def inplace3(it, view):
        mv.obj.fields['_ode'].havoc_inplace(it, '_ode')
        mv.obj.fields['_isDifficult'] = it.ctx.fresh_bool('isDifficult')
    vc.loop(F, 3, lambda view, k: [('the simplification pass leaves every equation unchanged',
                                    z3.ForAll([i], z3.Implies(rng(), z3.Select(mv.obj.fields['_ode'].arr, i, 0) == z3.Select(st['ode0'], i, 0))))],
            before=before3, inplace=(inplace3,))
    # the autonomy guard never fires for parsed expressions (the parsed `t` is a different symbol object)
    a = z3.Const('any_expr', Expr)
    vc.require('the model passes the autonomy guard', z3.ForAll([a], z3.Not(InAtoms(a, mv.obj.fields['_t'].term))))
    out = vc.call(vc.func(F), mv.obj)
    vc.ensure('returns normally for every well-formed model', out.returned)
    if not out.returned:
        return
    ode = out.value
    vc.ensure('a column vector with one equation per state', isinstance(ode, SMatrix) and z3.And(to_num(ode.rows) == nS, to_num(ode.cols) == 1))
    vc.ensure('ode[i] = sum over events of rate x magnitude x incidence + explicit terms, under every valuation',
              z3.ForAll([i], z3.Implies(rng(), col(ode, i) == PSE(nE, i) + PSQ(nQ, i))))
    vc.ensure('the model keeps the same vector', mv.obj.fields.get('_ode') is ode)
    vc.canary('canary: reachable', z3.BoolVal(False))


def _replay_vmat(clause, m):
    """random event lists (several transitions per event, the same state touched by more than one of them, numeric and symbolic
    magnitudes) against the definition: vMat[i, e] = sum of the signed magnitudes of the transitions of event e that touch state i"""
    import numpy as np
    import sympy
    from contracts import native
    pm = native.imp('pygom.model')
    rng = np.random.default_rng(11)
    bad, inp = [], None
    r, q = sympy.Symbol('r'), sympy.Symbol('q')
    try:
        with native.quiet():
            for _ in range(80):
                nS = int(rng.integers(1, 5))
                states = ['s%d' % i for i in range(nS)]
                events, want = [], []
                for e in range(int(rng.integers(1, 4))):
                    trs, col = [], [sympy.Integer(0)] * nS
                    for k in range(int(rng.integers(1, 4))):
                        typ = (['B', 'D', 'T'] if nS > 1 else ['B', 'D'])[int(rng.integers(0, 3 if nS > 1 else 2))]
                        mag = ['1', '2', '3', 'q'][int(rng.integers(0, 4))]
                        mv = sympy.sympify(mag, locals={'q': q})
                        o, d = int(rng.integers(0, nS)), int(rng.integers(0, nS))
                        if typ == 'B':
                            trs.append(pm.Transition(destination=states[d], transition_type='B', magnitude=mag)); col[d] += mv
                        elif typ == 'D':
                            trs.append(pm.Transition(origin=states[o], transition_type='D', magnitude=mag)); col[o] -= mv
                        else:
                            while d == o:
                                d = int(rng.integers(0, nS))
                            trs.append(pm.Transition(origin=states[o], destination=states[d], transition_type='T', magnitude=mag)); col[o] -= mv; col[d] += mv
                    events.append(pm.Event(rate='r*%s' % states[0], transition_list=trs)); want.append(col)
                ode = pm.SimulateOde(states, ['r', 'q'], event=events)
                got = sympy.Matrix(ode.get_StateChangeMatrix())
                exp = sympy.Matrix(want).T
                diff = (got - exp).subs({sympy.Symbol('q', real=True): q}) if got.shape == exp.shape else None
                if diff is None or any(sympy.simplify(sympy.sympify(str(x)) ) != 0 for x in diff):
                    inp = "states %s, events %s" % (states, [[(str(t.transition_type), t.origin, t.destination, t._magnitude) for t in ev.transition_list] for ev in events])
                    bad.append("state change matrix %s, definition gives %s" % (got.tolist(), exp.tolist()))
                    break
    except Exception as e:
        bad.append("raises %s: %s" % (type(e).__name__, e))
    return {'reproduced': bool(bad), 'observed': bad, 'input': inp or '80 random event lists'}


@contract('C01/get_StateChangeMatrix', ['C01', 'C10', 'C04'], BAS + 'get_StateChangeMatrix', max_paths=4000, replay=_replay_vmat)
def state_change(vc):
    """vMat[i, e] = net signed magnitude of event e on state i (sum over its transitions)"""
    mv = ModelView(vc)
    nS, nE = mv.nS, mv.nE
    PSK, PSE = sums(vc, False, 'v')
    st = {}
    F = 'pygom.model.base_ode_model:BaseOdeModel.get_StateChangeMatrix'
    i, e2 = z3.Int('inv_i'), z3.Int('inv_e')
    cell = lambda i_, e_: val(z3.Select(mv.obj.fields['_vMat'].arr, i_, e_))

    def inplace(it, view):
        mv.obj.fields['_vMat'].havoc_inplace(it, '_vMat')

    def shape(view):
        v = mv.obj.fields['_vMat']
        return z3.And(to_num(v.rows) == nS, to_num(v.cols) == nE)
    vc.loop(F, 0, lambda view, e: [('finished columns hold the net magnitudes; later columns are still zero',
                                    z3.ForAll([i, e2], z3.Implies(z3.And(i >= 0, i < nS, e2 >= 0, e2 < nE),
                                                                  cell(i, e2) == z3.If(e2 < e, PSK(e2, K(e2), i), 0.0))))],
            inplace=(inplace,), ghost=lambda it, view, e: st.__setitem__('e', e))
    vc.loop(F, 1, lambda view, k: [('the current column holds the first k transitions',
                                    z3.ForAll([i, e2], z3.Implies(z3.And(i >= 0, i < nS, e2 >= 0, e2 < nE),
                                                                  cell(i, e2) == z3.If(e2 < st['e'], PSK(e2, K(e2), i),
                                                                                       z3.If(e2 == st['e'], PSK(e2, k, i), 0.0)))))],
            inplace=(inplace,))
    out = vc.call(vc.func(F), mv.obj)
    vc.ensure('returns normally for every well-formed model', out.returned)
    if not out.returned:
        return
    v = out.value
    vc.ensure('shape (number of states, number of events)', isinstance(v, SMatrix) and z3.And(to_num(v.rows) == nS, to_num(v.cols) == nE))
    vc.ensure('vMat[i,e] = sum over the transitions of e of magnitude x incidence, under every valuation',
              z3.ForAll([i, e2], z3.Implies(z3.And(i >= 0, i < nS, e2 >= 0, e2 < nE), val(z3.Select(v.arr, i, e2)) == PSK(e2, K(e2), i))))
    vc.canary('canary: reachable', z3.BoolVal(False))


@contract('C01/get_EventRateVector', ['C01', 'C04', 'C05'], BAS + 'get_EventRateVector')
def event_rates(vc):
    """rates[e] is the parsed rate of event e, in declaration order"""
    mv = ModelView(vc)
    nE = mv.nE
    F = 'pygom.model.base_ode_model:BaseOdeModel.get_EventRateVector'
    e2 = z3.Int('inv_e')

    def inplace(it, view):
        mv.obj.fields['_eventRateVector'].havoc_inplace(it, '_erv')
    vc.loop(F, 0, lambda view, e: [('first e entries are the parsed rates',
                                    z3.ForAll([e2], z3.Implies(z3.And(e2 >= 0, e2 < e), z3.Select(mv.obj.fields['_eventRateVector'].arr, e2, 0) == Parse(rate(e2)))))],
            inplace=(inplace,))
    out = vc.call(vc.func(F), mv.obj)
    vc.ensure('returns normally', out.returned)
    if not out.returned:
        return
    v = out.value
    vc.ensure('one entry per event', isinstance(v, SMatrix) and z3.And(to_num(v.rows) == nE, to_num(v.cols) == 1))
    vc.ensure('rates[e] = Parse(rate of event e)', z3.ForAll([e2], z3.Implies(z3.And(e2 >= 0, e2 < nE), z3.Select(v.arr, e2, 0) == Parse(rate(e2)))))


@contract('C01/get_pureOdeVector', ['C01', 'C04'], BAS + 'get_pureOdeVector')
def pure_vector(vc):
    """pure[i] = sum of the explicit ODE terms whose dependent variable is state i"""
    mv = ModelView(vc)
    nS, nQ = mv.nS, mv.nQ
    PSQ = ode_sums(vc)
    F = 'pygom.model.base_ode_model:BaseOdeModel.get_pureOdeVector'
    i = z3.Int('inv_i')
    vc.loop(F, 0, lambda view, q: [('accumulated ODE terms', z3.ForAll([i], z3.Implies(z3.And(i >= 0, i < nS), col(view['pure_ode'], i) == PSQ(q, i))))],
            modifies=('pure_ode',))
    out = vc.call(vc.func(F), mv.obj)
    vc.ensure('returns normally', out.returned)
    if not out.returned:
        return
    v = out.value
    vc.ensure('a column vector with one entry per state', isinstance(v, SMatrix) and z3.And(to_num(v.rows) == nS, to_num(v.cols) == 1))
    vc.ensure('pure[i] = sum of explicit terms for state i', z3.ForAll([i], z3.Implies(z3.And(i >= 0, i < nS), col(v, i) == PSQ(nQ, i))))


def _replay_reactant(clause, m):
    """random event lists (several transitions per event, the same state in more than one of them) against the definition"""
    import numpy as np
    from contracts import native
    pm = native.imp('pygom.model')
    rng = np.random.default_rng(7)
    bad, inp = [], None
    try:
        with native.quiet():
            for _ in range(60):
                nS = int(rng.integers(1, 5))
                states = ['s%d' % i for i in range(nS)]
                events, want = [], []
                for e in range(int(rng.integers(1, 4))):
                    trs, col = [], [0] * nS
                    for k in range(int(rng.integers(1, 4))):
                        typ = ['B', 'D', 'T'][int(rng.integers(0, 3))]
                        o, d = int(rng.integers(0, nS)), int(rng.integers(0, nS))
                        if typ == 'B':
                            trs.append(pm.Transition(destination=states[d], transition_type='B')); col[d] = 1
                        elif typ == 'D':
                            trs.append(pm.Transition(origin=states[o], transition_type='D')); col[o] = 1
                        else:
                            trs.append(pm.Transition(origin=states[o], destination=states[d], transition_type='T')); col[o] = 1; col[d] = 1
                    events.append(pm.Event(rate='r*%s' % states[0], transition_list=trs)); want.append(col)
                ode = pm.SimulateOde(states, ['r'], event=events)
                got = np.asarray(ode.get_ReactantMatrix())
                exp = np.array(want).T
                if got.shape != exp.shape or not (got == exp).all():
                    inp = "states %s, events %s" % (states, [[(str(t.transition_type), t.origin, t.destination) for t in ev.transition_list] for ev in events])
                    bad.append("reactant matrix %s, definition gives %s" % (got.tolist(), exp.tolist()))
                    break
    except Exception as e:
        bad.append("raises %s: %s" % (type(e).__name__, e))
    return {'reproduced': bool(bad), 'observed': bad, 'input': inp or '60 random event lists'}


@contract('C01/get_ReactantMatrix', ['C01', 'C04'], BAS + 'get_ReactantMatrix', max_paths=4000, replay=_replay_reactant)
def reactant_matrix(vc):
    """lambda[i, e] is 1 when state i takes part in a transition of event e (origin of a death or transfer, destination of a birth or
    transfer) and 0 otherwise -- in particular every entry is 0 or 1, which is what the tau-leap safety kernel is given (C04)"""
    mv = ModelView(vc)
    nS, nE = mv.nS, mv.nE
    F = 'pygom.model.base_ode_model:BaseOdeModel.get_ReactantMatrix'
    B_ = z3.BoolSort()
    POR = z3.Function('Involved', I, I, I, B_)          # POR(e, k, i): state i takes part in one of the first k transitions of event e
    e, k, i = z3.Int('po_e'), z3.Int('po_k'), z3.Int('po_i')

    def involved(e_, k_, i_):
        return z3.Or(z3.And(z3.Or(ty(e_, k_) == 2, ty(e_, k_) == 0), ix(dst(e_, k_)) == i_),
                     z3.And(z3.Or(ty(e_, k_) == 2, ty(e_, k_) == 1), ix(org(e_, k_)) == i_))
    vc.assume(z3.ForAll([e, i], z3.Not(POR(e, 0, i)), patterns=[POR(e, 0, i)]))
    vc.assume(z3.ForAll([e, k, i], z3.Implies(k >= 0, POR(e, k + 1, i) == z3.Or(POR(e, k, i), involved(e, k, i))), patterns=[POR(e, k + 1, i)]))
    st = {}
    i2, e2 = z3.Int('inv_i'), z3.Int('inv_e')
    cell = lambda i_, e_: mv.obj.fields['_lambdaMat'].get((i_, e_))

    def inplace(it, view):
        mv.obj.fields['_lambdaMat'].havoc_inplace(it, 'lambdaMat')

    def shape():
        m = mv.obj.fields['_lambdaMat']
        return z3.And(to_num(m.shape[0]) == nS, to_num(m.shape[1]) == nE)
    vc.loop(F, 0, lambda view, ee: [('finished columns hold the incidence of their event; later columns are still zero',
                                     z3.And(shape(), z3.ForAll([i2, e2], z3.Implies(z3.And(i2 >= 0, i2 < nS, e2 >= 0, e2 < nE),
                                                                                cell(i2, e2) == z3.If(z3.And(e2 < ee, POR(e2, K(e2), i2)), 1, 0)))))],
            inplace=(inplace,), ghost=lambda it, view, ee: st.__setitem__('e', ee))
    vc.loop(F, 1, lambda view, kk: [('the current column holds the incidence of the first k transitions',
                                     z3.And(shape(), z3.ForAll([i2, e2], z3.Implies(z3.And(i2 >= 0, i2 < nS, e2 >= 0, e2 < nE),
                                                                                cell(i2, e2) == z3.If(z3.Or(z3.And(e2 < st['e'], POR(e2, K(e2), i2)),
                                                                                                            z3.And(e2 == st['e'], POR(e2, kk, i2))), 1, 0)))))],
            inplace=(inplace,))
    out = vc.call(vc.func(F), mv.obj)
    vc.ensure('returns normally for every well-formed model', out.returned)
    if not out.returned:
        return
    m = out.value
    from pyvc.lib import SArr
    vc.ensure('shape (number of states, number of events)', isinstance(m, SArr) and z3.And(to_num(m.shape[0]) == nS, to_num(m.shape[1]) == nE))
    vc.ensure('entry (i, e) is 1 exactly when state i takes part in some transition of event e, else 0 (so every entry is 0 or 1)',
              z3.ForAll([i2, e2], z3.Implies(z3.And(i2 >= 0, i2 < nS, e2 >= 0, e2 < nE), m.get((i2, e2)) == z3.If(POR(e2, K(e2), i2), 1, 0))))
    vc.canary('canary: reachable', z3.BoolVal(False))
