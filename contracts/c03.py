"""C03 -- Jacobian, gradient and higher derivative generators are the true derivatives.

With s_j = symbol of state j and p_k = symbol of parameter k (declaration order), and D the
derivative (sympy.diff / Matrix.jacobian are assumed to be the derivative):
    jacobian[i,j]              = D(ode_i, s_j)
    grad[i,k]                  = D(ode_i, p_k)
    grad_jacobian[k*nS+i, j]   = D(grad[i,k], s_j) = D(D(ode_i, p_k), s_j)
    diff_jacobian[e*nS+a, b]   = D(D(ode_e, s_a), s_b)
    transitionJacobian F[i,j]  = sum_k D(rate_i, s_k) * vMat[k,j]         (under every valuation)
    transitionMean[i]          = sum_j F[i,j] * rate_j,  transitionVar[i] = sum_j F[i,j]^2 * rate_j"""
import z3
from pyvc.driver import contract
from pyvc.lib_sympy import SMatrix, SExpr, val, D, Expr, StateSym, ParamSym, e_mul
from pyvc.values import to_num, Model, Builtin, Unsupported, SymIter
from contracts.modelview import ModelView, sid, pid

I, R = z3.IntSort(), z3.RealSort()
DETM = 'pygom.model.deterministic:DeterministicOde.'
SIMM = 'pygom.model.simulate:SimulateOde.'
ODE = z3.Function('ODE', I, Expr)           # the model's ode vector, entry i (opaque here; C01 says what it is)
GRD = z3.Function('GRD', I, I, Expr)
RATE = z3.Function('RATEX', I, Expr)
VM = z3.Function('VMX', I, I, Expr)


def s_sym(j):
    return StateSym(sid(j))


def p_sym(k):
    return ParamSym(pid(k))


def with_ode(vc, mv):
    """get_ode_eqn is used through its contract: it (re)builds self._ode, a column of nS expressions"""
    i, j = z3.Int('oi'), z3.Int('oj')

    def summ(it, a, k):
        m = SMatrix(mv.nS, 1, z3.Lambda([i, j], ODE(i)))
        mv.obj.fields['_ode'] = m
        return m
    vc.summary('pygom.model.deterministic:DeterministicOde.get_ode_eqn', summ)


@contract('C03/get_jacobian_eqn', ['C03', 'C13'], DETM + 'get_jacobian_eqn')
def jacobian(vc):
    """jacobian[i,j] = D(ode_i, state symbol j); the simplification pass changes nothing"""
    mv = ModelView(vc)
    nS = mv.nS
    with_ode(vc, mv)
    F = 'pygom.model.deterministic:DeterministicOde.get_jacobian_eqn'
    a, b = z3.Int('ja'), z3.Int('jb')
    st = {}
    J = lambda: mv.obj.fields['_Jacobian']
    same = lambda: z3.ForAll([a, b], z3.Implies(z3.And(a >= 0, a < nS, b >= 0, b < nS), z3.Select(J().arr, a, b) == D(ODE(a), s_sym(b))))

    def inplace(it, view):
        J().havoc_inplace(it, 'J')
        mv.obj.fields['_isDifficult'] = it.ctx.fresh_bool('isDifficult')
    vc.loop(F, 0, lambda view, k: [('cells are the derivatives', same())], inplace=(inplace,))
    vc.loop(F, 1, lambda view, k: [('cells are the derivatives', same())], inplace=(inplace,))
    out = vc.call(vc.func(F), mv.obj)
    vc.ensure('returns normally', out.returned)
    if not out.returned:
        return
    m = out.value
    vc.ensure('shape (nS, nS)', isinstance(m, SMatrix) and z3.And(to_num(m.rows) == nS, to_num(m.cols) == nS))
    vc.ensure('jacobian[i,j] = D(ode_i, s_j), rows and columns in declaration order',
              z3.ForAll([a, b], z3.Implies(z3.And(a >= 0, a < nS, b >= 0, b < nS), z3.Select(m.arr, a, b) == D(ODE(a), s_sym(b)))))


@contract('C03/get_grad_eqn', ['C03', 'C13'], DETM + 'get_grad_eqn')
def grad(vc):
    """grad[i,k] = D(ode_i, parameter symbol k)"""
    mv = ModelView(vc)
    nS, nP = mv.nS, mv.nP
    with_ode(vc, mv)
    F = 'pygom.model.deterministic:DeterministicOde.get_grad_eqn'
    a, b = z3.Int('ga'), z3.Int('gb')
    st = {}
    G = lambda: mv.obj.fields['_Grad']
    cellok = lambda a_, b_: z3.Select(G().arr, a_, b_) == D(ODE(a_), p_sym(b_))

    def inplace(it, view):
        G().havoc_inplace(it, 'G')
        mv.obj.fields['_isDifficult'] = it.ctx.fresh_bool('isDifficult')
    vc.loop(F, 0, lambda view, i: [('rows before i are done', z3.ForAll([a, b], z3.Implies(z3.And(a >= 0, a < i, b >= 0, b < nP), cellok(a, b))))],
            inplace=(inplace,), ghost=lambda it, view, i: st.__setitem__('i', i))
    vc.loop(F, 1, lambda view, j: [('rows before i and the first j cells of row i are done',
                                    z3.ForAll([a, b], z3.Implies(z3.And(a >= 0, b >= 0, b < nP, z3.Or(a < st['i'], z3.And(a == st['i'], b < j))), cellok(a, b))))],
            inplace=(inplace,))
    out = vc.call(vc.func(F), mv.obj)
    vc.ensure('returns normally', out.returned)
    if not out.returned:
        return
    m = out.value
    vc.ensure('shape (nS, nP)', isinstance(m, SMatrix) and z3.And(to_num(m.rows) == nS, to_num(m.cols) == nP))
    vc.ensure('grad[i,k] = D(ode_i, p_k), rows and columns in declaration order',
              z3.ForAll([a, b], z3.Implies(z3.And(a >= 0, a < nS, b >= 0, b < nP), z3.Select(m.arr, a, b) == D(ODE(a), p_sym(b)))))


@contract('C03/get_grad_jacobian_eqn', ['C03', 'C13'], DETM + 'get_grad_jacobian_eqn')
def grad_jacobian(vc):
    """grad_jacobian[k*nS+i, j] = D(grad[i,k], state symbol j)"""
    mv = ModelView(vc)
    nS, nP = mv.nS, mv.nP
    gi, gj = z3.Int('gi'), z3.Int('gj')
    vc.summary('pygom.model.deterministic:DeterministicOde.get_grad_eqn', lambda it, a_, k_: SMatrix(nS, nP, z3.Lambda([gi, gj], GRD(gi, gj))))
    F = 'pygom.model.deterministic:DeterministicOde.get_grad_jacobian_eqn'
    k2, i2, j2 = z3.Int('qk'), z3.Int('qi'), z3.Int('qj')
    st = {}
    GJ = lambda: mv.obj.fields['_GradJacobian']
    cellok = lambda k_, i_, j_: z3.Select(GJ().arr, k_ * nS + i_, j_) == D(GRD(i_, k_), s_sym(j_))
    rng = z3.And(k2 >= 0, k2 < nP, i2 >= 0, i2 < nS, j2 >= 0, j2 < nS)

    def inplace(it, view):
        GJ().havoc_inplace(it, 'GJ')
        mv.obj.fields['_isDifficult'] = it.ctx.fresh_bool('isDifficult')
    vc.loop(F, 0, lambda view, k: [('blocks before k are done', z3.ForAll([k2, i2, j2], z3.Implies(z3.And(rng, k2 < k), cellok(k2, i2, j2))))],
            inplace=(inplace,), ghost=lambda it, view, k: st.__setitem__('k', k))
    vc.loop(F, 1, lambda view, i: [('blocks before k and rows before i of block k are done',
                                    z3.ForAll([k2, i2, j2], z3.Implies(z3.And(rng, z3.Or(k2 < st['k'], z3.And(k2 == st['k'], i2 < i))), cellok(k2, i2, j2))))],
            inplace=(inplace,), ghost=lambda it, view, i: st.__setitem__('i', i))
    vc.loop(F, 2, lambda view, j: [('... and the first j cells of the current row',
                                    z3.ForAll([k2, i2, j2], z3.Implies(z3.And(rng, z3.Or(k2 < st['k'], z3.And(k2 == st['k'], i2 < st['i']),
                                                                                       z3.And(k2 == st['k'], i2 == st['i'], j2 < j))), cellok(k2, i2, j2))))],
            inplace=(inplace,))
    # injectivity of (k, i) -> k*nS + i for 0 <= i < nS (a non-linear integer fact, proved here once and used by the invariants)
    ka, ia, kb, ib = z3.Int('ka'), z3.Int('ia'), z3.Int('kb'), z3.Int('ib')
    vc.ensure('lemma: (k,i) -> k*nS+i is injective on 0<=i<nS',
              z3.Implies(z3.And(ia >= 0, ia < nS, ib >= 0, ib < nS, ka >= 0, kb >= 0, ka * nS + ia == kb * nS + ib), z3.And(ka == kb, ia == ib)))
    vc.assume(z3.ForAll([ka, ia, kb, ib], z3.Implies(z3.And(ia >= 0, ia < nS, ib >= 0, ib < nS, ka >= 0, kb >= 0, ka * nS + ia == kb * nS + ib),
                                                      z3.And(ka == kb, ia == ib))))
    out = vc.call(vc.func(F), mv.obj)
    vc.ensure('returns normally', out.returned)
    if not out.returned:
        return
    m = out.value
    vc.ensure('shape (nS*nP, nS)', isinstance(m, SMatrix) and z3.And(to_num(m.rows) == nS * nP, to_num(m.cols) == nS))
    vc.ensure('grad_jacobian[k*nS+i, j] = D(grad[i,k], s_j)',
              z3.ForAll([k2, i2, j2], z3.Implies(rng, z3.Select(m.arr, k2 * nS + i2, j2) == D(GRD(i2, k2), s_sym(j2)))))
