"""C03 -- Jacobian, gradient and higher derivative generators are the true derivatives.

With s_j = symbol of state j and p_k = symbol of parameter k (declaration order), and D the
derivative (sympy.diff / Matrix.jacobian are assumed to be the derivative):
    jacobian[i,j]              = D(ode_i, s_j)
    grad[i,k]                  = D(ode_i, p_k)
    grad_jacobian[k*nS+i, j]   = D(grad[i,k], s_j) = D(D(ode_i, p_k), s_j)
    diff_jacobian[e*nS+a, b]   = D(D(ode_e, s_a), s_b)
    transitionJacobian F[i,j]  = sum_k D(rate_i, s_k) * vMat[k,j]         (under every valuation)
    transitionMean[i]          = sum_j F[i,j] * rate_j,  transitionVar[i] = sum_j F[i,j]^2 * rate_j"""
import z3
from pyvc.driver import contract
from pyvc.lib_sympy import SMatrix, SExpr, val, D, Expr, StateSym, ParamSym, e_mul
from pyvc.values import to_num, Model, Builtin, Unsupported, SymIter
from contracts.modelview import ModelView, sid, pid

I, R = z3.IntSort(), z3.RealSort()
DETM = 'pygom.model.deterministic:DeterministicOde.'
SIMM = 'pygom.model.simulate:SimulateOde.'
ODE = z3.Function('ODE', I, Expr)           # the model's ode vector, entry i (opaque here; C01 says what it is)
GRD = z3.Function('GRD', I, I, Expr)
RATE = z3.Function('RATEX', I, Expr)
VM = z3.Function('VMX', I, I, Expr)


def s_sym(j):
    return StateSym(sid(j))


def p_sym(k):
    return ParamSym(pid(k))


def with_ode(vc, mv):
    """get_ode_eqn is used through its contract: it (re)builds self._ode, a column of nS expressions"""
    i, j = z3.Int('oi'), z3.Int('oj')

    def summ(it, a, k):
        m = SMatrix(mv.nS, 1, z3.Lambda([i, j], ODE(i)))
        mv.obj.fields['_ode'] = m
        return m
    vc.summary('pygom.model.deterministic:DeterministicOde.get_ode_eqn', summ)
    # the object may have been used before (C08: and modified since): whatever an earlier derivation left in self._ode is an
    # arbitrary, possibly stale, system -- a derivative generator that reads it without re-deriving the ODE is wrong
    STALE = z3.Function('STALE_ODE', I, Expr)
    mv.obj.fields['_ode'] = SMatrix(mv.nS, 1, z3.Lambda([i, j], STALE(i)))


@contract('C03/get_jacobian_eqn', ['C03', 'C13', 'C08'], DETM + 'get_jacobian_eqn')
def jacobian(vc):
    """jacobian[i,j] = D(ode_i, state symbol j); the simplification pass changes nothing"""
    mv = ModelView(vc)
    nS = mv.nS
    with_ode(vc, mv)
    F = 'pygom.model.deterministic:DeterministicOde.get_jacobian_eqn'
    a, b = z3.Int('ja'), z3.Int('jb')
    st = {}
    J = lambda: mv.obj.fields['_Jacobian']
    same = lambda: z3.ForAll([a, b], z3.Implies(z3.And(a >= 0, a < nS, b >= 0, b < nS), z3.Select(J().arr, a, b) == D(ODE(a), s_sym(b))))

    def inplace(it, view):
        J().havoc_inplace(it, 'J')
        mv.obj.fields['_isDifficult'] = it.ctx.fresh_bool('isDifficult')
    vc.loop(F, 0, lambda view, k: [('cells are the derivatives', same())], inplace=(inplace,))
    vc.loop(F, 1, lambda view, k: [('cells are the derivatives', same())], inplace=(inplace,))
    out = vc.call(vc.func(F), mv.obj)
    vc.ensure('returns normally', out.returned)
    if not out.returned:
        return
    m = out.value
    vc.ensure('shape (nS, nS)', isinstance(m, SMatrix) and z3.And(to_num(m.rows) == nS, to_num(m.cols) == nS))
    vc.ensure('jacobian[i,j] = D(ode_i, s_j), rows and columns in declaration order',
              z3.ForAll([a, b], z3.Implies(z3.And(a >= 0, a < nS, b >= 0, b < nS), z3.Select(m.arr, a, b) == D(ODE(a), s_sym(b)))))


@contract('C03/get_grad_eqn', ['C03', 'C13', 'C08'], DETM + 'get_grad_eqn')
def grad(vc):
    """grad[i,k] = D(ode_i, parameter symbol k)"""
    mv = ModelView(vc)
    nS, nP = mv.nS, mv.nP
    with_ode(vc, mv)
    F = 'pygom.model.deterministic:DeterministicOde.get_grad_eqn'
    a, b = z3.Int('ga'), z3.Int('gb')
    st = {}
    G = lambda: mv.obj.fields['_Grad']
    cellok = lambda a_, b_: z3.Select(G().arr, a_, b_) == D(ODE(a_), p_sym(b_))

    def inplace(it, view):
        G().havoc_inplace(it, 'G')
        mv.obj.fields['_isDifficult'] = it.ctx.fresh_bool('isDifficult')
    vc.loop(F, 0, lambda view, i: [('rows before i are done', z3.ForAll([a, b], z3.Implies(z3.And(a >= 0, a < i, b >= 0, b < nP), cellok(a, b))))],
            inplace=(inplace,), ghost=lambda it, view, i: st.__setitem__('i', i))
    vc.loop(F, 1, lambda view, j: [('rows before i and the first j cells of row i are done',
                                    z3.ForAll([a, b], z3.Implies(z3.And(a >= 0, b >= 0, b < nP, z3.Or(a < st['i'], z3.And(a == st['i'], b < j))), cellok(a, b))))],
            inplace=(inplace,))
    out = vc.call(vc.func(F), mv.obj)
    vc.ensure('returns normally', out.returned)
    if not out.returned:
        return
    m = out.value
    vc.ensure('shape (nS, nP)', isinstance(m, SMatrix) and z3.And(to_num(m.rows) == nS, to_num(m.cols) == nP))
    vc.ensure('grad[i,k] = D(ode_i, p_k), rows and columns in declaration order',
              z3.ForAll([a, b], z3.Implies(z3.And(a >= 0, a < nS, b >= 0, b < nP), z3.Select(m.arr, a, b) == D(ODE(a), p_sym(b)))))


@contract('C03/get_grad_jacobian_eqn', ['C03', 'C13', 'C08'], DETM + 'get_grad_jacobian_eqn')
def grad_jacobian(vc):
    """grad_jacobian[k*nS+i, j] = D(grad[i,k], state symbol j)"""
    mv = ModelView(vc)
    nS, nP = mv.nS, mv.nP
    gi, gj = z3.Int('gi'), z3.Int('gj')
    vc.summary('pygom.model.deterministic:DeterministicOde.get_grad_eqn', lambda it, a_, k_: SMatrix(nS, nP, z3.Lambda([gi, gj], GRD(gi, gj))))
    F = 'pygom.model.deterministic:DeterministicOde.get_grad_jacobian_eqn'
    k2, i2, j2 = z3.Int('qk'), z3.Int('qi'), z3.Int('qj')
    st = {}
    GJ = lambda: mv.obj.fields['_GradJacobian']
    cellok = lambda k_, i_, j_: z3.Select(GJ().arr, k_ * nS + i_, j_) == D(GRD(i_, k_), s_sym(j_))
    rng = z3.And(k2 >= 0, k2 < nP, i2 >= 0, i2 < nS, j2 >= 0, j2 < nS)

    def inplace(it, view):
        GJ().havoc_inplace(it, 'GJ')
        mv.obj.fields['_isDifficult'] = it.ctx.fresh_bool('isDifficult')
    vc.loop(F, 0, lambda view, k: [('blocks before k are done', z3.ForAll([k2, i2, j2], z3.Implies(z3.And(rng, k2 < k), cellok(k2, i2, j2))))],
            inplace=(inplace,), ghost=lambda it, view, k: st.__setitem__('k', k))
    vc.loop(F, 1, lambda view, i: [('blocks before k and rows before i of block k are done',
                                    z3.ForAll([k2, i2, j2], z3.Implies(z3.And(rng, z3.Or(k2 < st['k'], z3.And(k2 == st['k'], i2 < i))), cellok(k2, i2, j2))))],
            inplace=(inplace,), ghost=lambda it, view, i: st.__setitem__('i', i))
    vc.loop(F, 2, lambda view, j: [('... and the first j cells of the current row',
                                    z3.ForAll([k2, i2, j2], z3.Implies(z3.And(rng, z3.Or(k2 < st['k'], z3.And(k2 == st['k'], i2 < st['i']),
                                                                                       z3.And(k2 == st['k'], i2 == st['i'], j2 < j))), cellok(k2, i2, j2))))],
            inplace=(inplace,))
    # injectivity of (k, i) -> k*nS + i for 0 <= i < nS (a non-linear integer fact, proved here once and used by the invariants)
    ka, ia, kb, ib = z3.Int('ka'), z3.Int('ia'), z3.Int('kb'), z3.Int('ib')
    vc.ensure('lemma: (k,i) -> k*nS+i is injective on 0<=i<nS',
              z3.Implies(z3.And(ia >= 0, ia < nS, ib >= 0, ib < nS, ka >= 0, kb >= 0, ka * nS + ia == kb * nS + ib), z3.And(ka == kb, ia == ib)))
    vc.assume(z3.ForAll([ka, ia, kb, ib], z3.Implies(z3.And(ia >= 0, ia < nS, ib >= 0, ib < nS, ka >= 0, kb >= 0, ka * nS + ia == kb * nS + ib),
                                                      z3.And(ka == kb, ia == ib))))
    out = vc.call(vc.func(F), mv.obj)
    vc.ensure('returns normally', out.returned)
    if not out.returned:
        return
    m = out.value
    vc.ensure('shape (nS*nP, nS)', isinstance(m, SMatrix) and z3.And(to_num(m.rows) == nS * nP, to_num(m.cols) == nS))
    vc.ensure('grad_jacobian[k*nS+i, j] = D(grad[i,k], s_j)',
              z3.ForAll([k2, i2, j2], z3.Implies(rng, z3.Select(m.arr, k2 * nS + i2, j2) == D(GRD(i2, k2), s_sym(j2)))))


@contract('C03/get_diff_jacobian_eqn', ['C03', 'C13', 'C08'], DETM + 'get_diff_jacobian_eqn', max_paths=4000)
def diff_jacobian(vc):
    """diff_jacobian[e*nS + a, b] = D(D(ode_e, s_a), s_b): one nS x nS block per equation, stacked in order"""
    from pyvc.lib_sympy import SMatList, ZERO
    mv = ModelView(vc)
    nS = mv.nS
    with_ode(vc, mv)
    F = 'pygom.model.deterministic:DeterministicOde.get_diff_jacobian_eqn'
    e2, a, b = z3.Int('de'), z3.Int('da'), z3.Int('db')
    st = {}
    dd = lambda e_, a_, b_: D(D(ODE(e_), s_sym(a_)), s_sym(b_))
    ab = z3.And(a >= 0, a < nS, b >= 0, b < nS)

    def before0(it, view):
        view.set('diffJac', SMatList(0, nS, nS, lambda e_, a_, b_: ZERO))

    def inplace_flag(it, view):
        mv.obj.fields['_isDifficult'] = it.ctx.fresh_bool('isDifficult')
    vc.loop(F, 0, lambda view, e: [('one finished block per processed equation',
                                    z3.And(to_num(view['diffJac'].length) == e,
                                           z3.ForAll([e2, a, b], z3.Implies(z3.And(ab, e2 >= 0, e2 < e), view['diffJac'].cell(e2, a, b) == dd(e2, a, b)))))],
            before=before0, modifies=('diffJac',), inplace=(inplace_flag,), ghost=lambda it, view, e: st.__setitem__('e', e))
    Jc = lambda view, a_, b_: z3.Select(view['J'].arr, a_, b_)
    vc.loop(F, 1, lambda view, i: [('rows before i of the current block', z3.And(to_num(view['J'].rows) == nS, to_num(view['J'].cols) == nS,
                                                                                 z3.ForAll([a, b], z3.Implies(z3.And(ab, a < i), Jc(view, a, b) == dd(st['e'], a, b)))))],
            modifies=('J',), inplace=(inplace_flag,), ghost=lambda it, view, i: st.__setitem__('i', i))
    vc.loop(F, 2, lambda view, j: [('rows before i and the first j cells of row i', z3.And(to_num(view['J'].rows) == nS, to_num(view['J'].cols) == nS,
                                   z3.ForAll([a, b], z3.Implies(z3.And(ab, z3.Or(a < st['i'], z3.And(a == st['i'], b < j))), Jc(view, a, b) == dd(st['e'], a, b)))))],
            modifies=('J',), inplace=(inplace_flag,))
    vc.loop(F, 3, lambda view, k: [('the first k+1 blocks are stacked in order',
                                    z3.And(to_num(view['diffJacMatrix'].rows) == (k + 1) * nS, to_num(view['diffJacMatrix'].cols) == nS,
                                           z3.ForAll([e2, a, b], z3.Implies(z3.And(ab, e2 >= 0, e2 <= k),
                                                                            z3.Select(view['diffJacMatrix'].arr, e2 * nS + a, b) == view['diffJac'].cell(e2, a, b)))))])
    ka, ia, kb, ib = z3.Int('ka'), z3.Int('ia'), z3.Int('kb'), z3.Int('ib')
    inj = z3.Implies(z3.And(ia >= 0, ia < nS, ib >= 0, ib < nS, ka >= 0, kb >= 0, ka * nS + ia == kb * nS + ib), z3.And(ka == kb, ia == ib))
    vc.ensure('lemma: (e,a) -> e*nS+a is injective on 0<=a<nS', inj)
    vc.assume(z3.ForAll([ka, ia, kb, ib], inj))
    out = vc.call(vc.func(F), mv.obj)
    vc.ensure('returns normally', out.returned)
    if not out.returned:
        return
    m = out.value
    vc.ensure('shape (nS*nS, nS)', isinstance(m, SMatrix) and z3.And(to_num(m.rows) == nS * nS, to_num(m.cols) == nS))
    vc.ensure('diff_jacobian[e*nS+a, b] = D(D(ode_e, s_a), s_b)',
              z3.ForAll([e2, a, b], z3.Implies(z3.And(ab, e2 >= 0, e2 < nS), z3.Select(m.arr, e2 * nS + a, b) == dd(e2, a, b))))


def _sim_summaries(vc, mv, with_F=False):
    i, j = z3.Int('si'), z3.Int('sj')
    FX = z3.Function('FX', I, I, Expr)

    def scm(it, a_, k_):
        m = SMatrix(mv.nS, mv.nE, z3.Lambda([i, j], VM(i, j)))
        mv.obj.fields['_vMat'] = m
        return m

    def erv(it, a_, k_):
        m = SMatrix(mv.nE, 1, z3.Lambda([i, j], RATE(i)))
        mv.obj.fields['_eventRateVector'] = m
        return m

    def tj(it, a_, k_):
        m = SMatrix(mv.nE, mv.nE, z3.Lambda([i, j], FX(i, j)))
        mv.obj.fields['_transitionJacobian'] = m
        return m
    vc.summary('pygom.model.base_ode_model:BaseOdeModel.get_StateChangeMatrix', scm)
    vc.summary('pygom.model.base_ode_model:BaseOdeModel.get_EventRateVector', erv)
    if with_F:
        vc.summary('pygom.model.simulate:SimulateOde.get_TransitionJacobian', tj)
    return FX


@contract('C03/get_TransitionJacobian', ['C03'], SIMM + 'get_TransitionJacobian', max_paths=4000)
def transition_jacobian(vc):
    """F[i,j] = sum over states k of D(rate_i, s_k) * vMat[k,j], under every valuation"""
    mv = ModelView(vc)
    nS, nE = mv.nS, mv.nE
    _sim_summaries(vc, mv)
    F = 'pygom.model.simulate:SimulateOde.get_TransitionJacobian'
    PSF = z3.Function('PSF', I, I, I, R)
    i2, j2, k2 = z3.Int('fi'), z3.Int('fj'), z3.Int('fk')
    vc.assume(z3.ForAll([i2, j2], PSF(i2, j2, 0) == 0, patterns=[PSF(i2, j2, 0)]))
    vc.assume(z3.ForAll([i2, j2, k2], z3.Implies(k2 >= 0, PSF(i2, j2, k2 + 1) == PSF(i2, j2, k2) + val(D(RATE(i2), s_sym(k2))) * val(VM(k2, j2))),
                        patterns=[PSF(i2, j2, k2 + 1)]))
    st = {}
    cell = lambda view, a, b: val(z3.Select(view['F'].arr, a, b))
    ij = z3.And(i2 >= 0, i2 < nE, j2 >= 0, j2 < nE)

    def inplace_flag(it, view):
        mv.obj.fields['_isDifficult'] = it.ctx.fresh_bool('isDifficult')

    def expect(view, i, j, k):
        return z3.ForAll([i2, j2], z3.Implies(ij, cell(view, i2, j2) == z3.If(z3.Or(i2 < i, z3.And(i2 == i, j2 < j)), PSF(i2, j2, nS),
                                                                              z3.If(z3.And(i2 == i, j2 == j), PSF(i2, j2, k), 0.0))))
    shape = lambda view: z3.And(to_num(view['F'].rows) == nE, to_num(view['F'].cols) == nE)
    vc.loop(F, 0, lambda view, i: [('rows before i are complete, the rest is zero', z3.And(shape(view), expect(view, i, z3.IntVal(0), z3.IntVal(0))))],
            modifies=('F',), inplace=(inplace_flag,), ghost=lambda it, view, i: st.__setitem__('i', i))
    vc.loop(F, 1, lambda view, j: [('... and the first j cells of row i', z3.And(shape(view), expect(view, st['i'], j, z3.IntVal(0))))],
            modifies=('F',), inplace=(inplace_flag,), ghost=lambda it, view, j: st.__setitem__('j', j))
    vc.loop(F, 2, lambda view, k: [('... and the first k states of cell (i,j)', z3.And(shape(view), expect(view, st['i'], st['j'], k)))],
            modifies=('F',), inplace=(inplace_flag,))
    out = vc.call(vc.func(F), mv.obj)
    vc.ensure('returns normally', out.returned)
    if not out.returned:
        return
    m = out.value
    vc.ensure('shape (nE, nE)', isinstance(m, SMatrix) and z3.And(to_num(m.rows) == nE, to_num(m.cols) == nE))
    vc.ensure('F[i,j] = sum_k D(rate_i, s_k) * vMat[k,j] under every valuation',
              z3.ForAll([i2, j2], z3.Implies(ij, val(z3.Select(m.arr, i2, j2)) == PSF(i2, j2, nS))))


def _mean_var(name, square):
    @contract('C03/' + name, ['C03'], SIMM + name, max_paths=4000)
    def run(vc):
        mv = ModelView(vc)
        nE = mv.nE
        FX = _sim_summaries(vc, mv, with_F=True)
        F = 'pygom.model.simulate:SimulateOde.' + name
        PSM = z3.Function('PSM', I, I, R)
        i2, j2 = z3.Int('mi'), z3.Int('mj')
        term = (val(FX(i2, j2)) * val(FX(i2, j2)) * val(RATE(j2))) if square else (val(FX(i2, j2)) * val(RATE(j2)))
        vc.assume(z3.ForAll([i2], PSM(i2, 0) == 0, patterns=[PSM(i2, 0)]))
        vc.assume(z3.ForAll([i2, j2], z3.Implies(j2 >= 0, PSM(i2, j2 + 1) == PSM(i2, j2) + term), patterns=[PSM(i2, j2 + 1)]))
        st = {}
        var = 'sigma2' if square else 'mu'
        cell = lambda view, a: val(z3.Select(view[var].arr, a, 0))
        shape = lambda view: z3.And(to_num(view[var].rows) == nE, to_num(view[var].cols) == 1)

        def expect(view, i, j):
            return z3.ForAll([i2], z3.Implies(z3.And(i2 >= 0, i2 < nE), cell(view, i2) == z3.If(i2 < i, PSM(i2, nE), z3.If(i2 == i, PSM(i2, j), 0.0))))
        vc.loop(F, 0, lambda view, i: [('entries before i are complete, the rest is zero', z3.And(shape(view), expect(view, i, z3.IntVal(0))))],
                modifies=(var,), ghost=lambda it, view, i: st.__setitem__('i', i))
        vc.loop(F, 1, lambda view, j: [('... and the first j terms of entry i', z3.And(shape(view), expect(view, st['i'], j)))], modifies=(var,))
        out = vc.call(vc.func(F), mv.obj)
        vc.ensure('returns normally', out.returned)
        if not out.returned:
            return
        m = out.value
        vc.ensure('one entry per event', isinstance(m, SMatrix) and z3.And(to_num(m.rows) == nE, to_num(m.cols) == 1))
        vc.ensure('entry i = sum_j F[i,j]%s * rate_j under every valuation' % ('^2' if square else ''),
                  z3.ForAll([i2], z3.Implies(z3.And(i2 >= 0, i2 < nE), val(z3.Select(m.arr, i2, 0)) == PSM(i2, nE))))
    run.__doc__ = "%s[i] = sum_j F[i,j]%s * rate_j" % (name, '^2' if square else '')
    return run


_mean_var('get_TransitionMean', False)
_mean_var('get_TransitionVar', True)
