"""C07 -- the gradient handed to optimisers is the derivative of cost: index selection and the chain rule.

Layout seam (DESIGN.md 4/C07).  A row of the integrated sensitivity solution is [x (nS) | S by parameter (nS*nP) | S0 (nS*nS)]:
column  ix + (p+1)*nS  holds  d x[ix] / d theta_p,  column  ix + (c+1+nP)*nS  holds  d x[ix] / d x0[c].
  _getTargetParamSensIndex()[a + b*num_s] = ix(state_name[a]) + (pidx(b) + 1)*nS      (b-th SUPPLIED free parameter, a-th NAMED state)
  _getTargetStateSensIndex()[a + c*num_s] = ix(state_name[a]) + (sidx(c) + 1 + nP)*nS  (nP = number of MODEL parameters)
  sens_to_grad(sens, dL)[b] = sum_i sum_a dL[i,a] * w[i,a] * sens[i, a + b*num_s]
so that, with dL = d loss / d yhat (C14) and the variational equations (C13), sensitivity(theta)[b] = d cost / d theta_b in the
order the free parameters were supplied."""
import z3
from pyvc.driver import contract
from pyvc.lib import SList, SArr, SMutList
from pyvc.values import Model, ObjVal, Builtin, TypeTag, SName, Unsupported, to_num, to_real

LOSS = 'pygom.loss.base_loss:BaseLoss.'
I, R, B = z3.IntSort(), z3.RealSort(), z3.BoolSort()


def replay_c07(clause, m):
    from standins import c07
    r = c07.run('quick', 5)
    if r['failures']:
        f = r['failures'][0]
        return {'reproduced': True, 'input': f['case'], 'observed': f['observed'], 'found_by': 'bounded stand-in (finite differences of cost / costIV)'}
    return {'reproduced': False, 'searched': r['bound']}


def int_list_ctor(vc):
    orig = vc.it.builtins_env.vars['list']

    def ctor(it, a, k):
        if not a:
            return SMutList(0, z3.K(I, z3.IntVal(0)))
        return orig.py_call(it, a, k)
    vc.it.builtins_env.vars['list'] = TypeTag('list', ctor=ctor)


def loss_object(vc, num_s, nS, nP, n_tp=None, n_ts=None):
    """a BaseLoss whose model answers get_state_index / get_param_index by uninterpreted functions of the position in the name lists"""
    six = vc.fn('state_index_of_named', I, I)          # ix(state_name[a])
    tpix = vc.fn('param_index_of_target', I, I)        # pidx(b)
    tsix = vc.fn('state_index_of_target', I, I)        # sidx(c)

    class Name(Model):
        def __init__(self, kind, k):
            self.kind, self.k = kind, k

    class Ode(Model):
        def py_getattr(self, it, name):
            if name == 'get_state_index':
                def gsi(it_, a, k):
                    v = a[0]
                    if isinstance(v, SList):
                        it_.ctx.oblige('pre(get_state_index): asked for the observed state names', getattr(v, 'what', None) == 'state_name')
                        return SList(num_s, lambda q: six(q))
                    if isinstance(v, Name) and v.kind == 'target_state':
                        return [tsix(v.k)]
                    raise Unsupported("get_state_index(%r)" % (v,))
                return Builtin('get_state_index', gsi)
            if name == 'get_param_index':
                def gpi(it_, a, k):
                    v = a[0]
                    if isinstance(v, Name) and v.kind == 'target_param':
                        return tpix(v.k)
                    raise Unsupported("get_param_index(%r)" % (v,))
                return Builtin('get_param_index', gpi)
            raise Unsupported("ode attribute %s" % name)
    cls = vc.cls('pygom.loss.base_loss:BaseLoss')
    sn = SList(num_s, lambda q: Name('state_name', q))
    sn.what = 'state_name'
    fields = {'_ode': Ode(), '_stateName': sn, '_num_state': nS, '_num_param': nP,
              '_targetParam': None if n_tp is None else SList(n_tp, lambda q: Name('target_param', q)),
              '_targetState': None if n_ts is None else SList(n_ts, lambda q: Name('target_state', q))}
    return ObjVal(cls, fields), six, tpix, tsix


def position_fn(vc, num_s):
    """POS(b, a): the number of appends made before the entry for block b, named state a.  Defined by the LINEAR recurrences
    POS(0,0) = 0, POS(b, a+1) = POS(b, a) + 1, POS(b+1, 0) = POS(b, num_s); its closed form POS(b, a) = b*num_s + a is the Lean
    lemma pos_closed (lemmas/Pygom.lean) and is supplied only as instances at the indices of the postcondition."""
    POS = vc.fn('POS', I, I, I)
    b, a = z3.Int('pos_b'), z3.Int('pos_a')
    vc.assume(POS(0, 0) == 0)
    vc.assume(z3.ForAll([b, a], POS(b, a + 1) == POS(b, a) + 1, patterns=[POS(b, a + 1)]))
    vc.assume(z3.ForAll([b], POS(b + 1, 0) == POS(b, num_s), patterns=[POS(b + 1, 0)]))
    return POS


def make_param_index(all_params):
    @contract('C07/_getTargetParamSensIndex/%s' % ('all-parameters' if all_params else 'target_param'), ['C07', 'C20'], LOSS + '_getTargetParamSensIndex',
              also=[LOSS + '_getTargetParamIndex'], replay=replay_c07)
    def param_index(vc):
        num_s, nS, nP = vc.int('num_s', ge=1), vc.int('nS', ge=1), vc.int('nP', ge=1)
        n_tp = None if all_params else vc.int('n_target_param', ge=1)
        obj, six, tpix, tsix = loss_object(vc, num_s, nS, nP, n_tp=n_tp)
        int_list_ctor(vc)
        num_out = nP if all_params else n_tp
        pidx = (lambda b: b) if all_params else (lambda b: tpix(b))
        F = LOSS + '_getTargetParamSensIndex'
        G = LOSS + '_getTargetParamIndex'
        st = {}
        m = z3.Int('ti_m')
        if not all_params:
            vc.loop(G, 0, lambda view, k: [('the first k target parameters are looked up, in the order supplied',
                                            z3.And(to_num(view['index_list'].length) == k,
                                                   z3.ForAll([m], z3.Implies(z3.And(m >= 0, m < k), z3.Select(view['index_list'].arr, m) == tpix(m)))))],
                    modifies=('index_list',))
        b_, a_ = z3.Int('inv_b'), z3.Int('inv_a')
        POS = position_fn(vc, num_s)
        OFFP = vc.fn('column_offset_of_parameter', I, I)      # abbreviation: OFFP(b) = (pidx(b) + 1)*nS
        vc.assume(z3.ForAll([b_], OFFP(b_) == (pidx(b_) + 1) * nS, patterns=[OFFP(b_)]))
        if not all_params:
            vc.assume(z3.ForAll([b_], OFFP(b_) == (tpix(b_) + 1) * nS, patterns=[tpix(b_)]))

        def entries(out, upto_b, upto_a):
            return z3.ForAll([b_, a_], z3.Implies(z3.And(b_ >= 0, a_ >= 0, a_ < num_s, z3.Or(b_ < upto_b, z3.And(b_ == upto_b, a_ < upto_a))),
                                                  z3.And(POS(b_, a_) >= 0, POS(b_, a_) < to_num(out.length), z3.Select(out.arr, POS(b_, a_)) == six(a_) + OFFP(b_))), patterns=[POS(b_, a_)])
        vc.loop(F, 0, lambda view, b: [('blocks of the first b free parameters are complete', z3.And(to_num(view['index_out'].length) == POS(b, 0), entries(view['index_out'], b, 0)))],
                modifies=('index_out',), ghost=lambda it, view, b: st.__setitem__('b', b))
        vc.loop(F, 1, lambda view, a: [('the current block holds the first a named states',
                                        z3.And(to_num(view['index_out'].length) == POS(st['b'], a), entries(view['index_out'], st['b'], a)))],
                modifies=('index_out',))
        out = vc.call(vc.func(F), obj)
        vc.ensure('returns normally', out.returned)
        if not out.returned:
            return
        r = out.value
        a, b = z3.Int('q_a'), z3.Int('q_b')
        vc.assume(z3.And(a >= 0, a < num_s, b >= 0, b < num_out))
        vc.it.ctx.note_trusted("lemma pos_closed (Lean-checked): the append position of block b, state a is b*num_s + a")
        vc.assume(z3.And(POS(b, a) == a + b * num_s, POS(num_out, 0) == num_s * num_out))      # instances of the lemma
        vc.binds(isinstance(r, SMutList), 'the column indices are returned as a python list')
        vc.ensure('one column index per (named state, free parameter)', to_num(r.length) == num_s * num_out)
        vc.ensure('index[a + b*num_s] = ix(state_name[a]) + (pidx(b)+1)*nS: states in the order NAMED, parameters in the order SUPPLIED',
                  z3.Select(r.arr, a + b * num_s) == six(a) + (pidx(b) + 1) * nS)
        vc.canary('canary: reachable', z3.BoolVal(False))
    param_index.__doc__ = "_getTargetParamSensIndex (%s): the sensitivity columns in the supplied order" % ('all parameters' if all_params else 'target_param given')
    return param_index


make_param_index(True)
make_param_index(False)


def make_state_index(all_states):
    @contract('C07/_getTargetStateSensIndex/%s' % ('all-states' if all_states else 'target_state'), ['C07', 'C20'], LOSS + '_getTargetStateSensIndex',
              also=[LOSS + '_getTargetStateIndex'], replay=replay_c07)
    def state_index(vc):
        num_s, nS, nP = vc.int('num_s', ge=1), vc.int('nS', ge=1), vc.int('nP', ge=1)
        n_ts = None if all_states else vc.int('n_target_state', ge=1)
        n_tp = vc.int('n_target_param', ge=1)         # a target_param subset may or may not be present: it must not matter
        has_tp = vc.it.ctx.choose(2, 'target_param-present')
        obj, six, tpix, tsix = loss_object(vc, num_s, nS, nP, n_tp=(n_tp if has_tp else None), n_ts=n_ts)
        int_list_ctor(vc)
        num_out = nS if all_states else n_ts
        sidx = (lambda c: c) if all_states else (lambda c: tsix(c))
        F = LOSS + '_getTargetStateSensIndex'
        G = LOSS + '_getTargetParamIndex'
        m = z3.Int('ti_m')
        vc.loop(G, 0, lambda view, k: [('the first k target parameters are looked up, in the order supplied',
                                        z3.And(to_num(view['index_list'].length) == k,
                                               z3.ForAll([m], z3.Implies(z3.And(m >= 0, m < k), z3.Select(view['index_list'].arr, m) == tpix(m)))))],
                modifies=('index_list',))
        st = {}
        c_, a_ = z3.Int('inv_c'), z3.Int('inv_a')
        POS = position_fn(vc, num_s)
        OFF = vc.fn('column_offset_of_initial_value', I, I)      # abbreviation: OFF(c) = (sidx(c) + 1 + nP)*nS
        vc.assume(z3.ForAll([c_], OFF(c_) == (sidx(c_) + 1 + nP) * nS, patterns=[OFF(c_)]))
        if not all_states:
            vc.assume(z3.ForAll([c_], OFF(c_) == (tsix(c_) + 1 + nP) * nS, patterns=[tsix(c_)]))

        def entries(out, upto_c, upto_a):
            return z3.ForAll([c_, a_], z3.Implies(z3.And(c_ >= 0, a_ >= 0, a_ < num_s, z3.Or(c_ < upto_c, z3.And(c_ == upto_c, a_ < upto_a))),
                                                  z3.And(POS(c_, a_) >= 0, POS(c_, a_) < to_num(out.length), z3.Select(out.arr, POS(c_, a_)) == six(a_) + OFF(c_))), patterns=[POS(c_, a_)])
        vc.loop(F, 0, lambda view, c: [('blocks of the first c free initial values are complete', z3.And(to_num(view['index_out'].length) == POS(c, 0), entries(view['index_out'], c, 0)))],
                modifies=('index_out',), ghost=lambda it, view, c: st.__setitem__('c', c))
        vc.loop(F, 1, lambda view, a: [('the current block holds the first a named states',
                                        z3.And(to_num(view['index_out'].length) == POS(st['c'], a), entries(view['index_out'], st['c'], a)))],
                modifies=('index_out',))
        out = vc.call(vc.func(F), obj)
        vc.ensure('returns normally', out.returned)
        if not out.returned:
            return
        r = out.value
        a, c = z3.Int('q_a'), z3.Int('q_c')
        vc.assume(z3.And(a >= 0, a < num_s, c >= 0, c < num_out))
        vc.it.ctx.note_trusted("lemma pos_closed (Lean-checked): the append position of block b, state a is b*num_s + a")
        vc.assume(z3.And(POS(c, a) == a + c * num_s, POS(num_out, 0) == num_s * num_out))      # instances of the lemma
        vc.binds(isinstance(r, SMutList), 'the column indices are returned as a python list')
        vc.ensure('one column index per (named state, free initial value)', to_num(r.length) == num_s * num_out)
        vc.ensure('index[a + c*num_s] = ix(state_name[a]) + (sidx(c) + 1 + nP)*nS with nP the number of MODEL parameters (the initial-value block follows ALL parameter blocks)',
                  z3.Select(r.arr, a + c * num_s) == six(a) + (sidx(c) + 1 + nP) * nS)
        vc.canary('canary: reachable', z3.BoolVal(False))
    state_index.__doc__ = "_getTargetStateSensIndex (%s): the initial-value sensitivity columns in the supplied order" % ('all states' if all_states else 'target_state given')
    return state_index


make_state_index(True)
make_state_index(False)


def make_sens_to_grad(weights):
    @contract('C07/sens_to_grad/weights=%s' % weights, ['C07'], LOSS + 'sens_to_grad', replay=replay_c07, timeout_ms=60000)
    def sens_to_grad(vc):
        n, num_s, num_out = vc.int('n', ge=1), vc.int('num_s', ge=1), vc.int('num_out', ge=1)
        p = vc.int('p')
        vc.require('one column per (named state, free variable)', p == num_s * num_out)
        sens = vc.array('sens', (n, p))
        dL = vc.array('dL', (n, num_s))
        W = vc.array('W', (n, num_s))
        cls = vc.cls('pygom.loss.base_loss:BaseLoss')
        self = ObjVal(cls, {'_stateName': SList(num_s, lambda q: None), '_weight': W})
        # arithmetic fact about the column count (p = num_s*num_out, num_s >= 1), proved first, then available
        vc.ensure('lemma: int(p / num_s) = num_out', z3.ToInt(z3.ToReal(p) / z3.ToReal(num_s)) == num_out)
        F = LOSS + 'sens_to_grad'
        st = {}

        def before(it, view):
            st['orig'] = view['sens'].get

        def inv(view, j):
            s3 = view['sens']
            i_, a_, b_ = z3.Int('g_i'), z3.Int('g_a'), z3.Int('g_b')
            return [('slices of the first j free variables are multiplied by the weights, the others are untouched',
                     z3.And(s3.rank == 3, to_num(s3.shape[0]) == n, to_num(s3.shape[1]) == num_s, to_num(s3.shape[2]) == num_out,
                            z3.ForAll([i_, a_, b_], z3.Implies(z3.And(i_ >= 0, i_ < n, a_ >= 0, a_ < num_s, b_ >= 0, b_ < num_out),
                                                              s3.get((i_, a_, b_)) == z3.If(b_ < j, st['orig']((i_, a_, b_)) * W.get((i_, a_)), st['orig']((i_, a_, b_)))))))]
        vc.loop(F, 0, inv, before=before, modifies=('sens',))
        out = vc.call(vc.func(F), self, sens, dL)
        vc.ensure('returns normally', out.returned)
        if not out.returned:
            return
        g = out.value
        vc.ensure('one gradient entry per free variable', isinstance(g, SArr) and g.rank == 1 and to_num(g.shape[0]) == num_out)
        b = z3.Int('q_b')
        vc.assume(z3.And(b >= 0, b < num_out))

        vc.ensure_sum_nested('grad[b] = sum_i sum_a dL[i,a] * w[i,a] * sens[i, a + b*num_s]', g.get((b,)), (n, num_s),
                             lambda i, a: dL.get((i, a)) * (sens.get((i, a + b * num_s)) * W.get((i, a))),
                             hyps2=lambda i, a: vc.hint_blocks([(a + b * num_s, i), (i, a), (a + num_s * b, i)]))
        vc.canary('canary: reachable', z3.BoolVal(False))
    return sens_to_grad


make_sens_to_grad('matrix')


# ---------------------------------------------------------------------------------------------
# wiring: which system is integrated from which initial condition over which times, and what goes into sens_to_grad

def wiring_object(vc, nS, nP, n, num_s):
    cls = vc.cls('pygom.loss.base_loss:BaseLoss')
    x0 = vc.array('x0', (nS,))
    T = vc.array('T', (n + 1,))            # _t = [t0] ++ observation times
    rec = {'calls': []}

    class OdeFn(Model):
        def __init__(self, name):
            self.name = name
            self.is_callable = True

    class Ode(Model):
        def py_getattr(self, it, name):
            if name in ('ode_and_sensitivity_T', 'ode_and_sensitivity_jacobian_T', 'ode_and_sensitivityIV_T', 'ode_and_sensitivityIV_jacobian_T', 'ode_T', 'jacobian_T'):
                return OdeFn(name)
            if name == '_intName':
                return 'default-method'
            if name == 'parameters':
                return rec.get('parameters')
            raise Unsupported("ode attribute %s" % name)

        def py_setattr(self, it, name, value):
            if name == 'parameters':
                rec['parameters'] = value
                return
            raise Unsupported("ode attribute write %s" % name)
    ode = Ode()
    theta = Builtin('theta-holder', lambda it, a, k: None)
    six = vc.fn('state_index_of_named', I, I)
    stateIndex = SList(num_s, lambda q: six(q))
    obj = ObjVal(cls, {'_ode': ode, '_x0': x0, '_t': T, '_num_state': nS, '_num_param': nP, '_theta': theta, '_stateIndex': stateIndex,
                       '_stateName': SList(num_s, lambda q: None)})
    return obj, ode, x0, T, rec, theta, six


def make_jac(iv, full_output):
    entry = 'jacIV' if iv else 'jac'
    @contract('C07/%s/full_output=%s' % (entry, full_output), ['C07', 'C20'], LOSS + entry, replay=replay_c07)
    def jac(vc):
        nS, nP, n, num_s = vc.int('nS', ge=1), vc.int('nP', ge=1), vc.int('n', ge=1), vc.int('num_s', ge=1)
        obj, ode, x0, T, rec, theta, six = wiring_object(vc, nS, nP, n, num_s)
        width = nS + nS * nP + (nS * nS if iv else 0)
        SOL = vc.array('SOL', (n, width))
        idx = vc.array('index_out', (vc.int('n_idx', ge=1),), 'int')
        idx2 = vc.array('index_out_iv', (vc.int('n_idx_iv', ge=1),), 'int')
        from pyvc.lib import SMutList
        vc.summary(LOSS + '_getTargetParamSensIndex', lambda it, a, k: SMutList(idx.shape[0], z3.Lambda([z3.Int('li')], idx.get((z3.Int('li'),)))))
        vc.summary(LOSS + '_getTargetStateSensIndex', lambda it, a, k: SMutList(idx2.shape[0], z3.Lambda([z3.Int('li')], idx2.get((z3.Int('li'),)))))
        q = z3.Int('q_k')
        vc.require('the observed states are states of the model', z3.ForAll([q], z3.Implies(z3.And(q >= 0, q < num_s), z3.And(six(q) >= 0, six(q) < nS))))
        vc.require('selected columns exist', z3.And(z3.ForAll([q], z3.Implies(z3.And(q >= 0, q < idx.shape[0]), z3.And(idx.get((q,)) >= 0, idx.get((q,)) < width))),
                                                    z3.ForAll([q], z3.Implies(z3.And(q >= 0, q < idx2.shape[0]), z3.And(idx2.get((q,)) >= 0, idx2.get((q,)) < width)))))

        def integrate(it, a, k):
            rec['calls'].append((a, k))
            if k.get('full_output'):
                return (SOL, {'info': 'integrator output'})
            return SOL
        mod = vc.module('pygom.model.ode_utils')
        mod.env.vars['integrateFuncJac'] = Builtin('integrateFuncJac', integrate)
        lossobj_calls = []

        class LossObj(Model):
            def py_getattr(self, it, name):
                if name in ('residual', 'diff_loss'):
                    def f(it_, a, k):
                        lossobj_calls.append((name, a[0]))
                        return SArr((n, num_s), lambda o: z3.Function('LossOut_' + name, I, I, R)(o[0], o[1]))
                    return Builtin('loss.' + name, f)
                raise Unsupported(name)
        obj.fields['_lossObj'] = LossObj()
        kw = dict(full_output=full_output)
        if not full_output:
            kw['sens_output'] = True
        out = vc.call(vc.func(LOSS + entry), obj, **kw)
        vc.ensure('returns normally', out.returned)
        if not out.returned:
            return
        vc.ensure('the model gets the current parameter holder before integrating', rec.get('parameters') is theta)
        vc.ensure('exactly one integration', len(rec['calls']) == 1)
        if len(rec['calls']) != 1:
            return
        a, k = rec['calls'][0]
        want_f = 'ode_and_sensitivityIV_T' if iv else 'ode_and_sensitivity_T'
        vc.ensure('the integrated system is %s with its own Jacobian' % want_f, getattr(a[0], 'name', None) == want_f and getattr(a[1], 'name', None) == want_f.replace('_T', '_jacobian_T'))
        init = a[2]
        ii, jj = z3.Int('q_i'), z3.Int('q_j')
        ok = isinstance(init, SArr) and init.rank == 1
        vc.ensure('initial condition has one entry per component of the augmented system', ok and to_num(init.shape[0]) == width)
        if ok:
            vc.assume(z3.And(ii >= 0, ii < nS, jj >= 0, jj < nS))
            vc.hint_blocks([(ii, jj), (jj, ii)])
            vc.ensure('initial condition: the state block is x0', init.get((ii,)) == x0.get((ii,)))
            vc.ensure('initial condition: parameter sensitivities start at zero',
                      z3.ForAll([q], z3.Implies(z3.And(q >= nS, q < nS + nS * nP), init.get((q,)) == 0)))
            if iv:
                vc.ensure('initial condition: initial-value sensitivities start at the identity (d x_i / d x0_j = [i = j])',
                          init.get((nS + nS * nP + ii + jj * nS,)) == z3.If(ii == jj, 1.0, 0.0))
        vc.ensure('integration starts at t0', to_real(a[3]) == T.get((z3.IntVal(0),)))
        tt = a[4]
        vc.ensure('output requested at the observation times, in order',
                  isinstance(tt, SArr) and z3.And(to_num(tt.shape[0]) == n, z3.ForAll([q], z3.Implies(z3.And(q >= 0, q < n), tt.get((q,)) == T.get((q + 1,))))))
        vc.ensure("the model's integrator is used unless one is asked for", k.get('method') == 'default-method')
        vc.ensure('no origin row is requested (row i of the solution is observation time i)', not k.get('includeOrigin', False))
        sel, second = out.value
        r_, c_ = z3.Int('q_r'), z3.Int('q_c')
        n_sel = (idx.shape[0] + idx2.shape[0]) if iv else idx.shape[0]
        vc.ensure('returns the selected sensitivity columns, parameter columns first',
                  isinstance(sel, SArr) and sel.rank == 2 and z3.And(to_num(sel.shape[0]) == n, to_num(sel.shape[1]) == to_num(n_sel),
                      z3.ForAll([r_, c_], z3.Implies(z3.And(r_ >= 0, r_ < n, c_ >= 0, c_ < idx.shape[0]), sel.get((r_, c_)) == SOL.get((r_, idx.get((c_,))))))))
        if iv:
            vc.ensure('... followed by the initial-value columns',
                      z3.ForAll([r_, c_], z3.Implies(z3.And(r_ >= 0, r_ < n, c_ >= 0, c_ < idx2.shape[0]), sel.get((r_, idx.shape[0] + c_)) == SOL.get((r_, idx2.get((c_,)))))))
        if full_output:
            vc.ensure('full output carries the whole solution as sens', isinstance(second, dict) and second.get('sens') is SOL)
            vc.ensure('diff_loss and resid are evaluated on the observed-state columns of the solution, in the order named',
                      len(lossobj_calls) == 2 and all(isinstance(y, SArr) and y.rank == 2 for _, y in lossobj_calls))
            for nm, y in lossobj_calls:
                vc.ensure('%s: column a is the state named a-th' % nm,
                          z3.And(to_num(y.shape[1]) == num_s, z3.ForAll([r_, c_], z3.Implies(z3.And(r_ >= 0, r_ < n, c_ >= 0, c_ < num_s), y.get((r_, c_)) == SOL.get((r_, six(c_)))))))
        else:
            vc.ensure('with sens_output the whole solution is returned alongside', second is SOL)
        vc.canary('canary: reachable', z3.BoolVal(False))
    jac.__doc__ = "%s(full_output=%s): integrates the forward-sensitivity system from (x0, 0%s) at the observation times and selects the target columns" % (entry, full_output, ', I' if iv else '')
    return jac


for _iv in (False, True):
    for _fo in (False, True):
        make_jac(_iv, _fo)


def allof(*conds):
    """conjunction of python booleans and z3 formulas (a python False decides)"""
    zs = []
    for c in conds:
        if isinstance(c, bool) or c is None:
            if not c:
                return False
        else:
            zs.append(c)
    return z3.And(*zs) if zs else True


def make_gradient_glue(entry, full_output):
    iv = entry.endswith('IV')
    @contract('C07/%s/full_output=%s' % (entry, full_output), ['C07'] if entry != 'jtj' else ['C20', 'C07'], LOSS + entry, replay=replay_c07,
              also=[LOSS + '_sensToGradWithoutIndex', LOSS + '_sensToGradIVWithoutIndex', LOSS + '_sensToJTJWithoutIndex'])
    def glue(vc):
        nS, nP, n, num_s = vc.int('nS', ge=1), vc.int('nP', ge=1), vc.int('n', ge=1), vc.int('num_s', ge=1)
        obj, ode, x0, T, rec, theta, six = wiring_object(vc, nS, nP, n, num_s)
        q = z3.Int('q_k')
        vc.require('the observed states are states of the model', z3.ForAll([q], z3.Implies(z3.And(q >= 0, q < num_s), z3.And(six(q) >= 0, six(q) < nS))))
        width = nS + nS * nP + (nS * nS if iv else 0)
        SOL = vc.array('SOL', (n, width))
        idx = vc.array('index_out', (vc.int('n_idx', ge=1),), 'int')
        idx2 = vc.array('index_out_iv', (vc.int('n_idx_iv', ge=1),), 'int')
        vc.require('selected columns exist', z3.And(z3.ForAll([q], z3.Implies(z3.And(q >= 0, q < idx.shape[0]), z3.And(idx.get((q,)) >= 0, idx.get((q,)) < width))),
                                                    z3.ForAll([q], z3.Implies(z3.And(q >= 0, q < idx2.shape[0]), z3.And(idx2.get((q,)) >= 0, idx2.get((q,)) < width)))))
        from pyvc.lib import SMutList
        vc.summary(LOSS + '_getTargetParamSensIndex', lambda it, a, k: SMutList(idx.shape[0], z3.Lambda([z3.Int('li')], idx.get((z3.Int('li'),)))))
        vc.summary(LOSS + '_getTargetStateSensIndex', lambda it, a, k: SMutList(idx2.shape[0], z3.Lambda([z3.Int('li')], idx2.get((z3.Int('li'),)))))
        DL = vc.array('DL', (n, num_s))
        th = Builtin('theta-argument', lambda it, a, k: None)
        log = {'jac': [], 'grad': [], 'jtj': [], 'dl': []}

        def jac_summary(it, a, k):
            log['jac'].append(k)
            sel = SArr((n, idx.shape[0]), lambda o: SOL.get((o[0], idx.get((o[1],)))))
            if k.get('full_output'):
                return (sel, {'sens': SOL, 'diff_loss': DL, 'resid': None})
            if k.get('sens_output'):
                return (sel, SOL)
            return sel
        vc.summary(LOSS + 'jac', jac_summary)
        vc.summary(LOSS + 'jacIV', jac_summary)

        class LossObj(Model):
            def py_getattr(self, it, name):
                if name == 'diff_loss':
                    def f(it_, a, k):
                        log['dl'].append(a[0])
                        return DL
                    return Builtin('loss.diff_loss', f)
                raise Unsupported(name)
        obj.fields['_lossObj'] = LossObj()
        GR = lambda tag: SArr((idx.shape[0] if tag == 'p' else idx2.shape[0],), lambda o: z3.Function('Grad_' + tag, I, R)(o[0]))

        def s2g(it, a, k):
            log['grad'].append((a[1], a[2]))
            return GR('p' if len(log['grad']) == 1 else 's')
        vc.summary(LOSS + 'sens_to_grad', s2g)
        JT = SArr((idx.shape[0], idx.shape[0]), lambda o: z3.Function('JTJ_out', I, I, R)(o[0], o[1]))

        def s2j(it, a, k):
            log['jtj'].append((a[1], a[2] if len(a) > 2 else k.get('resid')))
            return JT
        vc.summary(LOSS + 'sens_to_jtj', s2j)
        out = vc.call(vc.func(LOSS + entry), obj, th, full_output=full_output)
        vc.ensure('returns normally', out.returned)
        if not out.returned:
            return
        vc.ensure('one integration of the sensitivity system, with the supplied argument', len(log['jac']) == 1 and log['jac'][0].get('theta') is th)
        r_, c_ = z3.Int('q_r'), z3.Int('q_c')

        def is_selection(A, ix):
            if not (isinstance(A, SArr) and A.rank == 2):
                return False
            return z3.And(to_num(A.shape[0]) == n, to_num(A.shape[1]) == to_num(ix.shape[0]),
                          z3.ForAll([r_, c_], z3.Implies(z3.And(r_ >= 0, r_ < n, c_ >= 0, c_ < ix.shape[0]), A.get((r_, c_)) == SOL.get((r_, ix.get((c_,)))))))
        if not full_output and entry != 'jtj':
            vc.ensure('diff_loss is evaluated on the observed-state columns of the solution, in the order named',
                      allof(len(log['dl']) == 1 and isinstance(log['dl'][0], SArr) and log['dl'][0].rank == 2,
                            (z3.And(to_num(log['dl'][0].shape[1]) == num_s, z3.ForAll([r_, c_], z3.Implies(z3.And(r_ >= 0, r_ < n, c_ >= 0, c_ < num_s), log['dl'][0].get((r_, c_)) == SOL.get((r_, six(c_))))))
                             if (len(log['dl']) == 1 and isinstance(log['dl'][0], SArr) and log['dl'][0].rank == 2) else False)))
        res = out.value[0] if full_output else out.value
        # ownership: sens_to_grad and sens_to_jtj weight their argument IN PLACE (np.reshape returns a view of an F-contiguous
        # array), so every call must get its own fresh selection, never the stored solution or an array that is used again
        handed = [a for a, _ in log['grad']] + [a for a, _ in log['jtj']]
        vc.ensure('each chain-rule / Gauss-Newton call gets its own fresh copy of the selected columns (they are weighted in place)',
                  all(h is not SOL for h in handed) and len({id(h) for h in handed}) == len(handed))
        if entry == 'jtj':
            vc.ensure('sens_to_jtj gets the target-parameter sensitivity columns and no residual', allof(len(log['jtj']) == 1, is_selection(log['jtj'][0][0], idx) if log['jtj'] else False, (log['jtj'][0][1] is None) if log['jtj'] else False))
            vc.ensure('its result is returned', res is JT)
        else:
            vc.ensure('sens_to_grad gets the target-parameter sensitivity columns and the loss derivative', allof(len(log['grad']) >= 1, is_selection(log['grad'][0][0], idx) if log['grad'] else False, (log['grad'][0][1] is DL) if log['grad'] else False))
            if iv:
                vc.ensure('... and, for the initial values, the target-state sensitivity columns with the same loss derivative',
                          allof(len(log['grad']) == 2, is_selection(log['grad'][1][0], idx2) if len(log['grad']) == 2 else False, (log['grad'][1][1] is DL) if len(log['grad']) == 2 else False))
                k_ = z3.Int('q_g')
                vc.ensure('the gradient is [parameter part | initial-value part], in that order',
                          allof(isinstance(res, SArr), z3.And(to_num(res.shape[0]) == to_num(idx.shape[0]) + to_num(idx2.shape[0]),
                              z3.ForAll([k_], z3.Implies(z3.And(k_ >= 0, k_ < idx.shape[0]), res.get((k_,)) == GR('p').get((k_,)))),
                              z3.ForAll([k_], z3.Implies(z3.And(k_ >= 0, k_ < idx2.shape[0]), res.get((idx.shape[0] + k_,)) == GR('s').get((k_,))))) if isinstance(res, SArr) else False))
            else:
                vc.ensure('exactly one gradient is computed and returned', len(log['grad']) == 1)
                k_ = z3.Int('q_g')
                vc.ensure('the value returned is that gradient', allof(isinstance(res, SArr), z3.ForAll([k_], z3.Implies(z3.And(k_ >= 0, k_ < idx.shape[0]), res.get((k_,)) == GR('p').get((k_,)))) if isinstance(res, SArr) else False))
        vc.canary('canary: reachable', z3.BoolVal(False))
    glue.__doc__ = "%s(full_output=%s): the selected sensitivity columns and the loss derivative on the observed states go into the chain rule" % (entry, full_output)
    return glue


for _e in ('sensitivity', 'sensitivityIV', 'jtj'):
    for _fo in (False, True):
        make_gradient_glue(_e, _fo)


@contract('C07/gradient', ['C07'], LOSS + 'gradient')
def gradient_alias(vc):
    """gradient(theta) is sensitivity(theta)"""
    cls = vc.cls('pygom.loss.base_loss:BaseLoss')
    obj = ObjVal(cls, {})
    th = Builtin('theta', lambda it, a, k: None)
    token = SArr((vc.int('k', ge=1),), lambda o: z3.Function('G', I, R)(o[0]))
    seen = []

    def sens(it, a, k):
        seen.append((a, k))
        return token
    vc.summary(LOSS + 'sensitivity', sens)
    out = vc.call(vc.func(LOSS + 'gradient'), obj, th)
    vc.ensure('returns the forward-sensitivity gradient for the same argument', out.returned and out.value is token and len(seen) == 1 and (th in seen[0][0] or seen[0][1].get('theta') is th))
    vc.canary('canary: reachable', z3.BoolVal(False))
