"""C10 -- closed compartmental models conserve the total population.

The cell-level facts are proved on the real code by the C01 contracts (vMat[i,e] and ode[i] as sums of
magnitude x incidence) and by the C04 step contracts (a step moves the state by V.counts (+ pure.tau)).
This file holds the bridge to the sum-level statement: in a transition-only model the incidence
coefficient of every transition is  [dst = i] - [org = i]  with both names declared, and there are no
explicit terms.  That is exactly the hypothesis of the Lean lemmas `closed_column_sum_zero`,
`sum_comm_zero` and `step_keeps_total` (/verif/lemmas/Pygom.lean), which give
  sum_i vMat[i,e] = 0,   sum_i ode[i] = 0 under every valuation,   sum_i x_new[i] = sum_i x[i]."""
import z3
from pyvc.driver import contract
from contracts.modelview import ModelView, ty, org, dst, ix, declared
from contracts.c01b import coef, ode_sums


@contract('C10/closed-model-bridge', ['C10'], 'pygom.model.base_ode_model:BaseOdeModel.get_StateChangeMatrix')
def closed_bridge(vc):
    """transition-only well-formed model: every incidence coefficient is [dst=i]-[org=i] with origin and
    destination among the declared states and different from each other, and the explicit-term sums vanish"""
    mv = ModelView(vc)
    nS, nE, nQ = mv.nS, mv.nE, mv.nQ
    e, k, i = z3.Int('c_e'), z3.Int('c_k'), z3.Int('c_i')
    from contracts.modelview import K
    vc.require('every transition of every event is a between-state transition',
               z3.ForAll([e, k], z3.Implies(z3.And(e >= 0, e < nE, k >= 0, k < K(e)), ty(e, k) == 2)))
    vc.require('no explicit ODE terms', nQ == 0)
    PSQ = ode_sums(vc)
    vc.check_cover()
    vc.assume(z3.And(e >= 0, e < nE, k >= 0, k < K(e), i >= 0, i < nS))
    vc.ensure('coefficient of a T transition on state i is [dst=i] - [org=i]',
              coef(e, k, i) == z3.If(ix(dst(e, k)) == i, 1.0, 0.0) - z3.If(ix(org(e, k)) == i, 1.0, 0.0))
    vc.ensure('origin and destination are declared states (total maps into the state set)',
              z3.And(ix(org(e, k)) >= 0, ix(org(e, k)) < nS, ix(dst(e, k)) >= 0, ix(dst(e, k)) < nS))
    vc.ensure('the explicit-term part of every ODE component is zero', PSQ(nQ, i) == 0)
    vc.canary('canary: the closed scenario is satisfiable with a transition', z3.BoolVal(False))
    vc.canary('canary: coefficient is not always zero', coef(e, k, i) == 0)
