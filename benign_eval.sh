#!/bin/bash
# usage: benign_eval.sh <PID> [check-PIDs...]  -- keep a sub-agent's behaviour-preserving refactoring and run our checks against it (sources: its scratch worktree)
set -u
PID=$1; shift
CHECKS=${@:-$PID}
WT=/tmp/wt/${PID}r
DST=/verif/benign_seeded/${PID}r
mkdir -p $DST
git -C $WT diff -- src > $DST/patch.diff
cp $WT/demo_$PID.py $DST/ 2>/dev/null
echo "== demo in compare mode on the refactored code (expect PASS / exit 0)"
(cd $WT && PYTHONPATH=$WT/src timeout 900 /venv/bin/python demo_$PID.py compare 2>&1 | tail -2; echo "exit=${PIPESTATUS[0]}") | tee $DST/demo_compare.log
OUT=$(mktemp -d /var/tmp/benign-XXXX)
: > $DST/checks.log
for c in $CHECKS; do
  (cd /verif && PYVC_REPO_SRC=$WT/src PYVC_OUT_DIR=$OUT ./vcheck $c --tier quick 2>&1 | grep -v "WARNING conda" | cut -c1-260 | grep "VIOLATION\|PROOF-LOST\|UNDECIDED\|MISSING\|tier=" | tail -12; echo "check $c exit=${PIPESTATUS[0]}") | tee -a $DST/checks.log
done
rm -rf $OUT
