#!/bin/bash
# Build the overlay interpreter /verif/.venv from files on disk only (offline).
set -e
cd "$(dirname "$0")"
V=.venv
if [ ! -x $V/bin/python ] || ! $V/bin/python -c "import z3, jsonschema, pygom" >/dev/null 2>&1; then
  rm -rf $V
  /venv/bin/python -m venv $V
  PIP_NO_INDEX=1 $V/bin/python -m pip install -q --no-index --find-links /opt/veriftools/wheels \
      z3-solver cvc5 crosshair-tool deal icontract jsonschema hypothesis >/dev/null
  echo "import site; site.addsitedir('/venv/lib/python3.12/site-packages')" > $V/lib/python3.12/site-packages/_repo.pth
fi
$V/bin/python -c "import z3, cvc5, jsonschema, pygom; print('overlay ok', z3.get_version_string())"
# Lean lemmas used by C01/C04/C10/C12/C20 (cold start of Mathlib ~3 min; cached by file hash afterwards)
./lemmas/check.sh || echo "WARNING: Lean lemmas not checked"
