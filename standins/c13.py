"""Bounded stand-in for C13: the sensitivity systems are the variational equations of the model.

For seeded random models (plus one-state models and models without parameters) the real
ode_and_sensitivity / ode_and_sensitivityIV and their supplied Jacobians are compared with
 (1) [f | J S + G (| J S0)] in the documented layout, f, J = df/dx, G = df/dtheta obtained by
     differentiating an independent sympy reconstruction of the ODE (standins.models.reference);
 (2) central finite differences of that reference augmented right-hand side (the supplied Jacobians);
 (3) central finite differences, in theta and in x0, of independently integrated solutions
     (the augmented systems integrated by scipy odeint from S = 0, S0 = I).
Bounded, never counted as proved."""
import re
import numpy as np
from standins import models

# (number of states, number of parameters); nP = 0 is the model without parameters (IV system only)
SHAPES_QUICK = ((1, 2), (2, 3), (3, 1), (4, 2), (2, 2), (3, 4), (2, 0), (1, 1), (3, 2), (3, 0))
RHS_RTOL, RHS_ATOL = 1e-9, 1e-10
JAC_RTOL = 1e-5          # elementwise, plus JAC_RTOL * (1 + max|J|) * 0.1 absolute
INT_RTOL = 1e-4          # relative to 1 + max|finite-difference sensitivity|


# ----------------------------------------------------------------------------- layouts (explicit)
def vec_by_param(S):
    nS, nP = S.shape
    s = np.zeros(nS * nP)
    for i in range(nS):
        for j in range(nP):
            s[i + j * nS] = S[i, j]
    return s


def vec_by_state(S):
    nS, nP = S.shape
    s = np.zeros(nS * nP)
    for i in range(nS):
        for j in range(nP):
            s[i * nP + j] = S[i, j]
    return s


def unvec_by_param(s, nS, nP):
    S = np.zeros((nS, nP))
    for i in range(nS):
        for j in range(nP):
            S[i, j] = s[i + j * nS]
    return S


def unvec_by_state(s, nS, nP):
    S = np.zeros((nS, nP))
    for i in range(nS):
        for j in range(nP):
            S[i, j] = s[i * nP + j]
    return S


# ----------------------------------------------------------------------------- specs
def spec_with_shape(rng, nS, nP, k):
    """a random spec with the requested shape; nP == 0 replaces every parameter by a number"""
    want = nP if nP > 0 else None
    for _ in range(200):
        spec = models.random_spec(rng, n_states=nS, ode_terms=(k % 2 == 0), derived=(nP > 0 and k % 3 == 0),
                                  range_names=(k % 5 == 4), integer_magnitudes=(nP == 0))
        if want is None or len(spec['params']) == want:
            break
    else:
        raise RuntimeError('no spec with %d parameters drawn' % nP)
    if nP == 0:
        vals = {p: '%.3f' % rng.uniform(0.2, 1.5) for p in spec['params']}
        sub = lambda s: re.sub(r'\bp\d+\b', lambda mo: vals[mo.group(0)], s)
        spec['events'] = [(sub(r), [(ty, o, d, sub(mag)) for ty, o, d, mag in trs]) for r, trs in spec['events']]
        spec['odes'] = [(s, sub(eq)) for s, eq in spec['odes']]
        spec['params'] = []
        spec['derived'] = []
    return spec


def normalise(spec):
    """undo the JSON round trip (tuples became lists)"""
    spec = dict(spec)
    spec['events'] = [(r, [tuple(t) for t in trs]) for r, trs in spec['events']]
    spec['odes'] = [tuple(o) for o in spec['odes']]
    spec['derived'] = [tuple(o) for o in spec['derived']]
    return spec


# ----------------------------------------------------------------------------- independent reference
class Reference(object):
    """f, J = df/dx, G = df/dtheta from the independent reconstruction, as fast numeric callables"""

    def __init__(self, spec):
        import sympy
        ode, V, rates, pure, loc = models.reference(spec)
        self.nS, self.nP = len(spec['states']), len(spec['params'])
        xs = [loc[s] for s in spec['states']]
        ps = [loc[p] for p in spec['params']]
        args = xs + ps + [loc['t']]
        ode = sympy.Matrix(ode)
        self.sym_f = ode
        self._f = sympy.lambdify(args, ode, 'numpy')
        self._J = sympy.lambdify(args, ode.jacobian(xs), 'numpy')
        self._G = sympy.lambdify(args, ode.jacobian(ps), 'numpy') if ps else None
        self.sym_J = ode.jacobian(xs)
        self.sym_G = ode.jacobian(ps) if ps else None

    def f(self, x, theta, t):
        return np.asarray(self._f(*(list(x) + list(theta) + [t])), float).reshape(self.nS)

    def J(self, x, theta, t):
        return np.asarray(self._J(*(list(x) + list(theta) + [t])), float).reshape(self.nS, self.nS)

    def G(self, x, theta, t):
        if self._G is None:
            return np.zeros((self.nS, 0))
        return np.asarray(self._G(*(list(x) + list(theta) + [t])), float).reshape(self.nS, self.nP)

    def aug(self, z, t, theta, layout):
        """the augmented right-hand side [f | J S + G (| J S0)] in the documented layout"""
        nS, nP = self.nS, self.nP
        x = z[:nS]
        f, J, G = self.f(x, theta, t), self.J(x, theta, t), self.G(x, theta, t)
        if layout == 'state':
            S = unvec_by_state(z[nS:nS + nS * nP], nS, nP)
            return np.concatenate([f, vec_by_state(J.dot(S) + G)])
        S = unvec_by_param(z[nS:nS + nS * nP], nS, nP)
        out = np.concatenate([f, vec_by_param(J.dot(S) + G)])
        if layout == 'iv':
            S0 = unvec_by_param(z[nS + nS * nP:], nS, nS)
            out = np.concatenate([out, vec_by_param(J.dot(S0))])
        return out

    def aug_fd_jacobian(self, z, t, theta, layout):
        n = len(z)
        out = np.zeros((n, n))
        for k in range(n):
            h = 1e-5 * max(1.0, abs(z[k]))
            zp, zm = z.copy(), z.copy()
            zp[k] += h
            zm[k] -= h
            out[:, k] = (self.aug(zp, t, theta, layout) - self.aug(zm, t, theta, layout)) / (zp[k] - zm[k])
        return out


def _cmp_vec(name, got, want, bad, rtol=RHS_RTOL, atol=RHS_ATOL):
    got = np.asarray(got, float)
    if got.shape != want.shape:
        bad.append("%s has shape %s, expected %s" % (name, got.shape, want.shape))
        return False
    if not np.all(np.isfinite(got)) or not np.allclose(got, want, rtol=rtol, atol=atol):
        k = int(np.argmax(np.abs(np.nan_to_num(got - want))))
        bad.append("%s differs from [f | J S + G] in the documented layout: entry %d is %.12g, expected %.12g (max abs difference %.3g)"
                   % (name, k, got[k], want[k], float(np.max(np.abs(np.nan_to_num(got - want))))))
        return False
    return True


def _cmp_jac(name, got, want, bad):
    got = np.asarray(got, float)
    if got.shape != want.shape:
        bad.append("%s has shape %s, expected %s" % (name, got.shape, want.shape))
        return 0.0
    scale = 1.0 + float(np.max(np.abs(want)))
    ratio = np.abs(got - want) / (JAC_RTOL * np.abs(want) + 0.1 * JAC_RTOL * scale)
    worst = float(np.max(np.nan_to_num(ratio, nan=np.inf)))
    if not np.all(np.isfinite(got)) or worst > 1.0:
        k = np.unravel_index(int(np.argmax(np.nan_to_num(ratio, nan=np.inf))), got.shape)
        bad.append("%s differs from central finite differences of the augmented right-hand side: entry (%d, %d) is %.10g, finite difference %.10g (matrix scale %.3g)"
                   % (name, k[0], k[1], got[k], want[k], scale))
    return worst


# ----------------------------------------------------------------------------- checks 1 and 2 (pointwise)
def check_point(m, ref, x, theta, t, S, S0):
    """clauses 1 (right-hand sides) and 2 (supplied Jacobians) at one point"""
    bad = []
    nS, nP = ref.nS, ref.nP
    info = {'jac_margin': 0.0}
    if nP > 0:
        for by_state, layout, vec in ((False, 'param', vec_by_param), (True, 'state', vec_by_state)):
            z = np.concatenate([x, vec(S)])
            want = ref.aug(z, t, theta, layout)
            tag = 'by_state=%s' % by_state
            _cmp_vec('ode_and_sensitivity(%s)' % tag, m.ode_and_sensitivity(z.copy(), t, by_state=by_state), want, bad)
            _cmp_vec('ode_and_sensitivity_T(%s)' % tag, m.ode_and_sensitivity_T(t, z.copy(), by_state), want, bad)
            _cmp_vec('sensitivity(%s)' % tag, m.sensitivity(z[nS:].copy(), t, x.copy(), by_state), want[nS:], bad)
            fd = ref.aug_fd_jacobian(z, t, theta, layout)
            info['jac_margin'] = max(info['jac_margin'],
                                     _cmp_jac('ode_and_sensitivity_jacobian(%s)' % tag,
                                              m.ode_and_sensitivity_jacobian(z.copy(), t, by_state=by_state), fd, bad))
            if not by_state:
                # d vec(J S) / dx : the lower-left block without the gradient part
                Gfd = np.zeros((nS * nP, nS))
                for k in range(nS):
                    h = 1e-5 * max(1.0, abs(x[k]))
                    xp, xm = x.copy(), x.copy()
                    xp[k] += h
                    xm[k] -= h
                    Gfd[:, k] = (vec_by_param(ref.G(xp, theta, t)) - vec_by_param(ref.G(xm, theta, t))) / (xp[k] - xm[k])
                info['jac_margin'] = max(info['jac_margin'],
                                         _cmp_jac('sens_jacobian_state', m.sens_jacobian_state(z.copy(), t), fd[nS:, :nS] - Gfd, bad))
    z = np.concatenate([x, vec_by_param(S), vec_by_param(S0)])
    want = ref.aug(z, t, theta, 'iv')
    _cmp_vec('ode_and_sensitivityIV', m.ode_and_sensitivityIV(z.copy(), t), want, bad)
    _cmp_vec('ode_and_sensitivityIV_T', m.ode_and_sensitivityIV_T(t, z.copy()), want, bad)
    fd = ref.aug_fd_jacobian(z, t, theta, 'iv')
    info['jac_margin'] = max(info['jac_margin'],
                             _cmp_jac('ode_and_sensitivityIV_jacobian', m.ode_and_sensitivityIV_jacobian(z.copy(), t), fd, bad))
    return bad, info


# ----------------------------------------------------------------------------- check 3 (integrated)
def _ref_solution(ref, x0, theta, grid):
    import scipy.integrate
    sol, out = scipy.integrate.odeint(lambda y, t: ref.f(y, theta, t), x0, grid, rtol=1e-12, atol=1e-12,
                                      full_output=True, mxstep=20000)
    ok = out['message'] == 'Integration successful.' and np.all(np.isfinite(sol)) and np.max(sol) < 50.0 and np.min(sol) > -0.5
    return sol, bool(ok)


def check_integrated(m, ref, x0, theta, t0, T):
    """clause 3: the integrated augmented systems against finite differences of independent solutions.
    Returns (bad, info); info['T'] is None when no tame horizon was found (case skipped)."""
    import scipy.integrate
    nS, nP = ref.nS, ref.nP
    bad, info = [], {'T': None, 'int_margin': 0.0}
    for _ in range(6):
        grid = np.array([t0, t0 + 0.5 * T, t0 + T])
        base, ok = _ref_solution(ref, x0, theta, grid)
        pert = {}
        if ok:
            for j in range(nP):
                h = 1e-4 * theta[j]
                for sg in (1, -1):
                    th = theta.copy()
                    th[j] += sg * h
                    pert[('p', j, sg)], o = _ref_solution(ref, x0, th, grid)
                    ok = ok and o
            for i in range(nS):
                h = 1e-4 * x0[i]
                for sg in (1, -1):
                    xx = x0.copy()
                    xx[i] += sg * h
                    pert[('x', i, sg)], o = _ref_solution(ref, xx, theta, grid)
                    ok = ok and o
        if ok:
            break
        T *= 0.5
    else:
        return bad, info
    info['T'] = T
    nG = len(grid)
    dth = np.zeros((nG, nS, nP))
    for j in range(nP):
        dth[:, :, j] = (pert[('p', j, 1)] - pert[('p', j, -1)]) / (2e-4 * theta[j])
    dx0 = np.zeros((nG, nS, nS))
    for i in range(nS):
        dx0[:, :, i] = (pert[('x', i, 1)] - pert[('x', i, -1)]) / (2e-4 * x0[i])

    def integrate(fun, z0, args=()):
        sol, out = scipy.integrate.odeint(fun, z0, grid, args=args, rtol=1e-10, atol=1e-10, full_output=True, mxstep=20000)
        return sol, out['message']

    def compare(name, got, want, what):
        scale = 1.0 + float(np.max(np.abs(want)))
        err = float(np.max(np.abs(np.nan_to_num(got - want, nan=np.inf)))) / scale
        info['int_margin'] = max(info['int_margin'], err / INT_RTOL)
        if err > INT_RTOL:
            k = np.unravel_index(int(np.argmax(np.abs(np.nan_to_num(got - want, nan=np.inf)))), want.shape)
            bad.append("%s integrated from t0=%.4g: %s[%d,%d] at t=%.4g is %.10g but the finite difference of independently integrated solutions is %.10g (scale %.3g)"
                       % (name, float(grid[0]), what, k[1], k[2], float(grid[k[0]]), float(got[k]), float(want[k]), scale))

    if nP > 0:
        for by_state, unvec in ((False, unvec_by_param), (True, unvec_by_state)):
            z0 = np.concatenate([x0, np.zeros(nS * nP)])
            sol, msg = integrate(m.ode_and_sensitivity, z0, (by_state,))
            name = 'ode_and_sensitivity(by_state=%s)' % by_state
            if msg != 'Integration successful.':
                bad.append("%s: odeint reports '%s'" % (name, msg))
                continue
            if not np.allclose(sol[:, :nS], base, rtol=1e-6, atol=1e-7):
                bad.append("%s integrated: the state block differs from the independently integrated solution by %.3g" % (name, float(np.max(np.abs(sol[:, :nS] - base)))))
            got = np.array([unvec(row[nS:], nS, nP) for row in sol])
            compare(name, got, dth, 'dx/dtheta')
    z0 = np.concatenate([x0, np.zeros(nS * nP), vec_by_param(np.eye(nS))])
    sol, msg = integrate(m.ode_and_sensitivityIV, z0)
    if msg != 'Integration successful.':
        bad.append("ode_and_sensitivityIV: odeint reports '%s'" % msg)
    else:
        if not np.allclose(sol[:, :nS], base, rtol=1e-6, atol=1e-7):
            bad.append("ode_and_sensitivityIV integrated: the state block differs from the independently integrated solution by %.3g" % float(np.max(np.abs(sol[:, :nS] - base))))
        if nP > 0:
            compare('ode_and_sensitivityIV', np.array([unvec_by_param(row[nS:nS + nS * nP], nS, nP) for row in sol]), dth, 'dx/dtheta')
        compare('ode_and_sensitivityIV', np.array([unvec_by_param(row[nS + nS * nP:], nS, nS) for row in sol]), dx0, 'dx/dx0')
    return bad, info


# ----------------------------------------------------------------------------- one case
def check_case(case):
    """case = {'spec', 'pseed', 'npoints', 'integrate'}: everything is rebuilt from it"""
    from contracts import native
    spec = normalise(case['spec'])
    rng = np.random.RandomState(int(case['pseed']))
    ref = Reference(spec)
    nS, nP = ref.nS, ref.nP
    m = models.build(spec, backend='lambda')
    bad, info = [], {'jac_margin': 0.0, 'int_margin': 0.0, 'T': None, 'nontrivial': False}
    with native.quiet():
        for _ in range(int(case['npoints'])):
            x, theta, t = models.point(rng, spec)
            S = rng.uniform(-1.0, 1.0, size=(nS, nP))
            S0 = rng.uniform(-1.0, 1.0, size=(nS, nS))
            if nP > 0:
                m.parameters = [float(v) for v in theta]
            J, G = ref.J(x, theta, t), ref.G(x, theta, t)
            if np.any(np.abs(J) > 1e-9) and (nP == 0 or np.any(np.abs(G) > 1e-9)):
                info['nontrivial'] = True
            b, i = check_point(m, ref, x, theta, t, S, S0)
            bad += ["at x=%s, theta=%s, t=%.6g: %s" % (np.round(x, 6).tolist(), np.round(theta, 6).tolist(), t, s) for s in b]
            info['jac_margin'] = max(info['jac_margin'], i['jac_margin'])
        if case.get('integrate'):
            x0 = rng.uniform(0.5, 2.0, size=nS)
            theta = rng.uniform(0.2, 1.0, size=nP)
            t0 = float(rng.uniform(0.0, 2.0))
            if nP > 0:
                m.parameters = [float(v) for v in theta]
            b, i = check_integrated(m, ref, x0, theta, t0, 1.0)
            bad += ["with x0=%s, theta=%s: %s" % (np.round(x0, 6).tolist(), np.round(theta, 6).tolist(), s) for s in b]
            info['int_margin'], info['T'] = i['int_margin'], i['T']
    return bad, info


def run(tier='quick', seed=0):
    rng = np.random.RandomState(seed)
    quick = tier == 'quick'
    n_models = 40 if quick else 400
    n_integ = 16 if quick else 160
    evals, failures, samples, distinct = 0, [], [], set()
    margins = {'jac': 0.0, 'int': 0.0, 'integrated': 0, 'integration_skipped': 0}
    shapes_seen = set()
    for k in range(n_models):
        if k < len(SHAPES_QUICK):
            nS, nP = SHAPES_QUICK[k]
        else:
            nS, nP = int(rng.randint(1, 5)), (0 if k % 9 == 0 else int(rng.randint(1, 5)))
        spec = spec_with_shape(rng, nS, nP, k)
        # integrate the first models of the list (they cover nS != nP, one state, no parameters) and then every other one
        integ = (k < len(SHAPES_QUICK) or k % 2 == 0) and margins['integrated'] + margins['integration_skipped'] < n_integ
        case = {'spec': spec, 'pseed': int(rng.randint(2 ** 31 - 1)), 'npoints': 2, 'integrate': bool(integ)}
        try:
            bad, info = check_case(case)
        except Exception as e:
            bad, info = ["raises %s: %s" % (type(e).__name__, e)], {'nontrivial': True, 'jac_margin': 0.0, 'int_margin': 0.0, 'T': None}
        evals += 1
        if info['nontrivial']:
            distinct.add(repr((spec['events'], spec['odes'], spec['params'], spec['derived'])))
            shapes_seen.add((nS, nP))
        margins['jac'] = max(margins['jac'], info['jac_margin'])
        margins['int'] = max(margins['int'], info['int_margin'])
        if integ:
            margins['integrated' if info['T'] is not None else 'integration_skipped'] += 1
        if bad:
            failures.append({'key': 'model %d (%d states, %d parameters)' % (k, nS, nP), 'case': case, 'observed': bad[:4]})
        elif len(samples) < 2:
            samples.append(case)
    return {'evaluations': evals, 'distinct_nontrivial': len(distinct), 'failures': failures, 'samples': samples,
            'rule': 'seeded random models from standins.models (1-4 states, 1-4 parameters, T/B/D events with five rate kinds incl. time-periodic, '
                    'symbolic magnitudes, optional ODE terms, derived parameter, range-style names; fixed shapes first: one state, nS != nP, nS-1 != nP, '
                    'and models with NO parameters for the IV system); at 2 random points (x, theta, t, random S and S0): ode_and_sensitivity (both arrangements, '
                    '_T forms, sensitivity) and ode_and_sensitivityIV against [f | J S + G | J S0] from an independent sympy reconstruction at 1e-9; '
                    'ode_and_sensitivity_jacobian (both arrangements), sens_jacobian_state and ode_and_sensitivityIV_jacobian against central differences of the '
                    'reference augmented right-hand side at 1e-5; on the marked models the augmented systems integrated by odeint (S=0, S0=I) against central '
                    'differences in theta and x0 of independently integrated solutions at 1e-4; a model is non-trivial when J and (if it has parameters) G '
                    'are non-zero at a sampled point; distinct by definition.  Shapes covered: %s; integrated %d (skipped as not tame: %d); '
                    'largest error / tolerance: Jacobians %.3g, integrated %.3g'
                    % (sorted(shapes_seen), margins['integrated'], margins['integration_skipped'], margins['jac'], margins['int']),
            'bound': '%d models x 2 points x (2 arrangements + IV system), %d of them also integrated over a horizon <= 1.0 (halved until the trajectory stays in (-0.5, 50)) on 3 grid points'
                     % (n_models, margins['integrated'])}


def replay(c):
    case = dict(c['case'])
    try:
        bad, info = check_case(case)
    except Exception as e:
        bad = ["raises %s: %s" % (type(e).__name__, e)]
    return {'reproduced': bool(bad), 'observed': bad[:4], 'input': c['case']}
