"""Bounded stand-in for C01 (and C10's ODE clause): random models, the real evaluators against an
independent sympy reconstruction of V, rates, explicit terms and ODE = V*rates + explicit."""
import copy
import numpy as np
from standins import models


def check_spec(spec, rng, backend='lambda', npoints=2):
    import sympy
    bad = []
    ode_ref, V, rates, pure, loc = models.reference(spec)
    m = models.build(spec, backend=backend)
    for _ in range(npoints):
        x, theta, t = models.point(rng, spec)
        m.parameters = list(theta)
        got = {'ode': m.ode(x, t), 'vMat': m.vMat(x, t), 'eventRateVector': m.eventRateVector(x, t), 'pureOdeVector': m.pureOdeVector(x, t)}
        want = {'ode': models.numeric(ode_ref, loc, spec, x, theta, t).ravel(), 'vMat': models.numeric(V, loc, spec, x, theta, t),
                'eventRateVector': models.numeric(rates, loc, spec, x, theta, t).ravel(), 'pureOdeVector': models.numeric(pure, loc, spec, x, theta, t).ravel()}
        for k in got:
            g, w = np.asarray(got[k], float), want[k]
            if g.shape != w.shape:
                bad.append("%s has shape %s, expected %s" % (k, g.shape, w.shape))
            elif not np.allclose(g, w, rtol=1e-9, atol=1e-10):
                bad.append("%s = %s but the definition gives %s at x=%s" % (k, g.tolist(), w.tolist(), x.tolist()))
        if not bad:
            recon = np.asarray(got['vMat'], float).dot(np.asarray(got['eventRateVector'], float)) + np.asarray(got['pureOdeVector'], float)
            if not np.allclose(recon, np.asarray(got['ode'], float), rtol=1e-9, atol=1e-10):
                bad.append("ode != vMat . rates + explicit terms at x=%s" % x.tolist())
    # symbolic identity
    sym = sympy.simplify(sympy.Matrix(m.get_ode_eqn()) - sympy.Matrix(m.get_StateChangeMatrix()) * sympy.Matrix(m.get_EventRateVector()) - sympy.Matrix(m.get_pureOdeVector()))
    if any(e != 0 for e in sym):
        bad.append("symbolic ode - (V*rates + explicit) = %s" % list(sym))
    return bad


def run(tier='quick', seed=0):
    rng = np.random.RandomState(seed)
    n = 6 if tier == 'quick' else 40
    evals, failures, samples, distinct = 0, [], [], set()
    for k in range(n):
        spec = models.random_spec(rng, ode_terms=(k % 2 == 0), derived=(k % 3 == 0), range_names=(k % 5 == 4), short_names=(k % 4 == 1))
        backend = 'cython' if (tier != 'quick' and k % 8 == 0) else 'lambda'
        try:
            bad = check_spec(spec, rng, backend)
        except Exception as e:
            bad = ["raises %s: %s" % (type(e).__name__, e)]
        evals += 1
        distinct.add(repr(spec['events']) + repr(spec['odes']))
        if bad:
            failures.append({'key': 'model %d' % k, 'case': {'spec': spec, 'backend': backend}, 'observed': bad[:4]})
        elif len(samples) < 2:
            samples.append(spec)
        if spec['derived']:
            # a history: a second model with the same names and the same equation strings but another definition of the derived
            # parameter, built in the same process after the first (a definition must not leak from one model into the next)
            twin = copy.deepcopy(spec)
            twin['derived'] = [(spec['derived'][0][0], '2*%s' % spec['params'][-1])]
            try:
                bad2 = check_spec(twin, rng, 'lambda')
            except Exception as e:
                bad2 = ["raises %s: %s" % (type(e).__name__, e)]
            evals += 1
            distinct.add(repr(twin['events']) + repr(twin['derived']))
            if bad2:
                failures.append({'key': 'model %d rebuilt with another derived-parameter definition' % k,
                                 'case': {'spec': twin, 'backend': 'lambda', 'history': [spec]}, 'observed': bad2[:4]})
    return {'evaluations': evals, 'distinct_nontrivial': len(distinct), 'failures': failures, 'samples': samples,
            'rule': 'seeded random models (1-4 states, 1-4 parameters, 1-4 events of 1-3 T/B/D transitions, numeric or symbolic magnitudes, five rate kinds incl. time-periodic, optional ODE terms, derived parameter, range-style names, one-letter lower-case names; every model with a derived parameter is rebuilt in the same process with another definition of it); ode, vMat, rates, explicit terms against an independent sympy reconstruction at 2 points and the symbolic identity; distinct by definition',
            'bound': '%d models x 2 points; cython back end on every 8th model in the thorough tier' % n}


def replay(c):
    spec = c['case']['spec']
    spec['events'] = [(r, [tuple(t) for t in trs]) for r, trs in spec['events']]
    spec['odes'] = [tuple(o) for o in spec['odes']]
    spec['derived'] = [tuple(o) for o in spec['derived']]
    for h in c['case'].get('history', []):          # models built earlier in the same process
        h['events'] = [(r, [tuple(t) for t in trs]) for r, trs in h['events']]
        h['odes'] = [tuple(o) for o in h['odes']]
        h['derived'] = [tuple(o) for o in h['derived']]
        check_spec(h, np.random.RandomState(2), 'lambda')
    bad = check_spec(spec, np.random.RandomState(1), c['case'].get('backend', 'lambda'))
    return {'reproduced': bool(bad), 'observed': bad[:4], 'input': spec}
