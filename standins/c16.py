"""Bounded stand-in for C16: same global seed -> identical serial output, for both stochastic algorithms and
both random-parameter forms; reported mean = mean of the returned runs (bounded, never counted as proved)."""
import numpy as np
from standins import stoch


def param_case(case):
    """solve_determ / simulate_param with random parameters: reproducible and Y = mean(runs)"""
    from contracts import native
    import scipy.stats as st
    spec = case['spec']
    nP = len(spec['params'])
    bad = []
    for form in ('frozen', 'sampler'):
        m = stoch.build(spec, np.asarray(case['x0'], float), [None] * len(spec['states']), np.asarray(case['theta'], float))
        if form == 'frozen':
            d = {p: st.gamma(a=2.0 + i, scale=0.2) for i, p in enumerate(spec['params'])}
        else:
            d = {p: (native.imp('pygom.utilR').rgamma, {'shape': 2.0 + i, 'rate': 5.0}) for i, p in enumerate(spec['params'])}
        t = np.linspace(0.0, 1.0, 5)
        outs = []
        with native.quiet():
            m.parameters = d                 # the random definition is registered once, before the seeded runs
        for rep in range(2):
            if rep == 1:
                # a history step between the two runs: an assignment that is rejected (unknown name) must leave the model -- and the
                # generator its random parameters draw from -- exactly as it was
                try:
                    with native.quiet():
                        m.parameters = {'no_such_parameter': 1.0}
                    bad.append("(%s form): an unknown parameter name was accepted" % form)
                except Exception:
                    pass
            np.random.seed(case['seed'])
            with native.quiet():
                for fn in ('solve_determ', 'simulate_param'):
                    Y, runs = getattr(m, fn)(t[1:], case.get('iterations', 3), full_output=True)
                    outs.append((fn, rep, np.asarray(Y, float), [np.asarray(r, float) for r in runs]))
                    if not np.allclose(np.asarray(Y, float), np.mean(np.asarray(runs, float), axis=0), rtol=1e-12, atol=1e-12):
                        bad.append("%s (%s form): reported mean is not the mean of the returned runs" % (fn, form))
        for fn in ('solve_determ', 'simulate_param'):
            a = [o for o in outs if o[0] == fn]
            if not (np.array_equal(a[0][2], a[1][2]) and all(np.array_equal(x, y) for x, y in zip(a[0][3], a[1][3]))):
                bad.append("%s (%s form): same global seed, different output" % (fn, form))
            if len(a[0][3]) > 1 and all(np.array_equal(a[0][3][0], r) for r in a[0][3][1:]):
                bad.append("%s (%s form): all runs identical, parameters were not drawn" % (fn, form))
    return bad


def chain_case(rng):
    """a well-posed model for the deterministic clause: a progression chain x0 -> x1 -> ... (-> x0) whose rates vanish with their
    origin compartment (linear or mass action), so the ODE solution stays in the positive orthant, exists on the whole grid and
    depends on every parameter.  (The random event models of the stochastic corpus can drive a compartment negative, where a
    saturating rate has a pole: odeint then fails and returns uninitialised rows, which are not reproducible and say nothing about
    the property.)"""
    nS = int(rng.randint(1, 5))
    states = ['x%d' % i for i in range(nS)]
    events, params = [], []
    for k in range(nS if nS > 1 else 1):
        p = 'p%d' % k
        params.append(p)
        o = states[k]
        d = states[(k + 1) % nS]
        mass = nS > 1 and rng.uniform() < 0.5
        rate = ('%s*%s*%s/20' % (p, o, d)) if mass else ('%s*%s' % (p, o))
        if nS == 1:
            events.append((rate, [('D', o, o, '1')]))
        elif k == nS - 1 and rng.uniform() < 0.5:
            events.append((rate, [('D', o, o, '1')]))          # open chain: the last compartment drains
        else:
            events.append((rate, [('T', o, d, '1')]))
    spec = {'states': states, 'state_decl': list(states), 'params': params, 'events': events, 'odes': [], 'derived': []}
    x0 = rng.randint(3, 25, size=nS).astype(float)
    return dict(spec=spec, x0=x0.tolist(), lims=[None] * nS, theta=rng.uniform(0.2, 1.5, size=len(params)).tolist(), exact=True, pre_tau=None,
                horizon=1.0, seed=int(rng.randint(1, 2 ** 31 - 1)), closed=False, runs=2)


def run(tier='quick', seed=0):
    r = stoch.run_raw(tier, seed)
    seen = set()
    rng = np.random.RandomState(seed + 31)
    for k, case in enumerate([chain_case(rng) for _ in range(3 if tier == 'quick' else 12)]):
        # numbers of runs: one, a few, and more than a hundred but not a multiple of a hundred (a blocked or batched average must
        # still be the average of all runs)
        case['iterations'] = [3, 1, 130, 7, 250][k % 5]
        key = repr(case['spec']['events']) + str(case['iterations'])
        if key in seen:
            continue
        seen.add(key)
        try:
            bad = param_case(case)
        except Exception as e:
            bad = ["raises %s: %s" % (type(e).__name__, e)]
        r['evaluations'] += 1
        if bad:
            r['failures'].append({'key': 'random-parameter case %d' % k, 'case': case, 'observed': bad[:4], 'what': 'param'})
    r['rule'] += '; plus, on seeded progression chains (1-4 compartments, linear or mass-action rates): solve_determ and simulate_param with gamma-distributed parameters in both input forms, run twice from the same seed with a rejected parameter assignment in between'
    return r


def replay(c):
    case = stoch.normalise(c['case'])
    bad = param_case(case) if c.get('what') == 'param' else stoch.raw_case(case)[0]
    return {'reproduced': bool(bad), 'observed': bad[:4], 'input': case}
