"""Bounded stand-in for C11: raw stochastic paths of random event models against their declared limits (and the rest of the path invariant)
(bounded, never counted as proved)."""
from standins import stoch


def run(tier='quick', seed=0):
    return stoch.run_raw(tier, seed)


def replay(c):
    bad, steps = stoch.raw_case(stoch.normalise(c['case']))
    return {'reproduced': bool(bad), 'observed': bad[:4], 'input': c['case']}
