"""Bounded stand-in for C03: random models, the real derivative evaluators against sympy
derivatives of an independent reconstruction of the ODE and rates."""
import numpy as np
from standins import models


def check_spec(spec, rng):
    import sympy
    bad = []
    ode_ref, V, rates, pure, loc = models.reference(spec)
    S = [loc[s] for s in spec['states']]
    P = [loc[p] for p in spec['params']]
    nS, nP, nE = len(S), len(P), len(spec['events'])
    J = ode_ref.jacobian(S)
    G = ode_ref.jacobian(P)
    DJ = sympy.Matrix([[sympy.diff(sympy.diff(ode_ref[e], S[a]), S[b]) for b in range(nS)] for e in range(nS) for a in range(nS)])
    GJ = sympy.Matrix([[sympy.diff(G[i, k], S[j]) for j in range(nS)] for k in range(nP) for i in range(nS)])
    F = sympy.Matrix([[sum(sympy.diff(rates[i], S[k]) * V[k, j] for k in range(nS)) for j in range(nE)] for i in range(nE)])
    mu = sympy.Matrix([sum(F[i, j] * rates[j] for j in range(nE)) for i in range(nE)])
    s2 = sympy.Matrix([sum(F[i, j] ** 2 * rates[j] for j in range(nE)) for i in range(nE)])
    m = models.build(spec)
    x, theta, t = models.point(rng, spec)
    m.parameters = list(theta)
    table = [('jacobian', J, (nS, nS)), ('grad', G, (nS, nP)), ('diff_jacobian', DJ, (nS * nS, nS)), ('grad_jacobian', GJ, (nS * nP, nS)),
             ('transitionJacobian', F, (nE, nE)), ('transitionMean', mu, (nE,)), ('transitionVar', s2, (nE,))]
    for name, ref, shape in table:
        got = np.asarray(getattr(m, name)(x, t), float)
        want = models.numeric(ref, loc, spec, x, theta, t)
        if got.size != want.size:
            bad.append("%s has %d elements, expected %d" % (name, got.size, want.size))
        elif not np.allclose(got.ravel(), want.ravel(), rtol=1e-8, atol=1e-9):
            bad.append("%s differs from the exact derivative: max abs err %.3g" % (name, float(np.max(np.abs(got.ravel() - want.ravel())))))
        elif name in ('jacobian', 'grad', 'grad_jacobian') and got.shape != tuple(shape):
            bad.append("%s has shape %s, expected %s" % (name, got.shape, shape))
    return bad


def run(tier='quick', seed=0):
    rng = np.random.RandomState(seed)
    n = 5 if tier == 'quick' else 30
    evals, failures, samples, distinct = 0, [], [], set()
    for k in range(n):
        spec = models.random_spec(rng, ode_terms=(k % 2 == 0), derived=(k % 4 == 0))
        try:
            bad = check_spec(spec, rng)
        except Exception as e:
            bad = ["raises %s: %s" % (type(e).__name__, e)]
        evals += 1
        distinct.add(repr(spec['events']) + repr(spec['odes']))
        if bad:
            failures.append({'key': 'model %d' % k, 'case': {'spec': spec}, 'observed': bad[:4]})
        elif len(samples) < 2:
            samples.append(spec)
    return {'evaluations': evals, 'distinct_nontrivial': len(distinct), 'failures': failures, 'samples': samples,
            'rule': 'seeded random models as in C01; jacobian, grad, diff_jacobian, grad_jacobian, transitionJacobian, transitionMean, transitionVar against sympy derivatives of an independent reconstruction at one random point; distinct by definition',
            'bound': '%d models x 1 point x 7 evaluators' % n}


def replay(c):
    spec = c['case']['spec']
    spec['events'] = [(r, [tuple(t) for t in trs]) for r, trs in spec['events']]
    spec['odes'] = [tuple(o) for o in spec['odes']]
    spec['derived'] = [tuple(o) for o in spec['derived']]
    bad = check_spec(spec, np.random.RandomState(1))
    return {'reproduced': bool(bad), 'observed': bad[:4], 'input': spec}
