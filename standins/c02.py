"""Bounded stand-in for C02 (and native replay of its contracts): the real integrateFuncJac and
the model entry points against closed-form flows.  Bounded, never counted as proved."""
import numpy as np

METHODS = (None, 'lsoda', 'vode', 'ivode', 'dopri5', 'dop853')


def systems(seed):
    rng = np.random.RandomState(seed)
    out = []
    for n in (1, 2, 3):
        A = rng.uniform(-1, 1, size=(n, n)) - 1.2 * np.eye(n)
        x0 = rng.uniform(0.5, 2, size=n)
        out.append(('linear%d' % n, A, x0))
    # an initial state given as whole numbers (population counts): an integer-dtype array / a list of python ints
    A = rng.uniform(-1, 1, size=(2, 2)) - 1.2 * np.eye(2)
    out.insert(1, ('linear2-integer-x0', A, np.array([int(v) for v in rng.randint(3, 40, size=2)])))
    return out


def check_case(name, A, x0, method, full_output, include_origin, grid):
    from contracts import native
    from scipy.linalg import expm
    ou = native.imp('pygom.model.ode_utils')
    f = lambda t, y: A.dot(y)
    jac = lambda t, y: A
    t0 = 0.3
    with native.quiet():
        r = ou.integrateFuncJac(f, jac, x0.copy(), t0, grid, includeOrigin=include_origin, full_output=full_output, method=method)
    sol = r[0] if full_output else r
    exact = np.array([expm(A * (t - t0)).dot(x0) for t in grid])
    if include_origin:
        exact = np.vstack([x0, exact])
    bad = []
    if np.shape(sol) != exact.shape:
        bad.append("shape %s, expected %s" % (np.shape(sol), exact.shape))
    elif not np.allclose(sol, exact, rtol=1e-6, atol=1e-6):
        bad.append("max abs error %.3g against the matrix-exponential solution (rows all equal last row: %s)"
                   % (float(np.max(np.abs(sol - exact))), bool(np.allclose(sol, sol[-1]))))
    return bad


def run(tier='quick', seed=0):
    evals, failures, samples, distinct = 0, [], [], set()
    grids = [np.array([0.5, 0.9, 2.0, 2.1, 4.0])] + ([np.linspace(0.4, 3.0, 7)] if tier != 'quick' else [])
    for name, A, x0 in systems(seed)[: (2 if tier == 'quick' else 4)]:
        for method in METHODS:
            for fo in (False, True):
                for io in (False, True):
                    for g in grids:
                        case = {'system': name, 'A': A.tolist(), 'x0': x0.tolist(), 'method': method, 'full_output': fo, 'includeOrigin': io, 'grid': g.tolist()}
                        try:
                            bad = check_case(name, A, x0, method, fo, io, g)
                        except Exception as e:
                            bad = ["raises %s: %s" % (type(e).__name__, e)]
                        evals += 1
                        distinct.add((name, method, fo, io, len(g)))
                        if bad:
                            failures.append({'key': 'integrateFuncJac method=%s full_output=%s' % (method, fo), 'case': case, 'observed': bad})
                        elif len(samples) < 3:
                            samples.append(case)
    if tier != 'quick':
        f2 = model_entry_points(seed)
        evals += f2[0]
        failures += f2[1]
        distinct |= f2[2]
    return {'evaluations': evals, 'distinct_nontrivial': len(distinct), 'failures': failures, 'samples': samples,
            'rule': 'random stable linear systems (1-3 states, one with an integer-dtype initial state) on non-uniform grids, every method x full_output x includeOrigin, compared with the matrix exponential at 1e-6; thorough: integrate / integrate2 / solve_determ of an SIR and a one-state model against odeint at 1e-6',
            'bound': '%d systems x 6 methods x 4 option pairs x %d grids' % (2 if tier == 'quick' else 4, len(grids))}


def model_entry_points(seed):
    import scipy.integrate
    from contracts import native
    pm = native.imp('pygom.model')
    evals, failures, distinct = 0, [], set()
    with native.quiet():
        sir = pm.SimulateOde(['S', 'I', 'R'], ['beta', 'gamma'],
                             event=[pm.Event(rate='beta*S*I', transition_list=[pm.Transition(origin='S', destination='I', transition_type='T')]),
                                    pm.Event(rate='gamma*I', transition_list=[pm.Transition(origin='I', destination='R', transition_type='T')])])
        sir.parameters = [0.8, 0.3]
        one = pm.SimulateOde(['x'], ['r'], event=[pm.Event(rate='r*x', transition_list=[pm.Transition(origin='x', transition_type='D')])])
        one.parameters = [0.7]
    grid = np.array([0.5, 1.0, 2.5, 2.6, 6.0])
    for label, ode, x0, rhs in (('SIR', sir, [0.9, 0.1, 0.0], lambda y, t: [-0.8 * y[0] * y[1], 0.8 * y[0] * y[1] - 0.3 * y[1], 0.3 * y[1]]),
                                ('decay', one, [2.0], lambda y, t: [-0.7 * y[0]])):
        ref = scipy.integrate.odeint(rhs, x0, np.append(0.0, grid), rtol=1e-11, atol=1e-11)
        with native.quiet():
            ode.initial_values = (x0, 0.0)
        calls = [('integrate', lambda: ode.integrate(grid)), ('solve_determ', lambda: ode.solve_determ(grid))] + \
                [('integrate2/%s' % m, (lambda m_: (lambda: ode.integrate2(grid, method=m_)))(m)) for m in METHODS]
        for nm, call in calls:
            evals += 1
            distinct.add((label, nm))
            try:
                with native.quiet():
                    sol = call()
                ok = np.shape(sol) == ref.shape and np.allclose(sol, ref, rtol=1e-6, atol=1e-6)
                obs = "shape %s, max abs error %s" % (np.shape(sol), float(np.max(np.abs(np.asarray(sol) - ref))) if np.shape(sol) == ref.shape else 'n/a')
            except Exception as e:
                ok, obs = False, "raises %s: %s" % (type(e).__name__, e)
            if not ok:
                failures.append({'key': '%s %s' % (label, nm), 'case': {'model': label, 'entry': nm, 'grid': grid.tolist(), 'x0': x0}, 'observed': [obs]})
    return evals, failures, distinct


def replay(c):
    d = c['case']
    if 'A' in d:
        bad = check_case(d['system'], np.array(d['A']), np.array(d['x0']), d['method'], d['full_output'], d['includeOrigin'], np.array(d['grid']))
        return {'reproduced': bool(bad), 'observed': bad, 'input': d}
    ev, fails, _ = model_entry_points(0)
    hit = [f for f in fails if f['key'] == c.get('key')]
    return {'reproduced': bool(hit), 'observed': [h['observed'] for h in hit], 'input': d}
