"""Bounded stand-in for C10: transition-only random models -- the ODE components sum to zero at random
points, deterministic solutions and every stochastic path keep the total (bounded, never counted as proved)."""
import numpy as np
from standins import stoch, models


def ode_case(case):
    from contracts import native
    spec = case['spec']
    m = stoch.build(spec, np.asarray(case['x0'], float), [None] * len(spec['states']), np.asarray(case['theta'], float))
    bad = []
    rng = np.random.RandomState(case['seed'])
    for _ in range(3):
        x = rng.uniform(0.5, 20, size=len(spec['states']))
        t = float(rng.uniform(0, 5))
        s = float(np.sum(m.ode(x, t)))
        if abs(s) > 1e-9 * (1 + np.abs(m.ode(x, t)).sum()):
            bad.append("sum of the ODE components is %s at x=%s" % (s, x.tolist()))
    import sympy
    if sympy.simplify(sum(m.get_ode_eqn())) != 0:
        bad.append("symbolic sum of the ODE components is %s" % sympy.simplify(sum(m.get_ode_eqn())))
    with native.quiet():
        sol, info = m.integrate(np.linspace(0.2, 2.0, 6), full_output=True)
    # a random model can drive a compartment negative, where a saturating rate x/(1+x) has a pole: the ODE has no solution past it
    # and odeint reports failure (rows of zeros).  Conservation is a statement about solutions, so only a run the integrator
    # reports as successful, with a state that stays in the closed positive orthant, is judged
    ok = isinstance(info, dict) and str(info.get('message', '')).startswith('Integration successful') and np.all(np.asarray(sol, float) > -1e-9)
    tot = np.asarray(sol, float).sum(axis=1)
    if ok and np.any(np.abs(tot - tot[0]) > 1e-6 * (1 + abs(tot[0]))):
        bad.append("deterministic solution: total goes %s" % tot.tolist())
    return bad


def run(tier='quick', seed=0):
    r = stoch.run_raw(tier, seed, closed=True)
    seen = set()
    for k, case in enumerate(stoch.corpus(seed, 5 if tier == 'quick' else 30, closed=True)):
        key = repr(case['spec']['events'])
        if key in seen:
            continue
        seen.add(key)
        try:
            bad = ode_case(case)
        except Exception as e:
            bad = ["raises %s: %s" % (type(e).__name__, e)]
        r['evaluations'] += 1
        if bad:
            r['failures'].append({'key': 'ode case %d' % k, 'case': case, 'observed': bad[:4], 'what': 'ode'})
    r['rule'] += '; plus, per model: sum of ode(x,t) at 3 random points, symbolic sum, and the total along integrate()'
    return r


def replay(c):
    case = stoch.normalise(c['case'])
    bad = ode_case(case) if c.get('what') == 'ode' else stoch.raw_case(case)[0]
    return {'reproduced': bool(bad), 'observed': bad[:4], 'input': case}
