"""Seeded random model definitions for the bounded stand-ins (bounded, never counted as proved)."""
import numpy as np

RATE_KINDS = ('linear', 'mass', 'saturating', 'exp', 'periodic')


def random_spec(rng, n_states=None, n_events=None, ode_terms=False, derived=False, range_names=False,
                transition_only=False, integer_magnitudes=False, bounded=False, short_names=False):
    nS = n_states or int(rng.randint(1, 5))
    if range_names and nS >= 2:
        states = ['y%d' % (i + 1) for i in range(nS)]
        state_decl = ['y1:%d' % (nS + 1)]
    elif short_names:
        # one-letter lower-case names, the kind a loop variable or a temporary inside the library might also have
        states = ['s', 'i', 'r', 'v', 'w'][:nS]
        state_decl = list(states)
    else:
        states = ['S', 'I', 'R', 'V', 'W'][:nS]
        state_decl = list(states)
    nP = int(rng.randint(1, 5))
    params = ['p%d' % i for i in range(nP)] if not short_names else ['k', 'n', 'j', 'm'][:nP]
    nE = n_events if n_events is not None else int(rng.randint(1, 5))
    events = []
    for e in range(nE):
        p = params[int(rng.randint(nP))]
        a, b = states[int(rng.randint(nS))], states[int(rng.randint(nS))]
        kind = RATE_KINDS[int(rng.randint(len(RATE_KINDS)))] if not bounded else ('linear', 'saturating')[int(rng.randint(2))]
        rate = {'linear': '%s*%s' % (p, a), 'mass': '%s*%s*%s' % (p, a, b), 'saturating': '%s*%s/(1+%s)' % (p, a, a),
                'exp': '%s*exp(-0.1*%s)' % (p, a), 'periodic': '%s*(1+cos(t))*%s' % (p, a)}[kind]
        trs = []
        for k in range(int(rng.randint(1, 4))):
            types = ['T'] if (transition_only and nS >= 2) else (['T', 'B', 'D'] if nS >= 2 else ['B', 'D'])
            if transition_only and nS < 2:
                types = ['D']
            ty = types[int(rng.randint(len(types)))]
            if integer_magnitudes:
                mag = str(int(rng.randint(1, 4)))
            else:
                mag = ['1', '2', '3', params[int(rng.randint(nP))]][int(rng.randint(4))]
            o = states[int(rng.randint(nS))]
            d = states[int(rng.randint(nS))]
            while ty == 'T' and d == o:
                d = states[int(rng.randint(nS))]
            trs.append((ty, o, d, mag))
        events.append((rate, trs))
    odes = []
    if ode_terms:
        for q in range(int(rng.randint(1, 3))):
            s = states[int(rng.randint(nS))]
            odes.append((s, '-%s*%s' % (params[int(rng.randint(nP))], s)))
    der = [('dq', '%s+1' % params[0])] if derived else []
    if derived and events:
        r, trs = events[0]
        events[0] = ('dq*' + r, trs)
    return {'states': states, 'state_decl': state_decl, 'params': params, 'events': events, 'odes': odes, 'derived': der}


def build(spec, backend='lambda', cls='SimulateOde', limits=None):
    from contracts import native
    pm = native.imp('pygom.model')
    ou = native.imp('pygom.model.ode_utils')
    evs = []
    for rate, trs in spec['events']:
        tl = []
        for ty, o, d, mag in trs:
            if ty == 'T':
                tl.append(pm.Transition(origin=o, destination=d, transition_type='T', magnitude=mag))
            elif ty == 'B':
                tl.append(pm.Transition(destination=d, transition_type='B', magnitude=mag))
            else:
                tl.append(pm.Transition(origin=o, transition_type='D', magnitude=mag))
        evs.append(pm.Event(rate=rate, transition_list=tl))
    odes = [pm.Transition(origin=s, equation=eq, transition_type='ODE') for s, eq in spec['odes']]
    state_decl = spec['state_decl'] if limits is None else [((s, tuple(l)) if l is not None else s) for s, l in zip(spec['states'], limits)]
    with native.quiet():
        m = getattr(pm, cls)(state_decl, spec['params'], derived_param=spec['derived'] or None, event=evs or None, ode=odes or None)
        if backend != 'cython':
            m._SC = ou.compileCode(backend=backend)
    return m


def reference(spec):
    """independent sympy reconstruction: (ode vector, vMat, rates, pure) as sympy objects"""
    import sympy
    names = spec['states'] + spec['params'] + ['t'] + [d[0] for d in spec['derived']]
    loc = {n: sympy.Symbol(n) for n in names}
    subs = {loc[n]: sympy.sympify(eq, locals=loc) for n, eq in spec['derived']}
    P = lambda s: sympy.sympify(s, locals=loc).subs(subs)
    nS, nE = len(spec['states']), len(spec['events'])
    V = sympy.zeros(nS, nE)
    rates = sympy.zeros(nE, 1)
    ix = {s: i for i, s in enumerate(spec['states'])}
    for e, (rate, trs) in enumerate(spec['events']):
        rates[e] = P(rate)
        for ty, o, d, mag in trs:
            if ty in ('T', 'D'):
                V[ix[o], e] -= P(mag)
            if ty in ('T', 'B'):
                V[ix[d], e] += P(mag)
    pure = sympy.zeros(nS, 1)
    for s, eq in spec['odes']:
        pure[ix[s]] += P(eq)
    ode = V * rates + pure
    return ode, V, rates, pure, loc


def point(rng, spec):
    x = rng.uniform(0.5, 9.0, size=len(spec['states']))
    theta = rng.uniform(0.2, 2.0, size=len(spec['params']))
    t = float(rng.uniform(0.1, 5.0))
    return x, theta, t


def numeric(expr_matrix, loc, spec, x, theta, t):
    import sympy
    vals = {loc[s]: float(v) for s, v in zip(spec['states'], x)}
    vals.update({loc[p]: float(v) for p, v in zip(spec['params'], theta)})
    vals[loc['t']] = t
    return np.array(expr_matrix.subs(vals).evalf(), dtype=float)
