"""Bounded stand-in for C12: the same random set of processes entered through different API routes (Event objects,
Transitions carrying their own rate in the event list, the legacy transition / birth_death lists, births named by origin
or destination, explicit ODE terms, incremental add_* calls, string or list declarations) and in different orders must give
the same ODE (symbolically) and the same ode / jacobian values.  Bounded, never counted as proved."""
import numpy as np

STATES, PARAMS = ['S', 'I', 'R', 'V'], ['beta', 'gamma', 'mu', 'nu']


def random_processes(rng, nS, n):
    procs = []
    st = STATES[:nS]
    for k in range(n):
        ty = ['T', 'T', 'B', 'D'][int(rng.randint(4))] if nS >= 2 else ['B', 'D'][int(rng.randint(2))]
        o, d = rng.choice(nS, size=2, replace=False) if nS >= 2 else (0, 0)
        p = PARAMS[int(rng.randint(len(PARAMS)))]
        a = st[int(rng.randint(nS))]
        rate = ['%s*%s' % (p, a), '%s*%s*%s' % (p, a, st[int(rng.randint(nS))]), '%s' % p, '%s*%s/(1+%s)' % (p, a, a)][int(rng.randint(4))]
        mag = ['1', '2', '3', PARAMS[int(rng.randint(len(PARAMS)))]][int(rng.randint(4))] if rng.uniform() < 0.5 else '1'
        if procs and rng.uniform() < 0.4:
            rate = procs[int(rng.randint(len(procs)))]['rate']        # shares its rate with an earlier process: can be grouped into one Event
        procs.append({'type': ty, 'o': st[o], 'd': st[d], 'rate': rate, 'mag': mag})
    return procs


def reference(nS, procs):
    import sympy
    loc = {n: sympy.Symbol(n) for n in STATES + PARAMS}
    ode = [sympy.Integer(0)] * nS
    ix = {s: i for i, s in enumerate(STATES[:nS])}
    for p in procs:
        r = sympy.sympify(p['rate'], locals=loc) * sympy.sympify(p['mag'], locals=loc)
        if p['type'] in ('T', 'D'):
            ode[ix[p['o']]] -= r
        if p['type'] == 'T':
            ode[ix[p['d']]] += r
        if p['type'] == 'B':
            ode[ix[p['d']]] += r
    return ode, loc


def build(nS, procs, routes, order, decl, incremental):
    """routes[k] in {'event', 'grouped-event', 'event-member-rate', 'transition-in-event-list', 'legacy', 'ode', 'birth-by-origin'}"""
    from contracts import native
    pm, ou = native.imp('pygom.model'), native.imp('pygom.model.ode_utils')
    T = pm.Transition
    st = STATES[:nS]
    ev, tr, bd, od = [], [], [], []
    grouped = {}
    for k in order:
        p, route = procs[k], routes[k]
        ty = p['type']
        kw = dict(transition_type=ty, magnitude=p['mag'])
        if ty == 'T':
            kw.update(origin=p['o'], destination=p['d'])
        elif ty == 'D':
            kw.update(origin=p['o'])
        else:
            kw.update(**({'origin': p['d']} if route == 'birth-by-origin' else {'destination': p['d']}))
        if route == 'ode':
            # one explicit ODE term per affected state
            term = '(%s)*(%s)' % (p['rate'], p['mag'])
            if ty in ('T', 'D'):
                od.append(T(origin=p['o'], equation='-' + term, transition_type='ODE'))
            if ty == 'T':
                od.append(T(origin=p['d'], equation=term, transition_type='ODE'))
            if ty == 'B':
                od.append(T(origin=p['d'], equation=term, transition_type='ODE'))
        elif route == 'legacy':
            (tr if ty == 'T' else bd).append(T(equation=p['rate'], **kw))
        elif route == 'transition-in-event-list':
            ev.append(T(equation=p['rate'], **kw))
        elif route == 'event-member-rate':
            ev.append(pm.Event(transition_list=[T(equation=p['rate'], **kw)]))
        elif route == 'grouped-event':
            # processes with the same rate become the member transitions of ONE Event, in the order they are met
            grouped.setdefault(p['rate'], []).append(T(**kw))
        else:
            ev.append(pm.Event(rate=p['rate'], transition_list=[T(**kw)]))
    for rate, members in grouped.items():
        ev.append(pm.Event(rate=rate, transition_list=members))
    sdecl = {'list': st, 'string': ', '.join(st), 'string-spaces': ' '.join(st)}[decl[0]]
    pdecl = {'list': PARAMS, 'string': ','.join(PARAMS), 'string-spaces': ' '.join(PARAMS)}[decl[1]]
    with native.quiet():
        if incremental:
            m = pm.SimulateOde(sdecl, pdecl)
            for e in ev:
                m.add_event(e)
            for t in tr:
                m.add_transition(t)
            for b in bd:
                m.add_birth_death(b)
            for o in od:
                m.add_ode(o)
        else:
            m = pm.SimulateOde(sdecl, pdecl, event=ev or None, transition=tr or None, birth_death=bd or None, ode=od or None)
        m._SC = ou.compileCode(backend='lambda')
    return m


def check(case):
    import sympy
    from contracts import native
    nS, procs = case['nS'], case['procs']
    ode_ref, loc = reference(nS, procs)
    bad = []
    x = np.array(case['x'][:nS])
    th = case['theta']
    vals = {loc[s]: v for s, v in zip(STATES[:nS], x)}
    vals.update({loc[p]: v for p, v in zip(PARAMS, th)})
    ref_num = np.array([float(e.subs(vals)) for e in ode_ref])
    jac_ref = np.array([[float(sympy.diff(e, loc[s]).subs(vals)) for s in STATES[:nS]] for e in ode_ref])
    for v in case['variants']:
        try:
            m = build(nS, procs, v['routes'], v['order'], v['decl'], v['incremental'])
            with native.quiet():
                m.parameters = list(th)
                eq = [sympy.sympify(str(e), locals=loc) for e in m.get_ode_eqn()]
                num = np.asarray(m.ode(x, 0.3), float)
                jac = np.asarray(m.jacobian(x, 0.3), float)
        except Exception as e:
            bad.append("variant %s raises %s: %s" % (v['label'], type(e).__name__, str(e)[:100]))
            continue
        if any(sympy.simplify(a - b) != 0 for a, b in zip(eq, ode_ref)):
            bad.append("variant %s: ODE %s, the processes describe %s" % (v['label'], [str(e) for e in eq], [str(e) for e in ode_ref]))
        elif not np.allclose(num, ref_num, rtol=1e-10, atol=1e-12) or not np.allclose(jac, jac_ref, rtol=1e-9, atol=1e-11):
            bad.append("variant %s: numeric ode/jacobian differ from the reference" % v['label'])
    return bad


def make_case(rng, k):
    nS = [3, 2, 4, 1, 3][k % 5]
    procs = random_processes(rng, nS, int(rng.randint(2, 7)))
    n = len(procs)
    variants = []

    def routes_for(pref):
        out = []
        for p in procs:
            if pref == 'legacy':
                out.append('legacy')
            elif pref == 'birth-by-origin':
                out.append('birth-by-origin' if p['type'] == 'B' else 'event')
            elif pref == 'mixed':
                out.append(['event', 'event-member-rate', 'transition-in-event-list', 'legacy', 'ode', 'birth-by-origin' if p['type'] == 'B' else 'event'][int(rng.randint(6))])
            else:
                out.append(pref)
        return out
    for label, pref in (('events', 'event'), ('member-rate', 'event-member-rate'), ('transitions-in-event-list', 'transition-in-event-list'),
                        ('legacy-lists', 'legacy'), ('explicit-odes', 'ode'), ('births-by-origin', 'birth-by-origin'), ('mixed', 'mixed'), ('mixed-2', 'mixed'),
                        ('grouped-events', 'grouped-event'), ('grouped-events-2', 'grouped-event')):
        variants.append({'label': label, 'routes': routes_for(pref), 'order': rng.permutation(n).tolist(),
                         'decl': [['list', 'string', 'string-spaces'][int(rng.randint(3))] for _ in range(2)], 'incremental': bool(rng.randint(2))})
    # the list-valued constructor arguments and the incremental calls, each for the pure legacy and the pure event encodings
    for label, pref, inc in (('legacy-lists/constructor', 'legacy', False), ('legacy-lists/incremental', 'legacy', True),
                             ('events/constructor', 'event', False), ('explicit-odes/constructor', 'ode', False)):
        variants.append({'label': label, 'routes': routes_for(pref), 'order': list(range(n)), 'decl': ['list', 'list'], 'incremental': inc})
    return {'nS': nS, 'procs': procs, 'variants': variants, 'x': [round(float(v), 3) for v in rng.uniform(0.5, 9, size=4)],
            'theta': [round(float(v), 3) for v in rng.uniform(0.2, 2, size=4)]}


def run(tier='quick', seed=0):
    rng = np.random.RandomState(seed)
    n = 10 if tier == 'quick' else 40
    evals, failures, samples, distinct = 0, [], [], set()
    for k in range(n):
        case = make_case(rng, k)
        try:
            bad = check(case)
        except Exception as e:
            bad = ["raises %s: %s" % (type(e).__name__, e)]
        evals += len(case['variants'])
        distinct.add(repr(case['procs']))
        if bad:
            failures.append({'key': 'process set %d' % k, 'case': case, 'observed': bad[:4]})
        elif len(samples) < 2:
            samples.append({'processes': case['procs'], 'variants': [v['label'] for v in case['variants']]})
    return {'evaluations': evals, 'distinct_nontrivial': len(distinct), 'failures': failures, 'samples': samples,
            'rule': 'seeded random process sets (1-5 T/B/D processes with numeric or symbolic magnitudes on 1-4 states), each built through 14 route assignments (Event objects, one Event per group of processes that share a rate (member transitions in two random orders), '
                    'Event with the rate on its member, Transition in the event list, legacy transition/birth_death lists, explicit ODE terms, births named by origin, two random '
                    'mixtures), random order, list / comma / space string declarations, constructor or incremental add_* calls; symbolic ODE and numeric ode/jacobian against an '
                    'independent sympy reference; evaluations = model variants, distinct = process sets',
            'bound': '%d process sets x 14 variants' % n}


def replay(c):
    bad = check(c['case'])
    return {'reproduced': bool(bad), 'observed': bad[:4], 'input': c['case']}
