"""Bounded stand-in for C04: raw stochastic paths of random event models against the path invariant
(bounded, never counted as proved)."""
from standins import stoch


def run(tier='quick', seed=0):
    return stoch.run_raw(tier, seed)


def replay(c):
    bad, steps = stoch.raw_case(stoch.normalise(c['case']))
    return {'reproduced': bool(bad), 'observed': bad[:4], 'input': c['case']}
