"""Bounded stand-in for C19: the real wrappers against scipy.stats at random valid arguments,
and seeded generators called twice.  Bounded, never counted as proved."""
import random


def _cases(seed, n):
    rnd = random.Random(seed)
    out = []
    for _ in range(n):
        out.append({'exp': {'x': rnd.uniform(0.01, 5), 'rate': rnd.uniform(0.1, 5)},
                    'gamma': {'x': rnd.uniform(0.01, 5), 'shape': rnd.uniform(0.2, 5), 'rate': rnd.uniform(0.1, 5)},
                    'norm': {'x': rnd.uniform(-3, 3), 'mean': rnd.uniform(-2, 2), 'sd': rnd.uniform(0.1, 3)},
                    'chisq': {'x': rnd.uniform(0.01, 8), 'df': rnd.uniform(0.5, 6)},
                    'unif': {'x': rnd.uniform(0.6, 2.4), 'min': 0.5, 'max': 2.5},
                    'beta': {'x': rnd.uniform(0.05, 0.95), 'shape1': rnd.uniform(0.5, 4), 'shape2': rnd.uniform(0.5, 4)},
                    'pois': {'x': rnd.randint(0, 8), 'mu': rnd.uniform(0.2, 6)},
                    'binom': {'x': rnd.randint(0, 7), 'size': 7, 'prob': rnd.uniform(0.05, 0.95)}})
    return out


def run(tier='quick', seed=0):
    from contracts import c19
    n = 3 if tier == 'quick' else 25
    evals, failures, samples, distinct = 0, [], [], set()
    for case in _cases(seed, n):
        for kind, dists in c19.PROVIDED.items():
            for d in dists:
                for log in ((False, True) if kind in ('d', 'p') else (False,)):
                    args = dict(case[d])
                    if kind == 'q':
                        args['x'] = min(max(abs(args['x']) % 1.0, 0.02), 0.98)
                    r = c19._native_dpq(kind + d, kind, d, log, args, False)
                    evals += 1
                    distinct.add((kind + d, log, round(float(args['x']), 6)))
                    if r['reproduced']:
                        failures.append({'key': '%s%s log=%s' % (kind, d, log), 'case': {'kind': kind, 'dist': d, 'log': log, 'args': args}, 'observed': r})
                    elif len(samples) < 4:
                        samples.append(r['input'])
    # negative binomial mean/size form against the (n, p) form
    import numpy as np
    import scipy.stats as st
    from contracts import native
    mod = native.imp('pygom.utilR.distn')
    rnd = random.Random(seed + 1)
    for _ in range(n * 3):
        x, k, mu = rnd.randint(0, 12), rnd.uniform(0.3, 6), rnd.uniform(0.2, 9)
        for log in (False, True):
            got = mod.dnbinom(x, size=k, mu=mu, log=log)
            ref = (st.nbinom.logpmf if log else st.nbinom.pmf)(x, n=k, p=k / (k + mu))
            evals += 1
            distinct.add(('dnbinom', log, x, round(k, 6)))
            if not np.isclose(got, ref, rtol=1e-9, atol=1e-12):
                failures.append({'key': 'dnbinom mu-form log=%s' % log, 'case': {'x': x, 'size': k, 'mu': mu, 'log': log}, 'observed': [float(got), float(ref)]})
    for d in c19.GEN:
        for s in ([1, 0, 99] if tier == 'quick' else [0, 1, 2, 7, 99, 12345, 2 ** 31]):
            for nn in (1, 4):
                r = c19._native_seeded('r' + d, s, nn)
                evals += 1
                distinct.add(('r' + d, s, nn))
                if r['reproduced']:
                    failures.append({'key': 'r%s seed=%s n=%s' % (d, s, nn), 'case': r['input'], 'observed': r['observed']})
    return {'evaluations': evals, 'distinct_nontrivial': len(distinct), 'failures': failures, 'samples': samples,
            'rule': 'random valid arguments per family (seeded), every provided d/p/q wrapper in both log forms against scipy.stats; dnbinom mean/size against (n,p); every seeded generator twice per seed; a case is distinct by (function, log, point)',
            'bound': '%d argument sets per wrapper' % n}


def replay(case):
    from contracts import c19
    c = case.get('case', {})
    if 'kind' in c:
        return c19._native_dpq(c['kind'] + c['dist'], c['kind'], c['dist'], c['log'], c['args'], False)
    if 'call' in c:
        return c19._native_seeded(c['call'], c['seed'], c['n'])
    return {'reproduced': False, 'note': 're-run the stand-in'}
