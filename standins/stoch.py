"""Bounded native monitor of stochastic paths, shared by the stand-ins of C04, C05, C10, C11, C15 and
C16 (bounded, never counted as proved).  Random bounded-rate event models with integer magnitudes
and declared limits; raw paths (scalar horizon) and gridded output of the real solve_stochast."""
import numpy as np
from standins import models


def make(rng, transition_only=False, n_states=None, n_events=None, limits='mixed'):
    spec = models.random_spec(rng, n_states=n_states, n_events=n_events, integer_magnitudes=True, bounded=True,
                              transition_only=transition_only)
    nS = len(spec['states'])
    x0 = rng.randint(3, 25, size=nS).astype(float)
    if nS >= 2 and rng.uniform() < 0.4:
        x0[int(rng.randint(nS))] = 0.0        # an empty compartment: events fed by it have rate exactly 0 while others fire
    lims = []          # None = not declared (the model's default (0, None) applies)
    for i in range(nS):
        kind = {'mixed': int(rng.randint(4)), 'none': 0}[limits]
        hi = float(x0[i] + rng.randint(2, 12))
        lo = 1 if x0[i] >= 1 else 0       # the start lies inside the declared limits (the property's premise), also for an empty compartment
        lims.append([None, (0, None), (0, hi), (lo, hi)][kind])
    theta = rng.uniform(0.2, 1.5, size=len(spec['params']))
    if any(t[0] == 'B' for _r, trs in spec['events'] for t in trs):
        # births can grow without bound (a rate proportional to the population it feeds explodes within a short horizon): every
        # state of such a model gets an upper limit, so that the path stops instead of running away
        lims = [(l if (l is not None and l[1] is not None) else ((0 if l is None else l[0]), float(x0[i] + rng.randint(5, 40)))) for i, l in enumerate(lims)]
    return spec, x0, lims, theta


def build(spec, x0, lims, theta, pre_tau=None, epsilon=None):
    from contracts import native
    with native.quiet():
        m = models.build(spec, cls='SimulateOde', limits=lims)
        m.parameters = list(theta)
        m.initial_values = (x0.copy(), np.float64(0.0))
    if pre_tau is not None:
        m.pre_tau = pre_tau
    if epsilon is not None:
        m._epsilon = epsilon
    return m


def effective_limits(lims):
    """the declared pair; an undeclared state has the default lower limit 0 and no upper limit"""
    return [((0, None) if l is None else tuple(l)) for l in lims]


def check_raw_path(m, spec, lims, X, J, T, exact, closed):
    """C04 / C10 / C11 invariants of one raw path"""
    bad = []
    X, J, T = np.asarray(X, float), np.asarray(J, float), np.asarray(T, float)
    nS, nE = len(spec['states']), len(spec['events'])
    if X.ndim != 2 or X.shape[1] != nS or len(T) != len(X) or (len(J) != len(X) - 1):
        return ["shapes: states %s, counts %s, times %s" % (X.shape, J.shape, T.shape)]
    if not np.array_equal(X[0], np.asarray(m._x0, float)) or T[0] != float(m._t0):
        bad.append("path does not start at the initial state/time")
    if np.any(np.diff(T) <= 0):
        bad.append("times are not strictly increasing")
    if len(J):
        if J.ndim != 2 or J.shape[1] != nE:
            return bad + ["counts have shape %s, expected (steps, %d)" % (J.shape, nE)]
        if np.any(J < 0) or np.any(np.mod(J, 1) != 0):
            bad.append("counts are not non-negative integers")
        if exact and np.any(J.sum(axis=1) != 1):
            bad.append("exact mode: a step does not report exactly one event")
    for k in range(len(J)):
        V = np.asarray(m.vMat(X[k], T[k]), float).reshape(nS, nE)
        pure = np.asarray(m.pureOdeVector(X[k], T[k]), float).ravel()
        want = X[k] + V.dot(J[k]) + (0 if exact else pure * (T[k + 1] - T[k]))
        # in tau-leap mode a rejected leap falls back to one first-reaction step, which moves the state by that one event only
        fallback = (not exact) and J[k].sum() == 1 and np.allclose(X[k + 1], X[k] + V.dot(J[k]), rtol=0, atol=1e-9)
        if not fallback and not np.allclose(X[k + 1], want, rtol=0, atol=1e-9):
            bad.append("step %d: state change %s is not V.counts = %s" % (k, (X[k + 1] - X[k]).tolist(), V.dot(J[k]).tolist()))
            break
    for i, (lo, hi) in enumerate(effective_limits(lims)):
        if lo is not None and np.any(X[:, i] < lo - 1e-12):
            bad.append("state %d goes below its lower limit %s (min %s)" % (i, lo, X[:, i].min()))
        if hi is not None and np.any(X[:, i] > hi + 1e-12):
            bad.append("state %d exceeds its upper limit %s (max %s)" % (i, hi, X[:, i].max()))
    if closed and np.any(np.abs(X.sum(axis=1) - X[0].sum()) > 1e-9):
        bad.append("closed model: total population changes along the path (%s -> %s)" % (X[0].sum(), X.sum(axis=1)[-1]))
    return bad


def raw_case(case):
    """one raw-path case: dict(spec, x0, lims, theta, exact, pre_tau, horizon, seed, closed)"""
    from contracts import native
    spec = case['spec']
    x0 = np.asarray(case['x0'], float)
    lims = [(None if l is None else tuple(l)) for l in case['lims']]
    m = build(spec, x0, lims, np.asarray(case['theta'], float), pre_tau=case.get('pre_tau'))
    np.random.seed(case['seed'])
    with native.quiet():
        Xs, Js, Ts = m.solve_stochast(case['horizon'], case.get('runs', 2), exact=case['exact'], full_output=True)
    bad = []
    for X, J, T in zip(Xs, Js, Ts):
        bad += check_raw_path(m, spec, lims, X, J, T, case['exact'], case.get('closed', False))
    # C16: same seed, same output
    np.random.seed(case['seed'])
    with native.quiet():
        Xs2, Js2, Ts2 = m.solve_stochast(case['horizon'], case.get('runs', 2), exact=case['exact'], full_output=True)
    same = len(Xs) == len(Xs2) and all(np.array_equal(a, b) for a, b in zip(Xs, Xs2)) and \
        all(np.array_equal(a, b) for a, b in zip(Ts, Ts2)) and all(np.array_equal(a, b) for a, b in zip(Js, Js2))
    if not same:
        bad.append("same global seed, different paths")
    return bad, sum(len(T) for T in Ts)


def grid_case(case):
    """C15: gridded output of an exact run against its own raw path (re-generated with the same seed)"""
    from contracts import native
    spec = case['spec']
    x0 = np.asarray(case['x0'], float)
    lims = [(None if l is None else tuple(l)) for l in case['lims']]
    m = build(spec, x0, lims, np.asarray(case['theta'], float))
    grid = case['grid']
    if case.get('late_start'):
        grid = grid[1:]            # the first requested time lies strictly after the initial time (events happen before it)
    g = {'list': list(grid), 'tuple': tuple(grid), 'array': np.array(grid, float)}[case.get('grid_type', 'array')]
    nS, nE = len(spec['states']), len(spec['events'])
    runs = case.get('runs', 3)
    np.random.seed(case['seed'])
    with native.quiet():
        XG, JG, Tg = m.solve_stochast(g, runs, exact=True, full_output=True)
    np.random.seed(case['seed'])
    with native.quiet():
        XR, JR, TR = m.solve_stochast(float(grid[-1]), runs, exact=True, full_output=True)
    bad, total = [], 0
    if len(XG) != runs or len(JG) != runs:
        return ["%d gridded runs returned for %d requested" % (len(XG), runs)], 0
    for r in range(runs):
        b, n_ = _grid_one(m, spec, x0, grid, nS, nE, np.asarray(XG[r], float), np.asarray(JG[r], float),
                          np.asarray(XR[r], float), np.asarray(JR[r], float), np.asarray(TR[r], float))
        bad += ["run %d: %s" % (r, x) for x in b]
        total += n_
    return bad, total


def _grid_one(m, spec, x0, grid, nS, nE, Xg, Jg, Xr, Jr, Tr):
    bad = []
    if Xg.shape != (len(grid), nS):
        return ["gridded states have shape %s, expected %s" % (Xg.shape, (len(grid), nS))], 0
    if grid[0] == float(m._t0) and not np.array_equal(Xg[0], x0):
        bad.append("first gridded row is not the initial state")
    for k, tk in enumerate(grid):
        j = np.searchsorted(Tr, tk, side='right') - 1
        if not np.array_equal(Xg[k], Xr[max(j, 0)]):
            bad.append("row %d (t=%s) is %s, the path is at %s" % (k, tk, Xg[k].tolist(), Xr[max(j, 0)].tolist()))
            break
    if Jg.shape != (len(grid) - 1, nE):
        bad.append("gridded counts have shape %s, expected %s" % (Jg.shape, (len(grid) - 1, nE)))
    else:
        ev_t = Tr[1:]
        for k in range(len(grid) - 1):
            last = (k == len(grid) - 2)
            sel = (ev_t >= grid[k]) & ((ev_t <= grid[k + 1]) if last else (ev_t < grid[k + 1]))
            want = Jr[sel].sum(axis=0) if len(Jr) else np.zeros(nE)
            if not np.array_equal(Jg[k], want):
                bad.append("interval %d: counts %s, the path has %s" % (k, Jg[k].tolist(), want.tolist()))
                break
        # constant state-change matrix (integer magnitudes): consecutive rows differ by V.counts
        V = np.asarray(m.vMat(x0, 0.0), float).reshape(nS, nE)
        if not bad and not np.allclose(np.diff(Xg, axis=0), Jg.dot(V.T), atol=1e-9):
            bad.append("consecutive gridded rows do not differ by V.counts")
    return bad, len(Tr)


def corpus(seed, n, closed=False):
    rng = np.random.RandomState(seed)
    out = []
    for k in range(n):
        shape = [(None, None), (1, None), (None, 1), (1, 1), (2, 1)][k % 5]
        nS_ = shape[0] if not closed else (2 if shape[0] in (1, 2) else int(rng.randint(2, 5)))
        spec, x0, lims, theta = make(rng, transition_only=closed, n_states=nS_, n_events=shape[1])
        for exact, pre_tau in ((True, None), (False, None), (False, 0.05)):
            out.append(dict(spec=spec, x0=x0.tolist(), lims=lims, theta=theta.tolist(), exact=exact, pre_tau=pre_tau,
                            horizon=float(rng.uniform(0.5, 3.0) if closed else rng.uniform(0.3, 1.0)), seed=int(rng.randint(1, 2 ** 31 - 1)), closed=closed, runs=2))
    if not closed:
        # a mixed model: explicit ODE drift carries one state down to its lower limit and another up to its upper limit while the
        # events are rare, so most tau-leap steps fire nothing (the drift alone must be checked against the limits)
        r1, r2 = float(rng.uniform(0.02, 0.08)), float(rng.uniform(0.02, 0.08))
        drift = {'states': ['W', 'C'], 'state_decl': ['W', 'C'], 'params': ['p0', 'p1'],
                 'events': [('p0', [('B', 'W', 'W', '2')]), ('p1*C', [('D', 'C', 'C', '3')])],
                 'odes': [('W', '-1'), ('C', '1')], 'derived': []}
        for pre_tau in (0.5, None):
            out.append(dict(spec=drift, x0=[float(rng.randint(2, 4)), float(rng.randint(3, 5))], lims=[(0, None), (0, 6.0)], theta=[r1, r2], exact=False,
                            pre_tau=pre_tau, horizon=float(rng.uniform(4.0, 7.0)), seed=int(rng.randint(1, 2 ** 31 - 1)), closed=False, runs=2))
    return out


def grid_corpus(seed, n):
    rng = np.random.RandomState(seed + 7)
    out = []
    for k in range(n):
        shape = [(None, None), (1, None), (None, 1), (2, 2)][k % 4]
        long_grid = (k % 3 == 0)            # every third grid runs far past extinction / the stop at a limit
        spec, x0, lims, theta = make(rng, n_states=shape[0], n_events=shape[1], limits=('none' if (k % 2 and not long_grid) else 'mixed'))
        if long_grid:
            # births can grow without bound: every state gets an upper limit, so that the path stops instead of exploding
            lims = [(0, float(v + rng.randint(5, 40))) for v in x0]
        horizon = float(rng.uniform(1.0, 4.0)) * (5 if long_grid else 0.4)
        grid = np.concatenate([[0.0], np.sort(rng.uniform(0.01, horizon, size=int(rng.randint(2, 9))))])
        out.append(dict(spec=spec, x0=x0.tolist(), lims=lims, theta=theta.tolist(), grid=[float(v) for v in grid],
                        grid_type=('array', 'list', 'tuple')[k % 3], seed=int(rng.randint(1, 2 ** 31 - 1)), late_start=(k % 4 == 1 and len(grid) >= 4)))
    # a busy path: a large closed epidemic on a coarse grid, hundreds of firings of one transition inside one interval (counts that
    # only fit a wide integer)
    N = int(rng.randint(500, 900))
    busy = {'states': ['S', 'I', 'R'], 'state_decl': ['S', 'I', 'R'], 'params': ['p0', 'p1'],
            'events': [('p0*S*I/%d' % N, [('T', 'S', 'I', '1')]), ('p1*I', [('T', 'I', 'R', '1')])], 'odes': [], 'derived': []}
    out.insert(1, dict(spec=busy, x0=[float(N - 10), 10.0, 0.0], lims=[None, None, None], theta=[float(rng.uniform(0.8, 1.2)), float(rng.uniform(0.2, 0.4))],
                       grid=[0.0, 8.0, 16.0, 40.0], grid_type='array', seed=int(rng.randint(1, 2 ** 31 - 1))))
    return out


def normalise(case):
    spec = case['spec']
    spec['events'] = [(r, [tuple(t) for t in trs]) for r, trs in spec['events']]
    spec['odes'] = [tuple(o) for o in spec['odes']]
    spec['derived'] = [tuple(o) for o in spec['derived']]
    return case


def run_raw(tier, seed, closed=False, label=''):
    n = 5 if tier == 'quick' else 30
    cases = corpus(seed, n, closed)
    evals, failures, samples, distinct = 0, [], [], set()
    for k, case in enumerate(cases):
        try:
            bad, steps = raw_case(case)
        except Exception as e:
            bad, steps = ["raises %s: %s" % (type(e).__name__, e)], 0
        evals += 1
        if steps > 2:
            distinct.add((repr(case['spec']['events']), case['exact'], case['pre_tau']))
        if bad:
            failures.append({'key': 'path case %d' % k, 'case': case, 'observed': bad[:4], 'what': 'raw'})
        elif len(samples) < 2:
            samples.append({'events': case['spec']['events'], 'x0': case['x0'], 'limits': case['lims'], 'exact': case['exact'],
                            'pre_tau': case['pre_tau'], 'horizon': case['horizon'], 'steps recorded': steps})
    return {'evaluations': evals, 'distinct_nontrivial': len(distinct), 'failures': failures, 'samples': samples,
            'rule': 'seeded random bounded-rate %sevent models (1-4 states incl. one state, 1-4 events incl. one event, integer magnitudes 1-3, '
                    'lower/upper/two-sided/absent limits), exact, adaptive tau-leap and fixed tau-leap, 2 runs each; every raw path checked against '
                    'the path invariant (start, increasing times, integer counts, one-hot in exact mode, state change = V.counts, limits%s) and same-seed '
                    'reproducibility; non-trivial = at least two recorded steps; distinct by (events, algorithm)' % ('transition-only ' if closed else '', ', constant total' if closed else ''),
            'bound': '%d models x 3 algorithms x 2 runs' % n}
