"""Bounded stand-in for C06: cost / residual / costIV of the five loss classes against the stated loss
kernel applied to an INDEPENDENT trajectory (scipy odeint at 1e-11 of a hand-written right-hand side).
Bounded, never counted as proved."""
import numpy as np

# ---------------------------------------------------------------------------------------------------
# corpus models: definition for the library and a right-hand side written by hand for the reference
# ---------------------------------------------------------------------------------------------------
MODELS = {
    'SIR': {'states': ['S', 'I', 'R'], 'params': ['beta', 'gamma'],
            'events': [('beta*S*I/60', 'T', 'S', 'I'), ('gamma*I', 'T', 'I', 'R')],
            'x0': [55.0, 5.0, 2.0], 'plo': [0.5, 0.15], 'phi': [1.6, 0.5],
            'obs': [['I'], 'R', ['R', 'I'], ['I', 'R'], ['S', 'I', 'R'], ['R', 'S', 'I']],
            'tp': [None, ['beta'], 'gamma', ['gamma', 'beta'], ['beta', 'gamma']],
            'ts': [['I'], ['R', 'S'], ['S', 'I'], ['R', 'I', 'S']]},
    'SEIR': {'states': ['S', 'E', 'I', 'R'], 'params': ['beta', 'alpha', 'gamma'],
             'events': [('beta*S*I/80', 'T', 'S', 'E'), ('alpha*E', 'T', 'E', 'I'), ('gamma*I', 'T', 'I', 'R')],
             'x0': [70.0, 6.0, 4.0, 2.0], 'plo': [0.6, 0.3, 0.15], 'phi': [1.8, 0.9, 0.5],
             'obs': [['I'], ['R', 'E'], ['E', 'I', 'R'], ['I', 'S', 'R'], 'E', ['I', 'E']],
             'tp': [None, ['gamma', 'beta'], ['alpha'], ['gamma', 'alpha', 'beta'], ['beta', 'gamma'], ['gamma', 'alpha']],
             'ts': [['I', 'E'], ['E'], ['R', 'S', 'I'], ['I']]},
    'decay': {'states': ['x'], 'params': ['r'],
              'events': [('r*x', 'D', 'x', None)],
              'x0': [40.0], 'plo': [0.1], 'phi': [0.6],
              'obs': ['x', ['x']], 'tp': [None, ['r'], 'r'], 'ts': [['x']]},
    'BD': {'states': ['A', 'B'], 'params': ['b', 'm', 'd'],
           'events': [('b*A', 'B', None, 'A'), ('m*A', 'T', 'A', 'B'), ('d*B', 'D', 'B', None)],
           'x0': [30.0, 8.0], 'plo': [0.1, 0.2, 0.1], 'phi': [0.4, 0.7, 0.5],
           'obs': [['B'], ['B', 'A'], ['A', 'B'], 'A'],
           'tp': [None, ['d', 'b'], ['m'], ['d', 'm', 'b'], ['m', 'b']],
           'ts': [['B', 'A'], ['A'], ['B']]},
}
LOSSES = ('Square', 'Normal', 'Poisson', 'Gamma', 'NegBinom')
SPREAD_ARG = {'Normal': 'sigma', 'Gamma': 'shape', 'NegBinom': 'k'}
SPREAD_DEFAULT = {'Normal': 1.0, 'Gamma': 2.0, 'NegBinom': 1.0}
RTOL = 1e-6


def rhs(name, th):
    if name == 'SIR':
        b, g = th
        return lambda y, t: [-b * y[0] * y[1] / 60.0, b * y[0] * y[1] / 60.0 - g * y[1], g * y[1]]
    if name == 'SEIR':
        b, a, g = th
        return lambda y, t: [-b * y[0] * y[2] / 80.0, b * y[0] * y[2] / 80.0 - a * y[1], a * y[1] - g * y[2], g * y[2]]
    if name == 'decay':
        r, = th
        return lambda y, t: [-r * y[0]]
    if name == 'BD':
        b, m, d = th
        return lambda y, t: [b * y[0] - m * y[0], m * y[0] - d * y[1]]
    raise KeyError(name)


def trajectory(name, theta, x0, t0, grid):
    """independent reference: all states at the observation times (row i <-> grid[i])"""
    import scipy.integrate
    tt = np.append(float(t0), np.asarray(grid, float))
    return scipy.integrate.odeint(rhs(name, [float(v) for v in theta]), np.asarray(x0, float), tt,
                                  rtol=1e-11, atol=1e-11, mxstep=20000)[1:]


def as_list(v):
    return [v] if isinstance(v, str) else list(v)


def observed(name, traj, obs):
    ix = [MODELS[name]['states'].index(s) for s in as_list(obs)]
    out = traj[:, ix]
    return out[:, 0] if len(ix) == 1 else out


def expand(v, like):
    """broadcast a scalar / per-state / per-observation / full value to the shape of the data"""
    if v is None:
        return np.ones(like.shape)
    a = np.asarray(v, float)
    if a.ndim == 0:
        return np.ones(like.shape) * float(a)
    if like.ndim == 1:
        return a.reshape(like.shape) if a.size == like.size else np.ones(like.shape) * float(a.ravel()[0])
    if a.ndim == 1:
        return np.ones(like.shape) * a.reshape(1, -1)      # one entry per observed state (column)
    return a.reshape(like.shape)


def kernel(loss, y, yh, w, spread):
    import scipy.stats as st
    w = expand(w, y)
    s = expand(SPREAD_DEFAULT.get(loss) if spread is None else spread, y)
    if loss == 'Square':
        return float(np.sum((w * (y - yh)) ** 2))
    if loss == 'Normal':
        return float(-np.sum(st.norm.logpdf(w * (y - yh), loc=0.0, scale=s)))
    if loss == 'Poisson':
        return float(-np.sum(st.poisson.logpmf(y, yh)))
    if loss == 'Gamma':
        return float(-np.sum(st.gamma.logpdf(y, a=s, scale=yh / s)))
    if loss == 'NegBinom':
        return float(-np.sum(st.nbinom.logpmf(y, n=s, p=s / (s + yh))))
    raise KeyError(loss)


_CACHE = {}


def build(name):
    """the library's model for a corpus entry, on the fast (lambda) back end; cached per tree under test"""
    from contracts import native
    key = (native.root(), name)
    if key in _CACHE:
        return _CACHE[key]
    pm = native.imp('pygom.model')
    ou = native.imp('pygom.model.ode_utils')
    d = MODELS[name]
    evs = []
    for rate, ty, o, dest in d['events']:
        if ty == 'T':
            tr = pm.Transition(origin=o, destination=dest, transition_type='T')
        elif ty == 'B':
            tr = pm.Transition(destination=dest, transition_type='B')
        else:
            tr = pm.Transition(origin=o, transition_type='D')
        evs.append(pm.Event(rate=rate, transition_list=[tr]))
    with native.quiet():
        m = pm.SimulateOde(list(d['states']), list(d['params']), event=evs)
        m._SC = ou.compileCode(backend='lambda')
    _CACHE[key] = m
    return m


def make_loss(case):
    """construct the library's loss object for a case (model parameters set to theta_model first)"""
    from contracts import native
    pl = native.imp('pygom.loss')
    name = case['model']
    d = MODELS[name]
    m = build(name)
    theta_model = [float(v) for v in case['theta_model']]
    tp = case.get('target_param')
    ctor_theta = theta_model if tp is None else [theta_model[d['params'].index(p)] for p in as_list(tp)]
    kw = {}
    if case.get('weights') is not None:
        kw['state_weight'] = case['weights']
    if case['loss'] in SPREAD_ARG and case.get('spread') is not None:
        kw[SPREAD_ARG[case['loss']]] = case['spread']
    if tp is not None:
        kw['target_param'] = tp
    ts = case.get('target_state')
    if ts is not None:
        kw['target_state'] = ts
    y = np.asarray(case['y'], float)
    with native.quiet():
        m.parameters = list(theta_model)
        obj = getattr(pl, case['loss'] + 'Loss')(ctor_theta, m, list(case['x0']), float(case['t0']),
                                                 np.asarray(case['grid'], float), y, case['obs'], **kw)
    return obj


def full_theta(case, sub):
    """full parameter vector: theta_model with the target entries replaced by `sub` (in the SUPPLIED order)"""
    d = MODELS[case['model']]
    tp = case.get('target_param')
    if tp is None:
        return [float(v) for v in sub]
    full = [float(v) for v in case['theta_model']]
    for name, v in zip(as_list(tp), sub):
        full[d['params'].index(name)] = float(v)
    return full


def full_x0(case, sub):
    d = MODELS[case['model']]
    ts = case.get('target_state')
    if ts is None:
        return [float(v) for v in sub]
    full = [float(v) for v in case['x0']]
    for name, v in zip(as_list(ts), sub):
        full[d['states'].index(name)] = float(v)
    return full


def close(got, want, scale):
    return abs(got - want) <= RTOL * max(abs(want), scale) + 1e-9


def check_case(case):
    """returns (observations of violations, info) for one case"""
    from contracts import native
    name, loss = case['model'], case['loss']
    y = np.asarray(case['y'], float)
    w, spread = case.get('weights'), case.get('spread')
    grid, t0 = case['grid'], case['t0']
    bad, info = [], {}
    obj = make_loss(case)

    # cost and residual at theta_eval (target entries in the supplied order)
    th = full_theta(case, case['theta_eval'])
    yh = observed(name, trajectory(name, th, case['x0'], t0, grid), case['obs'])
    want = kernel(loss, y, yh, w, spread)
    scale = float(np.sum(np.abs(y))) if loss != 'Square' else float(np.sum((expand(w, y) * y) ** 2)) * 1e-3
    info['ref_cost'] = want
    info['ref_cost_at_model'] = kernel(loss, y, observed(name, trajectory(name, case['theta_model'], case['x0'], t0, grid), case['obs']), w, spread)
    with native.quiet():
        got = float(obj.cost(np.array(case['theta_eval'], float)))
    if not (np.isfinite(got) and close(got, want, scale)):
        bad.append("cost(theta=%s) = %.12g but %s kernel on the independent trajectory gives %.12g (rel. diff %.3g)"
                   % (case['theta_eval'], got, loss, want, abs(got - want) / max(abs(want), 1e-300)))
    with native.quiet():
        res = np.asarray(obj.residual(np.array(case['theta_eval'], float)), float)
    rwant = expand(w, y) * (y - yh)
    if res.shape != rwant.shape:
        bad.append("residual has shape %s, expected %s" % (res.shape, rwant.shape))
    elif not np.allclose(res, rwant, rtol=0, atol=RTOL * max(1.0, float(np.max(np.abs(y))))):
        bad.append("residual(theta) differs from w*(y - Yhat) by up to %.3g (rows x columns = times x named states)"
                   % float(np.max(np.abs(res - rwant))))

    # noise-free square loss at the generating parameters
    if case.get('noise_free') and loss == 'Square':
        with native.quiet():
            c0 = float(obj.cost(np.array(case['theta_gen'], float)))
        ref0 = float(np.sum((expand(w, y) * y) ** 2))
        info['zero_rel'] = c0 / ref0
        if not (c0 <= 1e-10 * ref0):
            bad.append("square-loss cost at the data-generating parameters with noise-free data is %.3g (relative %.3g), expected ~0"
                       % (c0, c0 / ref0))

    # costIV: trailing entries are initial values (all states, or target_state in the order given)
    if case.get('iv') is not None:
        iv = case['iv']
        th2 = full_theta(case, iv['theta'])
        x2 = full_x0(case, iv['x0'])
        yh2 = observed(name, trajectory(name, th2, x2, t0, grid), case['obs'])
        want2 = kernel(loss, y, yh2, w, spread)
        arg = np.array(list(iv['theta']) + list(iv['x0']), float)
        with native.quiet():
            got2 = float(obj.costIV(arg))
        if not (np.isfinite(got2) and close(got2, want2, scale)):
            bad.append("costIV(%s) = %.12g but the kernel on the independent trajectory from x0=%s, theta=%s gives %.12g (rel. diff %.3g)"
                       % (arg.tolist(), got2, x2, th2, want2, abs(got2 - want2) / max(abs(want2), 1e-300)))
        info['ref_costIV'] = want2
    return bad, info


# ---------------------------------------------------------------------------------------------------
# case generation
# ---------------------------------------------------------------------------------------------------
def draw_theta(rng, name):
    d = MODELS[name]
    return [float(rng.uniform(lo, hi)) for lo, hi in zip(d['plo'], d['phi'])]


def make_value(rng, kind, n, p, lo, hi):
    """weights / spread value of a given kind: scalar, per observed state, per observation"""
    if kind is None or kind == 'default':
        return None
    if kind == 'scalar':
        return float(rng.uniform(lo, hi))
    if kind == 'state':
        return [float(v) for v in rng.uniform(lo, hi, size=p)] if p > 1 else float(rng.uniform(lo, hi))
    a = rng.uniform(lo, hi, size=(n, p))
    return a.tolist() if p > 1 else a[:, 0].tolist()


def make_case(rng, name, loss, obs, wkind, skind, tp, ivkind, noise_free=False, t0=None, n=None):
    d = MODELS[name]
    p = len(as_list(obs))
    n = int(n or rng.randint(5, 10))
    t0 = float(rng.choice([0.0, 0.4])) if t0 is None else float(t0)
    grid = (t0 + np.cumsum(rng.uniform(0.15, 1.5, size=n))).tolist()     # non-uniform
    x0 = [float(v * rng.uniform(0.7, 1.3)) for v in d['x0']]
    theta_model = draw_theta(rng, name)
    tpl = d['params'] if tp is None else as_list(tp)
    sub = lambda full: [full[d['params'].index(q)] for q in tpl]
    # generating / evaluation points: the non-target entries stay at the model's values
    gen_full = full_theta({'model': name, 'target_param': tp, 'theta_model': theta_model}, sub(draw_theta(rng, name)))
    eval_sub = sub(draw_theta(rng, name))
    mean = observed(name, trajectory(name, gen_full, x0, t0, grid), obs)
    if loss in ('Poisson', 'NegBinom'):
        y = rng.poisson(mean).astype(float)
    elif noise_free:
        y = mean.copy()
    else:
        y = mean * rng.uniform(0.8, 1.25, size=mean.shape)
    if loss not in ('Square', 'Normal'):
        wkind = None
    weights = make_value(rng, wkind, n, p, 0.3, 2.5)
    spread = None
    if loss in SPREAD_ARG:
        lo, hi = {'Normal': (0.5, 4.0), 'Gamma': (2.5, 9.0), 'NegBinom': (1.5, 12.0)}[loss]
        spread = make_value(rng, skind or 'scalar', n, p, lo, hi)
    case = {'model': name, 'loss': loss, 'obs': obs, 'x0': x0, 't0': t0, 'grid': grid, 'y': y.tolist(),
            'weights': weights, 'wkind': wkind, 'spread': spread, 'skind': (skind or 'scalar') if loss in SPREAD_ARG else None,
            'target_param': tp, 'target_state': None, 'theta_model': theta_model, 'theta_gen': sub(gen_full),
            'theta_eval': eval_sub, 'noise_free': bool(noise_free and loss == 'Square'), 'iv': None}
    if ivkind is not None:
        ts = None if ivkind == 'all' else list(ivkind)
        # the library reads "num_state + len(target_param) == num_param" entries as "parameters only": name the states then
        if ts is None and tp is not None and len(d['states']) + len(tpl) == len(d['params']):
            ts = list(d['states'])
        case['target_state'] = ts
        names = d['states'] if ts is None else ts
        case['iv'] = {'theta': sub(draw_theta(rng, name)),
                      'x0': [float(d['x0'][d['states'].index(s)] * rng.uniform(0.6, 1.4)) for s in names]}
    return case


CORE = [
    # model, loss, observed states, weights, spread, target_param, costIV
    ('SIR', 'Square', ['R', 'I'], 'state', None, None, None, True),
    ('SIR', 'Square', ['I'], 'obs', None, ['gamma', 'beta'], 'all', False),
    ('SIR', 'Normal', ['I', 'R'], 'scalar', 'scalar', None, None, False),
    ('SIR', 'Normal', ['R', 'S', 'I'], 'obs', 'state', 'gamma', ['R', 'S'], False),
    ('SIR', 'Poisson', 'R', None, None, ['gamma', 'beta'], ['I'], False),
    ('SIR', 'Gamma', ['R', 'I'], None, 'scalar', None, 'all', False),
    ('SIR', 'NegBinom', ['I'], None, 'scalar', ['beta'], None, False),
    ('SEIR', 'Square', ['R', 'E'], 'scalar', None, ['gamma', 'beta'], ['I', 'E'], False),
    ('SEIR', 'Normal', ['I'], None, 'obs', ['gamma', 'alpha', 'beta'], 'all', False),
    ('SEIR', 'Gamma', ['E', 'I', 'R'], None, 'state', ['alpha'], None, False),
    ('SEIR', 'Poisson', ['I', 'S', 'R'], None, None, None, 'all', False),
    ('SEIR', 'NegBinom', ['R', 'E'], None, 'state', None, ['E'], False),
    ('decay', 'Square', 'x', 'obs', None, None, 'all', True),
    ('decay', 'Normal', ['x'], 'scalar', 'scalar', 'r', ['x'], False),
    ('decay', 'Gamma', 'x', None, 'obs', None, None, False),
    ('decay', 'Poisson', ['x'], None, None, ['r'], 'all', False),
    ('BD', 'Square', ['B', 'A'], 'state', None, ['d', 'b'], ['B', 'A'], False),
    ('BD', 'Normal', ['A', 'B'], 'obs', 'obs', ['d', 'm', 'b'], None, False),
    ('BD', 'NegBinom', ['B'], None, 'default', ['m'], 'all', False),
    ('BD', 'Gamma', ['B', 'A'], None, 'default', None, ['A'], False),
]


def cases(tier, seed):
    rng = np.random.RandomState(seed)
    out = [make_case(rng, *c[:7], noise_free=c[7]) for c in CORE]
    names = list(MODELS)
    pick = lambda seq: seq[int(rng.randint(len(seq)))]
    for k in range(60 if tier == 'quick' else 1500):
        name = names[k % len(names)]
        d = MODELS[name]
        loss = LOSSES[(k // len(names)) % len(LOSSES)]
        iv = pick([None, None, 'all'] + d['ts'])
        out.append(make_case(rng, name, loss, pick(d['obs']), pick([None, 'scalar', 'state', 'obs']),
                             pick(['default', 'scalar', 'state', 'obs']), pick(d['tp']), iv,
                             noise_free=bool(rng.randint(2))))
    return out


def signature(c):
    return repr((c['model'], c['loss'], c['obs'], c['wkind'], c['skind'], c['target_param'], c['target_state'],
                 c['iv'] is not None, c['noise_free'], len(c['grid']), round(c['t0'], 3), [round(v, 6) for v in c['theta_eval']]))


def run(tier='quick', seed=0):
    evals, failures, samples, distinct = 0, [], [], set()
    for c in cases(tier, seed):
        try:
            bad, info = check_case(c)
        except Exception as e:
            bad, info = ["raises %s: %s" % (type(e).__name__, e)], {}
        evals += 1
        # non-trivial: the stated loss really depends on the evaluation point (reference cost at theta_eval differs
        # from the reference cost at the parameters the model held)
        a, b = info.get('ref_cost'), info.get('ref_cost_at_model')
        if a is not None and abs(a - b) > 1e-4 * max(abs(a), abs(b), 1e-12):
            distinct.add(signature(c))
        if bad:
            failures.append({'key': '%s %sLoss obs=%s target_param=%s target_state=%s' % (c['model'], c['loss'], c['obs'], c['target_param'], c['target_state']),
                             'case': c, 'observed': bad[:4]})
        elif len(samples) < 2:
            samples.append(c)
    return {'evaluations': evals, 'distinct_nontrivial': len(distinct), 'failures': failures, 'samples': samples,
            'rule': 'four corpus models (SIR, 4-state SEIR, one-state decay, 2-state birth-death) x five loss classes; non-uniform observation grids '
                    '(5-9 times, t0 in {0, 0.4}); 1-3 observed states in declaration and non-declaration order (string or list); scalar / per-state / '
                    'per-observation weights (Square, Normal) and spread parameters (default, scalar, per-state, per-observation); target_param None / subsets / '
                    'permutations; costIV with all states or target_state in any order.  cost, residual and costIV are compared at 1e-6 relative with the loss '
                    'kernel (scipy.stats) applied to an odeint(1e-11) trajectory of a hand-written right-hand side; noise-free square loss at the generating '
                    'parameters must be < 1e-10 relative.  Non-trivial: the reference cost at the evaluation point differs (>1e-4 rel.) from the one at the '
                    'parameters the model held; distinct by configuration and evaluation point.',
            'bound': '%d fixed core configurations + %d seeded random configurations' % (len(CORE), evals - len(CORE))}


def replay(c):
    case = c['case']
    try:
        bad, _ = check_case(case)
    except Exception as e:
        bad = ["raises %s: %s" % (type(e).__name__, e)]
    return {'reproduced': bool(bad), 'observed': bad[:4], 'input': case}
