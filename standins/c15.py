"""Bounded stand-in for C15: gridded output of seeded exact runs against their own raw paths (re-generated with the
same seed): row k = state of the path at t_k, first row = initial state, per-interval per-transition counts, consecutive
rows differ by V.counts; grids past extinction; list / tuple / array grids.  Bounded, never counted as proved."""
from standins import stoch


def run(tier='quick', seed=0):
    n = 10 if tier == 'quick' else 60
    evals, failures, samples, distinct = 0, [], [], set()
    for k, case in enumerate(stoch.grid_corpus(seed, n)):
        try:
            bad, steps = stoch.grid_case(case)
        except Exception as e:
            bad, steps = ["raises %s: %s" % (type(e).__name__, e)], 0
        evals += 1
        if steps > 2:
            distinct.add((repr(case['spec']['events']), case['grid_type'], len(case['grid'])))
        if bad:
            failures.append({'key': 'grid case %d' % k, 'case': case, 'observed': bad[:4]})
        elif len(samples) < 2:
            samples.append({'events': case['spec']['events'], 'grid': case['grid'], 'grid_type': case['grid_type'], 'raw path length': steps})
    return {'evaluations': evals, 'distinct_nontrivial': len(distinct), 'failures': failures, 'samples': samples,
            'rule': 'seeded random bounded-rate event models (one state / one event shapes included), exact runs on random non-uniform grids starting at t0 (a third of '
                    'them five times longer, running past extinction or a limit stop), grid given as array, list or tuple; the gridded states and counts are compared '
                    'with the raw path of the same seed; non-trivial = raw path with more than two records; distinct by (events, grid type, grid length)',
            'bound': '%d models x 1 grid x 1 run' % n}


def replay(c):
    bad, _ = stoch.grid_case(stoch.normalise(c['case']))
    return {'reproduced': bool(bad), 'observed': bad[:4], 'input': c['case']}
