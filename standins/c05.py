"""Bounded stand-in for C05: exact simulation against laws known in closed form, judged by exact
acceptance regions with false-alarm probability below 1e-8 per run (bounded, never counted as proved).

 (a) linear death chain  A -> (gone) at rate lam per individual, N individuals: the number alive at time t
     over R runs is Binomial(R*N, exp(-lam*t));
 (b) the first waiting time from n individuals is Exponential(total rate), so the sum over R runs is
     Gamma(R, scale = 1/total rate);
 (c) two competing events with rates r1 : r2 -- the first event is event 1 with probability r1/(r1+r2);
 (d) the occupancy law of (a) read off the gridded output solve_stochast(grid, R, exact=True), also long after absorption."""
import numpy as np

ALPHA = 1e-10     # per test; at most 7 tests per parameter set, 2 (quick) or 8 (thorough) sets: below 1e-8 per run of the check


def _model(r1, r2, n):
    from contracts import native
    pm = native.imp('pygom.model')
    with native.quiet():
        m = pm.SimulateOde(['A', 'B', 'C'], ['r1', 'r2'],
                           event=[pm.Event(rate='r1*A', transition_list=[pm.Transition(origin='A', destination='B', transition_type='T')]),
                                  pm.Event(rate='r2*A', transition_list=[pm.Transition(origin='A', destination='C', transition_type='T')])])
        m._SC = native.imp('pygom.model.ode_utils').compileCode(backend='lambda')
        m.parameters = [r1, r2]
        m.initial_values = (np.array([float(n), 0.0, 0.0]), np.float64(0.0))
    return m


def case(c):
    import scipy.stats as st
    from contracts import native
    r1, r2, n, t, R, seed = c['r1'], c['r2'], c['n'], c['t'], c['runs'], c['seed']
    m = _model(r1, r2, n)
    np.random.seed(seed)
    with native.quiet():
        Xs, Js, Ts = m.solve_stochast(t, R, exact=True, full_output=True)
    bad = []
    # the recorded path runs until the first event past the horizon: the state AT t is the last record with time <= t
    alive = sum(int(np.asarray(X)[np.searchsorted(np.asarray(T, float), t, side='right') - 1][0]) for X, T in zip(Xs, Ts))
    p = float(np.exp(-(r1 + r2) * t))
    lo, hi = st.binom.ppf(ALPHA / 2, R * n, p), st.binom.ppf(1 - ALPHA / 2, R * n, p)
    if not (lo <= alive <= hi):
        bad.append("alive at t=%s over %d runs: %d, exact acceptance region [%d, %d] of Binomial(%d, %.4f)" % (t, R, alive, lo, hi, R * n, p))
    firsts = [float(np.asarray(T)[1]) for T in Ts if len(T) > 1]
    if len(firsts) == R:
        tot = (r1 + r2) * n
        glo, ghi = st.gamma.ppf(ALPHA / 2, a=R, scale=1.0 / tot), st.gamma.ppf(1 - ALPHA / 2, a=R, scale=1.0 / tot)
        if not (glo <= sum(firsts) <= ghi):
            bad.append("sum of first waiting times %.4f outside [%.4f, %.4f] of Gamma(%d, scale 1/%.3f)" % (sum(firsts), glo, ghi, R, tot))
        first_is_1 = sum(1 for J in Js if np.asarray(J)[0][0] == 1)
        q = r1 / (r1 + r2)
        blo, bhi = st.binom.ppf(ALPHA / 2, R, q), st.binom.ppf(1 - ALPHA / 2, R, q)
        if not (blo <= first_is_1 <= bhi):
            bad.append("first event is event 1 in %d of %d runs, acceptance region [%d, %d] of Binomial(%d, %.3f)" % (first_is_1, R, blo, bhi, R, q))
    # (d) the same law read off the gridded output of solve_stochast(grid, R, exact=True): occupancy at every grid time, also long
    # after the chain has been absorbed (every rate zero before the horizon)
    grid = np.array([0.0, 0.5 * t, t, 3.0 * t, 12.0 / (r1 + r2)])
    np.random.seed(seed + 1)
    with native.quiet():
        Xg = m.solve_stochast(grid, R, exact=True)
    Xg = Xg[0] if isinstance(Xg, tuple) else Xg
    for gi in range(1, len(grid)):
        alive_g = sum(int(round(float(np.asarray(X)[gi][0]))) for X in Xg)
        pg = float(np.exp(-(r1 + r2) * grid[gi]))
        lo, hi = st.binom.ppf(ALPHA / 2, R * n, pg), st.binom.ppf(1 - ALPHA / 2, R * n, pg)
        if not (lo <= alive_g <= hi):
            bad.append("gridded output: alive at grid time %.3f over %d runs: %d, exact acceptance region [%d, %d] of Binomial(%d, %.4g)" % (grid[gi], R, alive_g, lo, hi, R * n, pg))
    return bad, 2 * R


def cases(tier, seed):
    rng = np.random.RandomState(seed + 5)
    out = []
    for k in range(2 if tier == 'quick' else 8):
        r1 = float(rng.uniform(0.5, 2.0))
        out.append(dict(r1=r1, r2=float(r1 * rng.uniform(0.2, 0.5)), n=int(rng.randint(8, 16)), t=float(rng.uniform(0.2, 0.6)),
                        runs=300 if tier == 'quick' else 1500, seed=int(rng.randint(1, 2 ** 31 - 1))))
    return out


def run(tier='quick', seed=0):
    evals, failures, samples = 0, [], []
    cs = cases(tier, seed)
    for k, c in enumerate(cs):
        try:
            bad, R = case(c)
        except Exception as e:
            bad, R = ["raises %s: %s" % (type(e).__name__, e)], 0
        evals += R
        if bad:
            failures.append({'key': 'law case %d' % k, 'case': c, 'observed': bad})
        else:
            samples.append(c)
    return {'evaluations': evals, 'distinct_nontrivial': len(cs), 'failures': failures, 'samples': samples[:2],
            'rule': 'exact simulation of a two-event linear death chain; occupancy at t (binomial), sum of first waiting times (gamma) and identity of the '
                    'first event (binomial) against exact acceptance regions with alpha = 1e-9 per test; distinct = parameter sets, evaluations = simulated runs',
            'bound': '%d parameter sets x %d runs' % (len(cs), cs[0]['runs'])}


def replay(c):
    bad, _ = case(c['case'])
    return {'reproduced': bool(bad), 'observed': bad, 'input': c['case']}
