"""Bounded stand-in for C17: after any ABC run (rejection, SMC with a tolerance list or a quantile schedule,
nearest-neighbour kernels, continued runs) every kept particle lies in the prior support, its stored distance is the
cost of that particle (recomputed independently with scipy.integrate.odeint) and is below the tolerance of the
generation that produced it, its weight is positive and finite, and quantile-scheduled tolerances never increase.
Bounded, never counted as proved."""
import logging
import numpy as np

STATES = ['S', 'I', 'R']
PARAMS = ['beta', 'gamma']
TRIALS_PER_PARTICLE = 60       # deterministic trial budget per particle and generation (clean runs need 1-6)


class _Budget(Exception):
    pass


# ----------------------------------------------------------------------------------------------------------------------
# independent reference: SIR flow by odeint, the two losses, the prior densities
def ref_solution(beta, gamma, x0, t0, t):
    import scipy.integrate
    f = lambda y, s: [-beta * y[0] * y[1], beta * y[0] * y[1] - gamma * y[1], gamma * y[1]]
    with np.errstate(all='ignore'):
        return scipy.integrate.odeint(f, list(x0), np.append(float(t0), np.asarray(t, float)), rtol=1e-11, atol=1e-11)[1:]


def model_input(case, natural):
    """natural: {name: value on the natural scale} of the inferred quantities -> (beta, gamma, x0) the way ABC sets them."""
    th = dict(case['fixed'])
    x0 = np.array(case['x0'], float)
    for k, v in natural.items():
        if k in PARAMS:
            th[k] = float(v)
        else:
            x0[STATES.index(k)] = float(v)
    if case.get('constraint'):
        pop, name = case['constraint']
        j = STATES.index(name)
        x0[j] = pop - sum(x0[i] for i in range(3) if i != j)
    return th['beta'], th['gamma'], x0


def ref_cost(case, natural):
    import scipy.stats as st
    beta, gamma, x0 = model_input(case, natural)
    sol = ref_solution(beta, gamma, x0, case['t0'], case['t'])
    yhat = sol[:, [STATES.index(s) for s in case['observed']]]
    y = np.array(case['y'], float).reshape(yhat.shape)
    terms = (y - yhat) ** 2 if case['loss'] == 'SquareLoss' else -st.norm.logpdf(y, loc=yhat, scale=case['sigma'])
    return float(terms.sum()), float(np.abs(terms).sum())      # the cost and the size of its terms (error scale)


def prior_pdf(dist, dp, x):
    import scipy.stats as st
    if dist == 'unif':
        return float(st.uniform.pdf(x, loc=dp[0], scale=dp[1] - dp[0]))
    if dist == 'gamma':
        return float(st.gamma.pdf(x, a=dp[0], scale=1.0 / dp[1]))
    if dist == 'norm':
        return float(st.norm.pdf(x, loc=dp[0], scale=dp[1]))
    if dist == 'beta':
        return float(st.beta.pdf(x, dp[0], dp[1]))
    raise ValueError(dist)


def prior_draw(rng, dist, dp):
    if dist == 'unif':
        return rng.uniform(dp[0], dp[1])
    if dist == 'gamma':
        return rng.gamma(dp[0], 1.0 / dp[1])
    if dist == 'norm':
        return rng.normal(dp[0], dp[1])
    return rng.beta(dp[0], dp[1])


def natural_of(case, row):
    """particle row (ordered as the Parameter list, log10 scale where flagged) -> {name: natural value}"""
    return {p[0]: (10.0 ** float(v) if p[3] else float(v)) for p, v in zip(case['params'], row)}


# ----------------------------------------------------------------------------------------------------------------------
# the library side
def build(case):
    from contracts import native
    pm = native.imp('pygom.model')
    ou = native.imp('pygom.model.ode_utils')
    ab = native.imp('pygom.approximate_bayesian_computation')
    with native.quiet():
        m = pm.SimulateOde(STATES, PARAMS,
                           event=[pm.Event(rate='beta*S*I', transition_list=[pm.Transition(origin='S', destination='I', transition_type='T')]),
                                  pm.Event(rate='gamma*I', transition_list=[pm.Transition(origin='I', destination='R', transition_type='T')])])
        m._SC = ou.compileCode(backend='lambda')
        m.parameters = [case['fixed']['beta'], case['fixed']['gamma']]
        pars = [ab.Parameter(p[0], p[1], *p[2], logscale=bool(p[3])) for p in case['params']]
        y = np.array(case['y'], float)
        obj = ab.create_loss(case['loss'], pars, m, list(case['x0']), case['t0'], np.array(case['t'], float), y,
                             list(case['observed']), sigma=case.get('sigma'))
        con = tuple(case['constraint']) if case.get('constraint') else None
        abc = ab.ABC(obj, pars, constraint=con)
    return abc, pars


def _tol_value(spec, abc):
    if isinstance(spec, (list, tuple)):
        return [float(v) for v in spec]
    if spec == 'inf':
        return np.inf
    if spec == 'next':
        return float(abc.next_tol)
    return float(spec)


def check_generation(case, gen, bad, stats):
    """gen: {'label', 'tol', 'res', 'dist', 'w', 'first'} -- one completed generation"""
    res, dist, w, tol = gen['res'], gen['dist'], gen['w'], gen['tol']
    lab = gen['label']
    for i in range(len(dist)):
        row = np.atleast_1d(res[i])
        dens = [prior_pdf(p[1], p[2], float(v)) for p, v in zip(case['params'], row)]
        out = [p[0] for p, d in zip(case['params'], dens) if not d > 0]
        if out:
            bad.append("%s particle %d: %s = %s has zero prior density (%s)" %
                       (lab, i, out, [float(v) for v in row], [[p[1]] + list(p[2]) for p in case['params'] if p[0] in out]))
        if not (np.isfinite(w[i]) and w[i] > 0):
            bad.append("%s particle %d: weight %r is not positive and finite" % (lab, i, float(w[i])))
        elif gen['first'] and not out and abs(w[i] - np.prod(dens)) > 1e-9 * np.prod(dens):
            bad.append("%s particle %d: first-generation weight %r is not the prior density %r" % (lab, i, float(w[i]), float(np.prod(dens))))
        if not dist[i] < tol:
            bad.append("%s particle %d: stored distance %r is not below the generation's tolerance %r" % (lab, i, float(dist[i]), float(tol)))
        c, scale = ref_cost(case, natural_of(case, row))
        stats['particles'] += 1
        if np.isfinite(c):
            err = abs(dist[i] - c)
            stats['max_rel'] = max(stats['max_rel'], float(err / (1e-5 * scale + 1e-6)))
            if not err <= 1e-5 * scale + 1e-6:
                bad.append("%s particle %d: stored distance %r but the cost recomputed at the stored particle %s is %r" %
                           (lab, i, float(dist[i]), [float(v) for v in row], c))
        elif np.isfinite(dist[i]) and np.isfinite(tol):
            bad.append("%s particle %d: stored distance %r but the recomputed cost is %r" % (lab, i, float(dist[i]), c))


def run_case(case):
    """-> (observations, info).  Runs the calls of the case on a fresh ABC object and checks every completed generation."""
    from contracts import native
    bad, stats = [], {'particles': 0, 'max_rel': 0.0, 'generations': 0, 'rejecting': 0, 'finite': 0, 'skipped': None}
    abc, pars = build(case)
    state = {'pending': None, 'gens': [], 'pre': [], 'trials': 0, 'limit': 0, 'call': 0, 'q': None}

    orig_tol = abc.get_tolerance

    def snap(label_tol):
        return {'tol': label_tol[1], 'label': label_tol[0], 'first': label_tol[2],
                'res': np.array(abc.res, float).copy(), 'dist': np.array(abc.dist, float).copy(), 'w': np.array(abc.w, float).copy()}

    def get_tolerance(g):
        if state['pending'] is not None:
            state['gens'].append(snap(state['pending']))
        pre = np.array(abc.dist, float).copy()
        t = orig_tol(g)
        state['pre'].append((state['call'], g, pre, t))
        state['pending'] = ('call %d generation %d' % (state['call'], g), t, state['call'] == 0 and g == 0)
        return t
    abc.get_tolerance = get_tolerance

    d0 = pars[0].density

    def density(x):
        state['trials'] += 1
        if state['trials'] > state['limit']:
            raise _Budget()
        return d0(x)
    pars[0].density = density

    np.random.seed(int(case['np_seed']) % (2 ** 32))
    all_tols = []          # (call, g, tolerance, scheduled_by_quantile)
    prev_final = None
    lvl = logging.root.manager.disable
    logging.disable(logging.WARNING)
    try:
        for k, call in enumerate(case['calls']):
            state['call'], state['pending'], state['trials'] = k, None, 0
            N, G, q, M = int(call['N']), int(call['G']), call.get('q'), call.get('M')
            state['limit'] = TRIALS_PER_PARTICLE * N * G
            tol = _tol_value(call['tol'], abc)
            try:
                with native.quiet(), np.errstate(all='ignore'):
                    if call['kind'] == 'get':
                        abc.get_posterior_sample(N=N, tol=tol, G=G, q=q, M=M)
                    else:
                        abc.continue_posterior_sample(N=N, tol=tol, G=G, q=q, M=M)
            except _Budget:
                bad.append("call %d (%s): fewer than N=%d particles per generation accepted within %d trials" % (k, call['kind'], N, state['limit']))
                break
            except Exception as e:
                msg = "%s: %s" % (type(e).__name__, e)
                if isinstance(e, np.linalg.LinAlgError) or 'positive semidefinite' in msg or 'singular' in msg.lower():
                    stats['skipped'] = "call %d: degenerate kernel covariance (%s)" % (k, msg[:80])   # the library's own caveat for small N
                else:
                    bad.append("call %d (%s) raises %s" % (k, call['kind'], msg[:300]))
                break
            tols = np.array(abc.tolerances, float)
            final = ('call %d final generation' % k, float(tols[-1]) if len(tols) else np.nan, k == 0 and G == 1)
            if state['pending'] is not None:
                final = (state['pending'][0], state['pending'][1], state['pending'][2])
            state['gens'].append(snap(final))
            state['pending'] = None
            # bookkeeping exposed by the API
            if len(tols) != G:
                bad.append("call %d: %d tolerances recorded for G=%d generations" % (k, len(tols), G))
            if not (abc.final_tol == tols[-1]):
                bad.append("call %d: final_tol %r differs from tolerances[-1] %r" % (k, float(abc.final_tol), float(tols[-1])))
            if not np.all(np.array(abc.dist) < abc.final_tol):
                bad.append("call %d: max stored distance %r is not below final_tol %r" % (k, float(np.max(abc.dist)), float(abc.final_tol)))
            rec = [r for r in state['pre'] if r[0] == k]
            if len(rec) == G and not np.array_equal(np.array([r[3] for r in rec], float), tols):
                bad.append("call %d: tolerances %s differ from the values get_tolerance returned %s" % (k, tols.tolist(), [float(r[3]) for r in rec]))
            if isinstance(tol, list):
                if not np.array_equal(tols, np.array(tol)):
                    bad.append("call %d: tolerance list %s was given but the generations used %s" % (k, tol, tols.tolist()))
            elif not tols[0] == tol:
                bad.append("call %d: initial tolerance %r was given but the first generation used %r" % (k, tol, float(tols[0])))
            if q is not None:
                for (_, g, pre, t) in rec:
                    if g > 0:
                        want = float(np.quantile(pre, q))
                        if not abs(t - want) <= 1e-12 * max(1.0, abs(want)):
                            bad.append("call %d generation %d: tolerance %r is not the %s-quantile %r of the previous generation's distances" % (k, g, float(t), q, want))
                        if not t <= np.max(pre):
                            bad.append("call %d generation %d: tolerance %r exceeds every distance of the previous generation (max %r)" % (k, g, float(t), float(np.max(pre))))
                want = float(np.quantile(abc.dist, q))
                if not abs(abc.next_tol - want) <= 1e-12 * max(1.0, abs(want)):
                    bad.append("call %d: next_tol %r is not the %s-quantile %r of the final distances" % (k, float(abc.next_tol), q, want))
            for g in range(len(tols)):
                all_tols.append((k, g, float(tols[g]), (q is not None and g > 0) or (g == 0 and call['tol'] == 'next')))
            if prev_final is not None and not tols[0] <= prev_final:
                bad.append("call %d: continued with tolerance %r above the previous final tolerance %r" % (k, float(tols[0]), prev_final))
            prev_final = float(tols[-1])
            acc = np.array(abc.acceptance_rate, float)
            stats['rejecting'] += int(np.sum(acc < 100))
            stats['finite'] += int(np.sum(np.isfinite(tols)))
    finally:
        logging.disable(lvl)
        abc.get_tolerance = orig_tol
        pars[0].density = d0
    # monotone schedule: a tolerance chosen by the quantile rule never exceeds its predecessor
    mono = []
    for a, b in zip(all_tols[:-1], all_tols[1:]):
        if b[3] and not b[2] <= a[2]:
            mono.append("tolerance increases under the quantile schedule: call %d generation %d used %r after %r" % (b[0], b[1], b[2], a[2]))
    part = []
    for gen in state['gens']:
        check_generation(case, gen, part, stats)
    bad = mono[:2] + bad[:4] + part + bad[4:] + mono[2:]
    stats['generations'] = len(state['gens'])
    return bad, stats


# ----------------------------------------------------------------------------------------------------------------------
# corpus
def _base(rng, loss, observed, noise, sigma=None, r0=False):
    beta, gamma = float(rng.uniform(0.45, 0.7)), float(rng.uniform(0.2, 0.33))
    i0 = float(rng.uniform(0.03, 0.08))
    rr = float(rng.uniform(0.01, 0.05)) if r0 else 0.0
    x0 = [1.0 - i0 - rr, i0, rr]
    n = int(rng.randint(6, 10))
    t = np.sort(np.linspace(2.0, rng.uniform(22, 36), n) + rng.uniform(-0.6, 0.6, n))
    sol = ref_solution(beta, gamma, x0, 0.0, t)
    y = sol[:, [STATES.index(s) for s in observed]]
    if noise:
        y = y + rng.normal(0, noise, y.shape)
    y = y[:, 0] if len(observed) == 1 else y
    return {'loss': loss, 'sigma': sigma, 'observed': list(observed), 't0': 0.0, 't': [float(v) for v in t], 'y': np.round(y, 10).tolist(),
            'x0': [float(v) for v in x0], 'fixed': {'beta': beta, 'gamma': gamma}, 'true': {'beta': beta, 'gamma': gamma, 'I': i0, 'R': rr},
            'constraint': None, 'noise': noise}


def _prior_cost_quantiles(rng, case, qs, n=40):
    cs = []
    for _ in range(n):
        row = [prior_draw(rng, p[1], p[2]) for p in case['params']]
        c = ref_cost(case, natural_of(case, row))[0]
        if np.isfinite(c):
            cs.append(c)
    return [float(np.quantile(cs, q)) for q in qs]


def _N(rng):
    return int(rng.randint(15, 41))


def t_quantile_log_state(rng):
    c = _base(rng, 'SquareLoss', ['I', 'R'], noise=float(rng.choice([0.0, 0.005])))
    c['template'] = 'quantile schedule, log-scale beta, inferred I0 listed first, S constrained, continued'
    c['params'] = [['I', 'unif', [0.0, 0.2], False], ['gamma', 'unif', [0.0, 1.5], False], ['beta', 'unif', [-1.5, 0.5], True]]
    c['constraint'] = [1.0, 'S']
    N, q = _N(rng), float(rng.choice([0.5, 0.7, 0.9]))
    c['calls'] = [{'kind': 'get', 'N': N, 'tol': 'inf', 'G': 3, 'q': q, 'M': None},
                  {'kind': 'continue', 'N': N, 'tol': 'next', 'G': 2, 'q': q, 'M': None}]
    return c


def t_list_narrow(rng):
    obs = [['I', 'R'], ['R'], ['S', 'I']][int(rng.randint(3))]
    c = _base(rng, 'SquareLoss', obs, noise=float(rng.choice([0.0, 0.01])))
    c['template'] = 'tolerance list, narrow uniform priors, gamma listed before beta, continued with a list'
    b, g = c['true']['beta'], c['true']['gamma']
    c['params'] = [['gamma', 'unif', [round(g - rng.uniform(0.03, 0.08), 4), round(g + rng.uniform(0.03, 0.08), 4)], False],
                   ['beta', 'unif', [round(b - rng.uniform(0.04, 0.12), 4), round(b + rng.uniform(0.04, 0.12), 4)], False]]
    qs = _prior_cost_quantiles(rng, c, [0.75, 0.55, 0.4, 0.3, 0.22])
    N = _N(rng)
    c['calls'] = [{'kind': 'get', 'N': N, 'tol': qs[:3], 'G': 3, 'q': None, 'M': None},
                  {'kind': 'continue', 'N': N, 'tol': qs[3:], 'G': 2, 'q': None, 'M': None}]
    return c


def t_normal_mnn(rng):
    sigma = float(rng.choice([0.05, 1.0, 0.2]))
    c = _base(rng, 'NormalLoss', ['I', 'R'], noise=float(rng.choice([0.01, 0.02])), sigma=sigma)
    c['template'] = 'NormalLoss, gamma and normal priors, nearest-neighbour kernel, quantile schedule'
    c['params'] = [['beta', 'gamma', [4.0, 6.0], False], ['gamma', 'norm', [0.35, 0.1], False]]
    N, q = _N(rng), float(rng.choice([0.5, 0.75]))
    M = int(rng.choice([N - 1, max(8, N // 2)]))
    c['calls'] = [{'kind': 'get', 'N': N, 'tol': 'inf', 'G': 3, 'q': q, 'M': M}]
    if rng.rand() < 0.5:
        c['calls'].append({'kind': 'continue', 'N': N, 'tol': 'next', 'G': 1, 'q': q, 'M': M})
    return c


def t_rejection(rng):
    loss = ['SquareLoss', 'NormalLoss'][int(rng.randint(2))]
    c = _base(rng, loss, ['I', 'R'], noise=0.01, sigma=0.1 if loss == 'NormalLoss' else None)
    c['template'] = 'rejection sampling (one generation), gamma and uniform priors, continued once'
    c['params'] = [['gamma', 'gamma', [3.0, 9.0], False], ['beta', 'unif', [0.0, 2.0], False]]
    qs = _prior_cost_quantiles(rng, c, [0.5, 0.3])
    N = _N(rng)
    c['calls'] = [{'kind': 'get', 'N': N, 'tol': qs[0], 'G': 1, 'q': None, 'M': None},
                  {'kind': 'continue', 'N': N, 'tol': qs[1], 'G': 1, 'q': None, 'M': None}]
    return c


def t_one_log(rng):
    c = _base(rng, 'SquareLoss', ['I'], noise=0.0)
    c['template'] = 'single log-scale parameter, quantile schedule'
    c['params'] = [['beta', 'unif', [-1.0, 0.3], True]]
    N = _N(rng)
    c['calls'] = [{'kind': 'get', 'N': N, 'tol': 'inf', 'G': 3, 'q': float(rng.choice([0.5, 0.8])), 'M': None}]
    return c


def t_narrow_q(rng):
    loss = ['SquareLoss', 'NormalLoss'][int(rng.randint(2))]
    c = _base(rng, loss, ['I', 'R'], noise=0.01, sigma=0.05 if loss == 'NormalLoss' else None)
    c['template'] = 'narrow uniform priors (kernel proposes outside), high quantile, four generations, continued'
    b, g = c['true']['beta'], c['true']['gamma']
    c['params'] = [['beta', 'unif', [round(b - 0.03, 4), round(b + rng.uniform(0.02, 0.2), 4)], False],
                   ['gamma', 'unif', [round(g - rng.uniform(0.02, 0.1), 4), round(g + 0.02, 4)], False]]
    N = _N(rng)
    q = float(rng.choice([0.8, 0.9]))
    c['calls'] = [{'kind': 'get', 'N': N, 'tol': 'inf', 'G': 4, 'q': q, 'M': None},
                  {'kind': 'continue', 'N': N, 'tol': 'next', 'G': 2, 'q': q, 'M': None}]
    return c


def t_two_states(rng):
    c = _base(rng, 'SquareLoss', ['I', 'R'], noise=0.0, r0=True)
    c['template'] = 'two inferred initial states listed in reverse order around a log-scale parameter, no constraint'
    c['params'] = [['R', 'unif', [0.0, 0.1], False], ['gamma', 'unif', [-1.2, 0.0], True], ['I', 'unif', [0.0, 0.2], False]]
    N = _N(rng)
    c['calls'] = [{'kind': 'get', 'N': N, 'tol': 'inf', 'G': 3, 'q': 0.6, 'M': (None if rng.rand() < 0.5 else N - 1)}]
    return c


REPS = (1, 20)
TEMPLATES = [t_quantile_log_state, t_list_narrow, t_normal_mnn, t_narrow_q, t_two_states, t_rejection, t_one_log]


def corpus(tier, seed):
    rng = np.random.RandomState(seed)
    reps = REPS[0] if tier == 'quick' else REPS[1]
    tmpl = TEMPLATES
    out = []
    for r in range(reps):
        for f in tmpl:
            c = f(rng)
            c['np_seed'] = int(rng.randint(1, 2 ** 31 - 1))
            out.append(c)
    return out


def _key(case):
    return "%s | N=%d np_seed=%d" % (case['template'], case['calls'][0]['N'], case['np_seed'])


def run(tier='quick', seed=0):
    evals, failures, samples, distinct, skipped = 0, [], [], set(), []
    particles, gens, max_rel = 0, 0, 0.0
    import time
    cases = corpus(tier, seed)
    started, stopped = time.time(), 0
    for n_done, case in enumerate(cases):
        if failures and time.time() - started > (15 if tier == 'quick' else 200):
            stopped = len(cases) - n_done      # only after a failure was found: a defective tree can make every run exhaust its budget
            break
        try:
            bad, stats = run_case(case)
        except Exception as e:
            bad, stats = ["raises %s: %s" % (type(e).__name__, str(e)[:300])], {'particles': 0, 'generations': 0, 'max_rel': 0.0, 'rejecting': 0, 'finite': 0, 'skipped': None}
        if stats['skipped'] and not bad:
            skipped.append(stats['skipped'])
            continue
        evals += 1
        particles += stats['particles']
        gens += stats['generations']
        max_rel = max(max_rel, stats['max_rel'])
        if stats['rejecting'] > 0 and stats['finite'] > 0:
            distinct.add(_key(case) + repr(case['params']) + repr(case['calls']))
        if bad:
            failures.append({'key': _key(case), 'case': case, 'observed': bad[:6] + (["... %d observations in total" % len(bad)] if len(bad) > 6 else [])})
        elif len(samples) < 2:
            samples.append(case)
    return {'evaluations': evals, 'distinct_nontrivial': len(distinct), 'failures': failures, 'samples': samples,
            'particles_checked': particles, 'generations_checked': gens, 'skipped_degenerate': len(skipped),
            'max_distance_error_over_allowance': max_rel,
            'rule': 'seeded SIR inference problems (6-9 observation times, noise-free or lightly noisy, SquareLoss/NormalLoss) run through ABC with '
                    'N=15..40 particles: quantile and tolerance-list schedules, rejection sampling, nearest-neighbour kernels, continued runs, '
                    'uniform/gamma/normal/beta priors, log-scale parameters, parameter lists ordered differently from the model, inferred initial '
                    'states with and without a population constraint.  Every completed generation (observed through get_tolerance, plus the state '
                    'after each call) is checked particle by particle: prior density > 0 (scipy.stats), weight positive and finite (first generation: '
                    'equal to the prior density), stored distance < that generation\'s tolerance and equal (1e-5 of the summed absolute terms + 1e-6) to the cost recomputed '
                    'with odeint at rtol=atol=1e-11; tolerances recorded = tolerances used, quantile-scheduled tolerances equal the quantile of the '
                    'previous distances and never increase (also across continued runs).  A case is non-trivial when a finite tolerance was in '
                    'force and at least one generation rejected a trial; distinct by template, priors, schedule and seed.',
            'bound': '%d ABC runs (%d templates x %d), %d generations, %d particles; %d runs skipped for a degenerate kernel covariance; '
                     'at most %d trials per particle and generation%s' % (len(cases), len(TEMPLATES), REPS[0] if tier == 'quick' else REPS[1], gens, particles, len(skipped), TRIALS_PER_PARTICLE,
                                                                     ('; stopped %d runs early after failures (time cap)' % stopped) if stopped else '')}


def replay(c):
    case = c['case']
    try:
        bad, stats = run_case(case)
    except Exception as e:
        bad = ["raises %s: %s" % (type(e).__name__, str(e)[:300])]
    return {'reproduced': bool(bad), 'observed': bad[:6], 'input': case}
