"""Bounded stand-in for C09: random histories of parameter assignments in mixed formats (ordered list / tuple /
array, permuted (name, value) pairs, dict by name, by the model's symbol, by a same-named sympy.Symbol created
elsewhere, partial dicts, rejected inputs) against a by-name reference; the values evaluators receive are read
back from ode(x, t) of a model whose right-hand side exposes every parameter.  Bounded, never counted as proved."""
import numpy as np


def _model(nP):
    from contracts import native
    pm = native.imp('pygom.model')
    ou = native.imp('pygom.model.ode_utils')
    names = ['beta', 'gamma', 'mu', 'kappa', 'nu'][:nP]
    states = ['x%d' % i for i in range(nP)]
    with native.quiet():
        m = pm.SimulateOde(states, names, ode=[pm.Transition(origin=s, equation='%s*(%d+%s)' % (p, i + 1, s), transition_type='ODE')
                                                for i, (s, p) in enumerate(zip(states, names))])
        m._SC = ou.compileCode(backend='lambda')
    return m, names


def history(rng, nP, length):
    import_names = ['beta', 'gamma', 'mu', 'kappa', 'nu'][:nP]
    ops = []
    dicty = rng.uniform() < 0.5       # half of the histories stay within the dict forms (in-place partial updates interact)
    for k in range(length):
        if dicty and k:
            kind = ['dict-name', 'dict-model-symbol', 'dict-foreign-symbol', 'dict-mixed'][int(rng.randint(4))]
            vals = [round(float(v), 3) for v in rng.uniform(0.1, 9.0, size=nP)]
            sub = sorted(rng.choice(nP, size=int(rng.randint(max(1, nP - 1), nP + 1)), replace=False).tolist())
            ops.append({'kind': kind, 'vals': vals, 'subset': sub, 'perm': rng.permutation(nP).tolist()})
            continue
        kind = ['list', 'tuple', 'array', 'pairs', 'dict-name', 'dict-model-symbol', 'dict-foreign-symbol', 'dict-mixed',
                'bad-name-pair', 'bad-key', 'wrong-length', 'too-many', 'bad-time-pair', 'bad-time-key'][int(rng.randint(14))] if k else ['list', 'pairs', 'dict-name'][int(rng.randint(3))]
        vals = [round(float(v), 3) for v in rng.uniform(0.1, 9.0, size=nP)]
        sub = sorted(rng.choice(nP, size=int(rng.randint(1, nP + 1)), replace=False).tolist())
        perm = rng.permutation(nP).tolist()
        ops.append({'kind': kind, 'vals': vals, 'subset': sub, 'perm': perm})
    return ops


def run_history(nP, ops):
    import sympy
    from contracts import native
    m, names = _model(nP)
    expect = {n: 0.0 for n in names}
    bad = []
    assigned = False
    x = np.arange(1.0, nP + 1.0)
    for k, op in enumerate(ops):
        kind, vals, sub, perm = op['kind'], op['vals'], op['subset'], op['perm']
        sym = lambda n: m._paramDict[n]
        reject = False
        if kind in ('list', 'tuple', 'array'):
            inp = {'list': list(vals), 'tuple': tuple(vals), 'array': np.array(vals)}[kind]
            new = dict(zip(names, vals))
            full = True
        elif kind == 'pairs':
            inp = [(names[j], vals[j]) for j in perm]
            new, full = dict(zip(names, vals)), True
        elif kind.startswith('dict'):
            keyf = {'dict-name': lambda n: n, 'dict-model-symbol': sym, 'dict-foreign-symbol': lambda n: sympy.Symbol(n),
                    'dict-mixed': lambda n: [n, sym(n), sympy.Symbol(n)][(len(n) + k) % 3]}[kind]
            inp = {keyf(names[j]): vals[j] for j in sub}
            new, full = {names[j]: vals[j] for j in sub}, False
        elif kind == 'bad-name-pair':
            inp = [((names[j] if j != perm[0] else 'zeta'), vals[j]) for j in perm]
            reject = True
        elif kind == 'bad-key':
            inp = {names[sub[0]]: vals[0], 'zeta': 1.0} if nP >= 2 else {'zeta': 1.0}
            reject = True
        elif kind == 'bad-time-pair':
            # 't' is a key of the model's parameter dictionary (the time symbol is filed there) but it is not a parameter
            inp = [((names[j] if j != perm[-1] else 't'), vals[j]) for j in perm]
            reject = True
        elif kind == 'bad-time-key':
            inp = {names[sub[0]]: vals[0], ('t' if k % 2 else sympy.Symbol('t')): 1.0}
            reject = True
        elif kind == 'wrong-length':
            inp = list(vals) + [1.0]
            reject = True
        else:
            inp = {n: 1.0 for n in names}
            inp['zeta'] = 2.0
            reject = True
        try:
            with native.quiet():
                m.parameters = inp
            raised = None
        except Exception as e:
            raised = "%s: %s" % (type(e).__name__, str(e)[:80])
        if reject:
            if raised is None:
                bad.append("step %d (%s): invalid input %r was accepted" % (k, kind, inp))
                break
            # a rejected assignment must not bind anything silently: the values in use stay as they were
        else:
            if raised is not None:
                bad.append("step %d (%s): valid input raised %s" % (k, kind, raised))
                break
            if full:
                expect = dict(new)
            else:
                expect.update(new)
            assigned = True
        if not assigned:
            continue
        got = list(m._paramValue)
        want = [expect[n] for n in names]
        if [float(g) for g in got] != want:
            bad.append("step %d (%s): values in use %s, values supplied by name %s" % (k, kind, [float(g) for g in got], want))
            break
        rhs = np.asarray(m.ode(x, 0.0), float)
        ref = np.array([want[i] * (i + 1 + x[i]) for i in range(nP)])
        if not np.allclose(rhs, ref, rtol=1e-12, atol=0):
            bad.append("step %d (%s): ode(x,t) uses %s" % (k, kind, (rhs / (np.arange(1, nP + 1) + x)).tolist()))
            break
    return bad


def run(tier='quick', seed=0):
    rng = np.random.RandomState(seed)
    n = 12 if tier == 'quick' else 120
    evals, failures, samples, distinct = 0, [], [], set()
    # fixed histories, every seed: a rejected dict that also carries a valid name, followed by a partial update that does not mention
    # that name (nothing of a rejected input may surface later), in three key styles
    for fk, (badkind, kind2) in enumerate((('bad-key', 'dict-name'), ('bad-key', 'dict-model-symbol'), ('bad-key', 'dict-foreign-symbol'),
                                           ('bad-time-pair', 'dict-name'), ('bad-time-key', 'dict-name'), ('bad-time-key', 'list'))):
        nP = 2 + fk % 3
        ops = [{'kind': 'pairs', 'vals': [6.0 + i for i in range(nP)], 'subset': list(range(nP)), 'perm': list(range(nP))[::-1]},
               {'kind': badkind, 'vals': [2.5] * nP, 'subset': [0], 'perm': list(range(nP))},
               {'kind': kind2, 'vals': [3.25] * nP, 'subset': [nP - 1], 'perm': list(range(nP))}]
        try:
            bad = run_history(nP, ops)
        except Exception as e:
            bad = ["raises %s: %s" % (type(e).__name__, e)]
        evals += 1
        distinct.add((nP, tuple(o['kind'] for o in ops)))
        if bad:
            failures.append({'key': 'rejected-then-partial %s/%s' % (badkind, kind2), 'case': {'nP': nP, 'ops': ops}, 'observed': bad[:3]})
    for k in range(n):
        nP = int(rng.randint(1, 6)) if k % 4 else 2
        if nP == 1:
            nP = 2 if k % 2 else 3
        ops = history(rng, nP, int(rng.randint(2, 9)))
        try:
            bad = run_history(nP, ops)
        except Exception as e:
            bad = ["raises %s: %s" % (type(e).__name__, e)]
        evals += 1
        distinct.add((nP, tuple(o['kind'] for o in ops)))
        if bad:
            failures.append({'key': 'history %d' % k, 'case': {'nP': nP, 'ops': ops}, 'observed': bad[:3]})
        elif len(samples) < 2:
            samples.append({'nP': nP, 'kinds': [o['kind'] for o in ops]})
    return {'evaluations': evals, 'distinct_nontrivial': len(distinct), 'failures': failures, 'samples': samples,
            'rule': 'seeded random histories (2-8 assignments, 2-5 parameters) mixing ordered list/tuple/array, permuted pairs, full and partial dicts keyed by name, '
                    'by the model symbol, by a same-named foreign sympy.Symbol and mixtures, and rejected inputs (unknown name, the name t of the time symbol, wrong length, too many keys); after every '
                    'step _paramValue and ode(x,t) are compared with a by-name reference; distinct by (number of parameters, sequence of formats)',
            'bound': '%d histories of at most 8 assignments' % n}


def replay(c):
    bad = run_history(c['case']['nP'], c['case']['ops'])
    return {'reproduced': bool(bad), 'observed': bad[:3], 'input': c['case']}
