"""Bounded stand-in for C20: curvature information matches the cost it describes.
(a) jtj(theta) = sum_i sum_a w[i,a]^2 s_ia s_ia^T with s_ia = d Yhat[i,a] / d theta (free parameters, supplied order),
    symmetric positive semi-definite; reference sensitivities = central differences of an INDEPENDENT odeint solution.
(b) hessian(theta) = derivative of the SquareLoss gradient (central differences of sensitivity(theta), the entry
    point that C07 checks against the cost).
Failure keys: 'jtj:<...>', 'hessian:<model>' for the models whose right-hand side has no second derivatives, and
'hessian-known:<model>' (one per model) for the models where a rate multiplies a parameter by a state: the defect
recorded for the pinned tree (mixed terms omitted, second-order part added with the wrong sign).
Bounded, never counted as proved."""
import numpy as np
from standins import c07

RTOL_JTJ = 1e-4
RTOL_HESS = 1e-4
H_GRAD = 1e-4


def weight_matrix(case):
    """the (n, p) weights by the documented rule, built here independently of the library"""
    n = len(case['t'])
    p = len(case['states'])
    w, kind = case.get('weights'), case.get('wkind')
    if w is None:
        return np.ones((n, p))
    if kind == 'scalar':
        return float(w) * np.ones((n, p))
    if kind == 'per-state':
        return np.ones((n, 1)) * np.asarray(w, float).reshape(1, p)
    if kind == 'per-obs':
        return np.asarray(w, float).reshape(n, 1) * np.ones((1, p))
    return np.asarray(w, float).reshape(n, p)


def indices(case):
    M = c07.MODELS[case['model']]
    si = [M['states'].index(s) for s in case['states']]
    pi = list(range(len(M['params']))) if case.get('target_param') is None else [M['params'].index(q) for q in case['target_param']]
    return si, pi


def check_jtj(case, info=None):
    from contracts import native
    L, v = c07.make_loss(case)
    si, pi = indices(case)
    dth = c07.ref_sens(case['model'], case['theta'], case['x0'], case['t0'], case['t'])
    W = weight_matrix(case)
    S = dth[:, si][:, :, pi]                       # (n, p, k)
    ref = np.einsum('ia,iaj,iak->jk', W ** 2, S, S)
    # scale: Cauchy-Schwarz bound sqrt(ref_jj ref_kk), with a floor from the largest sensitivity of any state to the
    # parameter (an observed state may not depend on a parameter at all; then only finite-difference noise is left)
    full = np.array([np.max(np.abs(dth[:, :, j])) for j in pi])
    d = np.sqrt(np.maximum(np.diag(ref), (1e-2 * full) ** 2 * np.sum(W ** 2)))
    scale = np.outer(d, d)
    route = case.get('route', 'jtj')
    method = case.get('method')
    with native.quiet():
        if route == 'jtj_full':
            J = L.jtj(v.copy(), full_output=True, method=method)[0]
        elif route == 'sensitivity_full':
            J = L.sensitivity(v.copy(), full_output=True, method=method)[1]['JTJ']
        else:
            J = L.jtj(v.copy(), method=method)
    J = np.asarray(J, float)
    bad = []
    name = {'jtj': 'jtj(theta)', 'jtj_full': 'jtj(theta, full_output=True)', 'sensitivity_full': "sensitivity(theta, full_output=True)['JTJ']"}[route]
    if J.shape != ref.shape:
        return ["%s has shape %s, expected %s" % (name, J.shape, ref.shape)]
    if not np.all(np.isfinite(J)):
        return ["%s is not finite" % name]
    dev = np.abs(J - ref) / scale
    worst = float(np.max(dev)) / RTOL_JTJ
    if worst > 1.0:
        bad.append("%s = %s but sum_i sum_a w_ia^2 s_ia s_ia^T from the independent sensitivities is %s (max deviation %.3g of the scale)"
                   % (name, np.round(J, 6).tolist(), np.round(ref, 6).tolist(), float(np.max(dev))))
    asym = float(np.max(np.abs(J - J.T) / scale))
    if asym > 1e-10:
        bad.append("%s is not symmetric: max |J - J^T| = %.3g" % (name, float(np.max(np.abs(J - J.T)))))
    ev = np.linalg.eigvalsh((J + J.T) / 2.0)
    if ev[0] < -1e-9 * max(abs(ev[-1]), 1e-300):
        bad.append("%s is not positive semi-definite: smallest eigenvalue %.6g (largest %.6g)" % (name, ev[0], ev[-1]))
    if info is not None:
        info.update(worst=worst, nontrivial=bool(np.max(np.abs(ref)) > 0))
    return bad


def check_hessian(case, info=None):
    from contracts import native
    L, v = c07.make_loss(case)
    method = case.get('method')
    with native.quiet():
        Hlib = np.asarray(L.hessian(v.copy(), method=method), float)
        cols = []
        for i in range(len(v)):
            e = np.zeros(len(v))
            e[i] = H_GRAD * max(abs(v[i]), 1e-3)
            cols.append((np.asarray(L.sensitivity(v + e), float) - np.asarray(L.sensitivity(v - e), float)) / (2 * e[i]))
    Href = np.stack(cols, axis=1)
    Href = (Href + Href.T) / 2.0
    bad = []
    if Hlib.shape != Href.shape:
        return ["hessian(theta) has shape %s, expected %s" % (Hlib.shape, Href.shape)]
    d = np.sqrt(np.maximum(np.abs(np.diag(Href)), 1e-300))
    scale = np.maximum(np.outer(d, d), 1e-6 * np.max(np.abs(Href)))
    dev = np.abs(Hlib - Href) / scale
    worst = float(np.max(dev)) / RTOL_HESS
    if not np.all(np.isfinite(Hlib)):
        bad.append("hessian(theta) is not finite")
    elif worst > 1.0:
        bad.append("hessian(theta) = %s but the derivative of the gradient (central differences of sensitivity) is %s (max deviation %.3g of the scale)"
                   % (np.round(Hlib, 5).tolist(), np.round(Href, 5).tolist(), float(np.max(dev))))
    if info is not None:
        info.update(worst=worst, nontrivial=bool(np.max(np.abs(Href)) > 0))
    return bad


def check_case(case, info=None):
    return check_hessian(case, info) if case.get('what') == 'hessian' else check_jtj(case, info)


# ---------------------------------------------------------------------------------------------------------------
# corpus

def jtj_shapes(name):
    M = c07.MODELS[name]
    S, P = M['states'], M['params']
    pair = [S[1], S[2]] if len(S) >= 3 else (list(S) if len(S) == 2 else None)
    rpair = pair[::-1] if pair else None
    rP = P[::-1] if len(P) >= 2 else None
    sub = [P[2], P[0]] if len(P) >= 3 else rP
    return [
        dict(states=rpair or [S[0]], wkind='per-state'),                                   # reversed observed pair, per-state weights
        dict(states=[S[-1]], target_param=rP, wkind='per-obs', method='dopri5'),           # length-n weights with one observed state
        dict(states=pair or [S[0]], target_param=sub, wkind='scalar'),                     # scalar weight, parameter subset out of order
        dict(states=rpair or [S[0]], target_param=rP, wkind='matrix', route='jtj_full'),   # both reversed, (n,p) weights
        dict(states=[S[0]], wkind=None, route='sensitivity_full'),                         # unit weights, the JTJ of sensitivity's full output
    ]


def hessian_shapes(name, thorough):
    M = c07.MODELS[name]
    S, P = M['states'], M['params']
    pair = [S[1], S[2]] if len(S) >= 3 else (list(S) if len(S) == 2 else None)
    rP = P[::-1] if len(P) >= 2 else None
    out = [dict(states=[S[-1]], wkind=None),
           dict(states=(pair[::-1] if pair else [S[0]]), target_param=rP, wkind='per-state')]
    if thorough:
        out += [dict(states=pair or [S[0]], target_param=[P[-1]], wkind='scalar'),
                dict(states=[S[0]], target_param=rP, wkind='per-obs', method='dopri5'),
                dict(states=list(S[::-1][:3]), wkind='matrix')]
    return out


def random_jtj_shape(rng, name):
    M = c07.MODELS[name]
    S, P = M['states'], M['params']
    k = int(rng.randint(1, min(len(S), 3) + 1))
    states = [S[i] for i in rng.permutation(len(S))[:k]]
    tp = None
    if rng.uniform() < 0.6:
        kp = int(rng.randint(1, len(P) + 1))
        tp = [P[i] for i in rng.permutation(len(P))[:kp]]
    return dict(states=states, target_param=tp, wkind=(None, 'scalar', 'per-state', 'per-obs', 'matrix')[int(rng.randint(5))],
                method=(None, None, 'dopri5', 'vode')[int(rng.randint(4))], route=('jtj', 'jtj', 'jtj_full', 'sensitivity_full')[int(rng.randint(4))])


def make_case(rng, name, loss, shape, what, num):
    case = c07.make_case(rng, name, loss, dict(shape, iv=False, call='sensitivity', check_jac=False), num=num)
    for k in ('iv', 'call', 'check_jac', 'target_state'):
        case.pop(k, None)
    case['what'] = what
    case['route'] = shape.get('route', 'jtj') if what == 'jtj' else 'hessian'
    return case


def corpus(tier, seed):
    rng = np.random.RandomState(seed)
    thorough = tier != 'quick'
    cases = []
    for name in c07.ORDER:
        for rep in range(3 if thorough else 1):
            num = c07.numerics(rng, name)
            for k, sh in enumerate(jtj_shapes(name)):
                cases.append(make_case(rng, name, ('SquareLoss', 'NormalLoss')[(k + rep) % 2], sh, 'jtj', num))
            if rep == 0:
                for sh in hessian_shapes(name, thorough):
                    cases.append(make_case(rng, name, 'SquareLoss', sh, 'hessian', num))
    for g in range(N_GROUPS[thorough]):
        name = c07.ORDER[int(rng.randint(len(c07.ORDER)))]
        num = c07.numerics(rng, name)
        for k in range(4):
            loss = ('SquareLoss', 'NormalLoss', 'SquareLoss', 'PoissonLoss')[int(rng.randint(4))]
            cases.append(make_case(rng, name, loss, random_jtj_shape(rng, name), 'jtj', num))
    return cases


N_GROUPS = {False: 40, True: 400}


def distinct_key(case):
    return (case['what'], case['model'], case['loss'], tuple(case['states']), tuple(case['target_param'] or ()), case['wkind'], case['method'], case['route'])


def failure_key(case):
    if case['what'] == 'hessian':
        return ('hessian-known:' if c07.MODELS[case['model']]['bilinear'] else 'hessian:') + case['model']
    return 'jtj:%s %s %s states=%s target_param=%s weights=%s method=%s' % (
        case['model'], case['loss'], case['route'], ','.join(case['states']), ','.join(case['target_param'] or ['all']), case['wkind'], case['method'])


def run(tier='quick', seed=0):
    evals, failures, samples, distinct, seen_known, nbad = 0, [], [], set(), set(), 0
    worst = {'jtj': 0.0, 'hessian': 0.0}
    for case in corpus(tier, seed):
        info = {}
        try:
            bad = check_case(case, info)
        except Exception as e:
            bad = ["raises %s: %s" % (type(e).__name__, str(e)[:300])]
        evals += 1
        key = failure_key(case)
        if not (bad and key.startswith('hessian-known:')):
            worst[case['what']] = max(worst[case['what']], info.get('worst', 0.0))
        if info.get('nontrivial', True) or bad:
            distinct.add(distinct_key(case))
        if bad:
            nbad += 1
            if key.startswith('hessian-known:'):
                if key in seen_known:
                    continue
                seen_known.add(key)
                failures.append({'key': key, 'case': case, 'observed': bad[:3]})
            elif len(failures) < 40:
                failures.append({'key': key, 'case': case, 'observed': bad[:3]})
        elif len(samples) < 2:
            samples.append(case)
    return {'evaluations': evals, 'distinct_nontrivial': len(distinct), 'failures': failures, 'failing_cases': nbad, 'samples': samples,
            'worst_deviation_over_tolerance': worst,
            'rule': 'models and data as in the C07 stand-in (SIR 3/2, SEIR 4/3, Lotka-Volterra 2/4, decay 1/1, linear chain 3/2; noisy positive data; '
                    'evaluation point away from the generating parameters). jtj: per model 5 core shapes (reversed observed pair with per-state weights; '
                    'one observed state with reversed target_param, length-n weights with one zero and method=dopri5; out-of-order parameter subset with a '
                    'scalar weight; both orders reversed with an (n,p) weight matrix via jtj(full_output=True); the JTJ in sensitivity(full_output=True)) '
                    'plus random shapes (1-3 observed states in random order, random ordered parameter subsets, five weight forms, methods default/dopri5/vode, '
                    'Square/Normal/Poisson loss objects), compared at 1e-4 of sqrt(J_jj J_kk) with sum_i sum_a w_ia^2 s_ia s_ia^T from central differences '
                    '(relative step 1e-4) of an independent odeint solution (rtol=atol=1e-11); symmetry at 1e-10, smallest eigenvalue >= -1e-9 largest. '
                    'hessian: SquareLoss, per model 2 shapes (5 in the thorough tier: one state with unit weights, reversed pair with reversed target_param and '
                    'per-state weights, one free parameter with a scalar weight, length-n weights with dopri5, three states with a weight matrix) against central '
                    'differences (relative step 1e-4) of sensitivity(theta) at 1e-4 of sqrt(|H_jj H_kk|); models whose rates multiply a parameter by a state '
                    '(SIR, SEIR, LV, decay) report under hessian-known:<model> (first mismatch only), the linear chain under hessian:chain. '
                    'A case is non-trivial when the reference matrix is non-zero; distinct by (kind, model, loss, observed states, target_param, weight form, method, route)',
            'bound': '5 models x (%d x 5 jtj core shapes + %d hessian shapes) + %d random groups of 4 jtj shapes sharing one parameter point; 6-9 observation times'
                     % ((3, 5, N_GROUPS[True]) if tier != 'quick' else (1, 2, N_GROUPS[False]))}


def replay(c):
    case = c['case']
    try:
        bad = check_case(case)
    except Exception as e:
        bad = ["raises %s: %s" % (type(e).__name__, str(e)[:300])]
    return {'reproduced': bool(bad), 'observed': bad[:3], 'input': case}
