"""Bounded stand-in for C07: the gradient handed to optimisers (sensitivity / gradient / sensitivityIV) is the
derivative of cost / costIV w.r.t. the free variables in the order supplied.  Checked natively by central
finite differences of the real cost on a seeded corpus (bounded, never counted as proved).  The model table,
the independent right-hand sides and the odeint reference sensitivities are shared with C20."""
import numpy as np

LOSSES = ('SquareLoss', 'NormalLoss', 'PoissonLoss', 'GammaLoss', 'NegBinomLoss')
WEIGHTED = ('SquareLoss', 'NormalLoss')
SPREAD_KW = {'NormalLoss': 'sigma', 'GammaLoss': 'shape', 'NegBinomLoss': 'k'}

# name -> states, params, events (rate, (type, origin, destination)), independent right-hand side, parameter and
# initial-value ranges, observation horizon, and whether a rate multiplies a parameter by a state ('bilinear')
MODELS = {
    'SIR': dict(states=['S', 'I', 'R'], params=['beta', 'gamma'],
                events=[('beta*S*I/500.0', ('T', 'S', 'I')), ('gamma*I', ('T', 'I', 'R'))],
                rhs=lambda y, t, p: [-p[0] * y[0] * y[1] / 500.0, p[0] * y[0] * y[1] / 500.0 - p[1] * y[1], p[1] * y[1]],
                theta=[(0.6, 1.2), (0.2, 0.4)], x0=[(400, 470), (10, 30), (5, 20)], horizon=12.0, bilinear=True),
    'SEIR': dict(states=['S', 'E', 'I', 'R'], params=['beta', 'alpha', 'gamma'],
                 events=[('beta*S*I/500.0', ('T', 'S', 'E')), ('alpha*E', ('T', 'E', 'I')), ('gamma*I', ('T', 'I', 'R'))],
                 rhs=lambda y, t, p: [-p[0] * y[0] * y[2] / 500.0, p[0] * y[0] * y[2] / 500.0 - p[1] * y[1],
                                      p[1] * y[1] - p[2] * y[2], p[2] * y[2]],
                 theta=[(0.8, 1.5), (0.3, 0.7), (0.2, 0.4)], x0=[(400, 450), (15, 30), (10, 25), (5, 20)], horizon=14.0, bilinear=True),
    'LV': dict(states=['x', 'y'], params=['a', 'b', 'c', 'd'],
               events=[('a*x', ('B', None, 'x')), ('b*x*y', ('D', 'x', None)), ('c*y', ('D', 'y', None)), ('d*x*y', ('B', None, 'y'))],
               rhs=lambda y, t, p: [p[0] * y[0] - p[1] * y[0] * y[1], -p[2] * y[1] + p[3] * y[0] * y[1]],
               theta=[(0.4, 0.7), (0.004, 0.007), (0.3, 0.5), (0.003, 0.005)], x0=[(60, 140), (50, 110)], horizon=8.0, bilinear=True),
    'decay': dict(states=['x'], params=['r'], events=[('r*x', ('D', 'x', None))],
                  rhs=lambda y, t, p: [-p[0] * y[0]],
                  theta=[(0.2, 0.5)], x0=[(150, 300)], horizon=8.0, bilinear=True),
    # constant Jacobian, parameters additive: all second derivatives of the right-hand side vanish
    'chain': dict(states=['x1', 'x2', 'x3'], params=['a', 'b'],
                  events=[('a', ('B', None, 'x1')), ('0.5*x1', ('T', 'x1', 'x2')), ('0.3*x2', ('T', 'x2', 'x3')),
                          ('0.1*x3', ('D', 'x3', None)), ('b', ('B', None, 'x3'))],
                  rhs=lambda y, t, p: [p[0] - 0.5 * y[0], 0.5 * y[0] - 0.3 * y[1], 0.3 * y[1] - 0.1 * y[2] + p[1]],
                  theta=[(5, 15), (2, 6)], x0=[(20, 60), (20, 60), (20, 60)], horizon=10.0, bilinear=False),
}
ORDER = ('SIR', 'SEIR', 'LV', 'decay', 'chain')

_cache = {}


def build(name):
    """the real pygom model (lambda back end); cached per tree under test"""
    from contracts import native
    key = (native.root(), name)
    if key not in _cache:
        pm = native.imp('pygom.model')
        ou = native.imp('pygom.model.ode_utils')
        M = MODELS[name]
        evs = []
        for rate, (ty, o, d) in M['events']:
            if ty == 'T':
                tr = pm.Transition(origin=o, destination=d, transition_type='T')
            elif ty == 'B':
                tr = pm.Transition(destination=d, transition_type='B')
            else:
                tr = pm.Transition(origin=o, transition_type='D')
            evs.append(pm.Event(rate=rate, transition_list=[tr]))
        with native.quiet():
            m = pm.SimulateOde(list(M['states']), list(M['params']), event=evs)
            m._SC = ou.compileCode(backend='lambda')
        _cache[key] = m
    return _cache[key]


def ref_solution(name, theta, x0, t0, t):
    """independent odeint solution at the observation times, shape (n, nS)"""
    import scipy.integrate
    rhs = MODELS[name]['rhs']
    sol = scipy.integrate.odeint(lambda y, s: rhs(y, s, theta), np.asarray(x0, float), np.append(t0, t), rtol=1e-11, atol=1e-11, mxstep=20000)
    return sol[1:]


_sens_cache = {}


def ref_sens(name, theta, x0, t0, t, h=1e-4):
    """central finite differences of the independent solution w.r.t. every parameter: dY/dtheta of shape (n, nS, nP)"""
    key = (name, tuple(theta), tuple(x0), t0, tuple(t))
    if key not in _sens_cache:
        if len(_sens_cache) > 64:
            _sens_cache.clear()
        theta = np.asarray(theta, float)
        x0 = np.asarray(x0, float)
        dth = []
        for j in range(len(theta)):
            e = np.zeros(len(theta))
            e[j] = h * max(abs(theta[j]), 1e-3)
            dth.append((ref_solution(name, theta + e, x0, t0, t) - ref_solution(name, theta - e, x0, t0, t)) / (2 * e[j]))
        _sens_cache[key] = np.stack(dth, axis=2)
    return _sens_cache[key]


def make_loss(case):
    """build the loss object of a case; returns (loss, free vector v in the supplied order)"""
    from contracts import native
    pl = native.imp('pygom.loss')
    M = MODELS[case['model']]
    m = build(case['model'])
    theta = [float(v) for v in case['theta']]
    x0 = [float(v) for v in case['x0']]
    tp, ts = case.get('target_param'), case.get('target_state')
    free = theta if tp is None else [theta[M['params'].index(p)] for p in tp]
    kw = {}
    if case.get('weights') is not None:
        kw['state_weight'] = case['weights'] if np.isscalar(case['weights']) else np.array(case['weights'], float)
    if case.get('spread') is not None:
        kw[SPREAD_KW[case['loss']]] = float(case['spread'])
    if tp is not None:
        kw['target_param'] = list(tp)
    if ts is not None:
        kw['target_state'] = list(ts)
    y = np.array(case['y'], float)
    with native.quiet():
        m.parameters = list(theta)
        m.initial_values = (list(x0), float(case['t0']))
        L = getattr(pl, case['loss'])(list(free), m, list(x0), float(case['t0']), np.array(case['t'], float), y, list(case['states']), **kw)
    v = list(free)
    if case.get('iv'):
        v += x0 if ts is None else [x0[M['states'].index(s)] for s in ts]
    return L, np.array(v, float)


def central(f, v, h):
    out = np.zeros(len(v))
    for i in range(len(v)):
        e = np.zeros(len(v))
        e[i] = h * max(abs(v[i]), 1e-3)
        out[i] = (f(v + e) - f(v - e)) / (2 * e[i])
    return out


RTOL = 1e-4
H = 1e-4


def compare(g, fd1, fd2, nfree_param, what, cost=0.0, v=None):
    """g against the central difference fd1 (step H); fd2 (step 2H) gives the finite-difference error estimate.
    Parameters and initial values are scaled separately (their gradients differ by orders of magnitude); the
    absolute floor is the rounding noise of the difference quotient (integrator tolerance 1e-10 on the cost,
    divided by the step), which is all that is left when the cost does not depend on a free variable at all."""
    bad = []
    g = np.asarray(g, float)
    if g.shape != fd1.shape:
        return ["%s has shape %s, the free vector has length %d" % (what, g.shape, len(fd1))], 0.0
    if not np.all(np.isfinite(g)):
        return ["%s is not finite: %s" % (what, g.tolist())], 0.0
    worst = 0.0
    for lo, hi in ((0, nfree_param), (nfree_param, len(fd1))):
        if hi <= lo:
            continue
        scale = max(np.max(np.abs(fd1[lo:hi])), np.max(np.abs(g[lo:hi])), 1e-8)
        tol = RTOL * scale + 20.0 * np.abs(fd1[lo:hi] - fd2[lo:hi])
        if v is not None:
            tol = tol + 1e-6 * max(abs(cost), 1.0) / np.maximum(np.abs(v[lo:hi]), 1e-3)
        err = np.abs(g[lo:hi] - fd1[lo:hi])
        worst = max(worst, float(np.max(err / tol)))
        if np.any(err > tol):
            bad.append("%s = %s but the central difference of the cost is %s (free variables %d..%d, max deviation %.3g of scale %.3g)"
                       % (what, g[lo:hi].tolist(), fd1[lo:hi].tolist(), lo, hi - 1, float(np.max(err)), scale))
    return bad, worst


def check_case(case, info=None):
    from contracts import native
    M = MODELS[case['model']]
    L, v = make_loss(case)
    iv = bool(case.get('iv'))
    method = case.get('method')
    call = case.get('call', 'sensitivity')
    nfp = len(M['params']) if case.get('target_param') is None else len(case['target_param'])
    with native.quiet():
        if iv:
            if call == 'sensitivityIV_full':
                g = L.sensitivityIV(v.copy(), full_output=True, method=method)[0]
            else:
                g = L.sensitivityIV(v.copy(), method=method)
            f = lambda z: float(L.costIV(z))
        else:
            if call == 'gradient':
                g = L.gradient(v.copy())
            elif call == 'sensitivity_full':
                g = L.sensitivity(v.copy(), full_output=True, method=method)[0]
            else:
                g = L.sensitivity(v.copy(), method=method)
            f = lambda z: float(L.cost(z))
        g = np.array(g, float)
        fd1 = central(f, v, H)
        fd2 = central(f, v, 2 * H)
    name = {'gradient': 'gradient(theta)', 'sensitivity_full': 'sensitivity(theta, full_output=True)', 'sensitivity': 'sensitivity(theta)',
            'sensitivityIV': 'sensitivityIV(theta, x0)', 'sensitivityIV_full': 'sensitivityIV(theta, x0, full_output=True)'}[call]
    c0 = f(v)
    bad, worst = compare(g, fd1, fd2, nfp, name, c0, v)
    worst_jac = 0.0
    if case.get('check_jac') and not iv:
        # jac(theta): d Yhat[i, state a] / d theta_j at column j*p + a, against the independent odeint reference
        dth = ref_sens(case['model'], case['theta'], case['x0'], case['t0'], case['t'])
        si = [M['states'].index(s) for s in case['states']]
        pi = range(len(M['params'])) if case.get('target_param') is None else [M['params'].index(p) for p in case['target_param']]
        want = np.concatenate([dth[:, si, j] for j in pi], axis=1)
        with native.quiet():
            got = np.asarray(L.jac(v.copy(), method=method), float)
        if got.shape != want.shape:
            bad.append("jac(theta) has shape %s, expected %s" % (got.shape, want.shape))
        else:
            # scale of a column = largest sensitivity of ANY state to that parameter (an observed state that does not
            # depend on the parameter has a zero column, where only finite-difference noise is left)
            scale = np.repeat([max(float(np.max(np.abs(dth[:, :, j]))), 1e-8) for j in pi], len(si))
            dev = np.max(np.abs(got - want), axis=0) / scale
            worst_jac = float(np.max(dev)) / RTOL
            if worst_jac > 1.0:
                k = int(np.argmax(dev))
                bad.append("jac(theta) column %d (parameter %d, observed state %d) deviates by %.3g (relative) from the finite-difference sensitivities of an independent odeint solution"
                           % (k, k // len(si), k % len(si), float(np.max(dev))))
    if info is not None:
        info.update(worst=worst, worst_jac=worst_jac, gnorm=float(np.max(np.abs(fd1))), cost=float(c0))
    return bad


# ---------------------------------------------------------------------------------------------------------------
# corpus

def numerics(rng, name, n_obs=None):
    """true parameters / initial values, observation times, the independent solution, and the evaluation point"""
    M = MODELS[name]
    th_true = np.array([rng.uniform(a, b) for a, b in M['theta']])
    x_true = np.array([rng.uniform(a, b) for a, b in M['x0']])
    n = n_obs or int(rng.randint(6, 10))
    t = np.sort(rng.uniform(0.5, M['horizon'], size=n))
    t = t + 0.05 * np.arange(n)          # strictly increasing, non-uniform
    sol = ref_solution(name, th_true, x_true, 0.0, t)
    theta = th_true * (1 + 0.15 * rng.uniform(-1, 1, size=len(th_true)))
    x0 = x_true * (1 + 0.05 * rng.uniform(-1, 1, size=len(x_true)))
    return t, sol, theta, x0


def weights_of(rng, kind, n, p):
    if kind == 'scalar':
        return float(np.round(rng.uniform(0.4, 2.5), 3))
    if kind == 'per-state':
        return np.round(rng.uniform(0.4, 2.5, size=p), 3).tolist()
    if kind == 'per-obs':      # length-n vector, one observed state; one observation switched off
        w = np.round(rng.uniform(0.4, 2.5, size=n), 3)
        w[int(rng.randint(n))] = 0.0
        return w.tolist()
    if kind == 'matrix':
        return np.round(rng.uniform(0.4, 2.5, size=(n, p)), 3).tolist()
    return None


def make_case(rng, name, loss, shape, num=None):
    """shape: structural choices {'states', 'target_param', 'target_state', 'iv', 'wkind', 'method', 'call', 'check_jac'};
    num: the (t, solution, theta, x0) of numerics(), drawn here unless given"""
    M = MODELS[name]
    t, sol, theta, x0 = num if num is not None else numerics(rng, name)
    states = list(shape['states'])
    idx = [M['states'].index(s) for s in states]
    y = sol[:, idx] * np.exp(0.1 * rng.standard_normal((len(t), len(idx))))
    if loss in ('PoissonLoss', 'NegBinomLoss'):
        y = np.round(y)
    else:
        y = np.round(y, 4)
    if loss == 'GammaLoss':
        y = np.maximum(y, 0.5)
    wkind = shape.get('wkind') if loss in WEIGHTED else None
    if wkind == 'per-obs' and len(states) != 1:
        wkind = 'matrix'
    if wkind == 'per-state' and len(states) == 1:
        wkind = 'scalar'
    spread = None
    if loss in SPREAD_KW and rng.uniform() < 0.7:
        spread = float(np.round(rng.uniform(1.5, 4.0), 2))
    return {'model': name, 'loss': loss, 'theta': [float(v) for v in theta], 'x0': [float(v) for v in x0], 't0': 0.0,
            't': [float(v) for v in t], 'y': (y[:, 0] if len(idx) == 1 else y).tolist(), 'states': states,
            'target_param': shape.get('target_param'), 'target_state': shape.get('target_state'), 'iv': bool(shape.get('iv')),
            'weights': weights_of(rng, wkind, len(t), len(idx)), 'wkind': wkind, 'spread': spread,
            'method': shape.get('method'), 'call': shape.get('call', 'sensitivityIV' if shape.get('iv') else 'sensitivity'),
            'check_jac': bool(shape.get('check_jac'))}


def iv_ambiguous(name, tp, ts):
    """input lengths that the library's costIV cannot tell apart (documented InputError), not part of the property"""
    M = MODELS[name]
    return ts is None and tp is not None and len(M['states']) + len(tp) == len(M['params'])


def core_shapes(name):
    """the structural core: every shape that the known defect classes need, per model"""
    M = MODELS[name]
    S, P = M['states'], M['params']
    pair = [S[1], S[2]] if len(S) >= 3 else (list(S) if len(S) == 2 else None)
    rpair = pair[::-1] if pair else None
    rP = P[::-1] if len(P) >= 2 else None
    sub = [P[2], P[0]] if len(P) >= 3 else rP
    out = []
    # A reversed pair of observed states, all parameters, per-state weights
    out.append(dict(states=rpair or [S[0]], wkind='per-state', check_jac=True))
    # B one observed state, parameters in reverse order, per-observation weights, explicit integrator
    out.append(dict(states=[S[-1]], target_param=rP, wkind='per-obs', method='dopri5', check_jac=True))
    # C pair in declaration order, one free parameter, scalar weight, gradient()
    out.append(dict(states=pair or [S[0]], target_param=[P[-1]], wkind='scalar', call='gradient'))
    # D initial values too: everything free, one observed state
    out.append(dict(states=[S[len(S) // 2]], iv=True, wkind='per-obs'))
    # E initial values: reversed observed pair, parameter subset out of order, state subset out of order, full weight matrix
    out.append(dict(states=rpair or [S[0]], target_param=sub, target_state=(S[::-1][:2] if len(S) >= 2 else [S[0]]), iv=True, wkind='matrix'))
    # F initial values: one target state, all parameters, explicit integrator
    out.append(dict(states=[S[0]], target_state=[S[-1]], iv=True, wkind='scalar', method='dopri5'))
    # G full_output route, observed pair in declaration order
    out.append(dict(states=pair or [S[0]], wkind='matrix', call='sensitivity_full'))
    return out


def random_shape(rng, name, thorough=True):
    M = MODELS[name]
    S, P = M['states'], M['params']
    k = int(rng.randint(1, min(len(S), 3) + 1))
    states = [S[i] for i in rng.permutation(len(S))[:k]]
    tp = None
    if rng.uniform() < 0.6:
        kp = int(rng.randint(1, len(P) + 1))
        tp = [P[i] for i in rng.permutation(len(P))[:kp]]
    iv = rng.uniform() < 0.4
    ts = None
    if iv and rng.uniform() < 0.7:
        ks = int(rng.randint(1, len(S) + 1))
        ts = [S[i] for i in rng.permutation(len(S))[:ks]]
    if iv and iv_ambiguous(name, tp, ts):
        tp = None
    wkind = (None, 'scalar', 'per-state', 'per-obs', 'matrix')[int(rng.randint(5))]
    method = (None, None, 'dopri5', 'vode', 'dop853')[int(rng.randint(5))]
    if iv:
        call = ('sensitivityIV', 'sensitivityIV', 'sensitivityIV_full')[int(rng.randint(3))]
    else:
        call = ('sensitivity', 'sensitivity', 'gradient', 'sensitivity_full')[int(rng.randint(4))]
    if call == 'gradient':
        method = None
    return dict(states=states, target_param=tp, target_state=ts, iv=iv, wkind=wkind, method=method, call=call,
                check_jac=(not iv and rng.uniform() < 0.3))


def distinct_key(case):
    return (case['model'], case['loss'], tuple(case['states']), tuple(case['target_param'] or ()), tuple(case['target_state'] or ()),
            case['iv'], case['wkind'], case['method'], case['call'])


def failure_key(case):
    return '%s %s %s states=%s target_param=%s target_state=%s weights=%s method=%s' % (
        case['model'], case['loss'], case['call'], ','.join(case['states']), ','.join(case['target_param'] or ['all']),
        (','.join(case['target_state'] or ['all']) if case['iv'] else '-'), case['wkind'], case['method'])


N_RANDOM = {True: 100, False: 3000}


def corpus(tier, seed):
    rng = np.random.RandomState(seed)
    cases = []
    for name in ORDER:
        shapes = core_shapes(name)
        for loss in LOSSES:
            for sh in shapes:
                if sh.get('iv') and iv_ambiguous(name, sh.get('target_param'), sh.get('target_state')):
                    sh = dict(sh, target_param=None)
                cases.append(make_case(rng, name, loss, sh))
    n_random = N_RANDOM[tier == 'quick']
    for k in range(n_random):
        name = ORDER[int(rng.randint(len(ORDER)))]
        loss = LOSSES[int(rng.randint(len(LOSSES)))]
        cases.append(make_case(rng, name, loss, random_shape(rng, name)))
    return cases


def run(tier='quick', seed=0):
    evals, failures, samples, distinct, nbad = 0, [], [], set(), 0
    worst = 0.0
    for case in corpus(tier, seed):
        info = {}
        try:
            bad = check_case(case, info)
        except Exception as e:
            bad = ["raises %s: %s" % (type(e).__name__, str(e)[:300])]
        evals += 1
        worst = max(worst, info.get('worst', 0.0), info.get('worst_jac', 0.0))
        if info.get('gnorm', 1.0) > 1e-6 * max(1.0, abs(info.get('cost', 1.0))) or bad:
            distinct.add(distinct_key(case))
        if bad:
            nbad += 1
            if len(failures) < 40:
                failures.append({'key': failure_key(case), 'case': case, 'observed': bad[:4]})
        elif len(samples) < 2:
            samples.append(case)
    return {'evaluations': evals, 'distinct_nontrivial': len(distinct), 'failures': failures, 'failing_cases': nbad, 'samples': samples,
            'worst_deviation_over_tolerance': worst,
            'rule': 'models SIR (3 states/2 parameters), SEIR (4/3), Lotka-Volterra (2/4), one-state decay (1/1), linear chain (3/2); '
                    'data = independent odeint solution with 10% log-normal noise (rounded counts for Poisson/NegBinom), gradient evaluated '
                    'at parameters up to 15% (initial values 5%) away from the generating ones; per model and loss class 7 core shapes '
                    '(reversed observed pair with per-state weights, one state with reversed target_param and length-n weights with one zero and '
                    'method=dopri5, one free parameter via gradient(), sensitivityIV with everything free, with out-of-order target_param/'
                    'target_state subsets and an (n,p) weight matrix, with one target_state, and the full_output route) plus random shapes '
                    '(1-3 observed states in random order, random ordered subsets of parameters and states, five weight forms for Square/Normal '
                    'and unit weights otherwise, methods default/dopri5/vode/dop853, spread parameters sigma/shape/k); gradient against central '
                    'differences of cost/costIV (relative step 1e-4, tolerance 1e-4 of the block scale + 20x the step-halving error estimate), '
                    'jac(theta) against finite-difference sensitivities of the independent solution; a case is non-trivial when the '
                    'finite-difference gradient is non-zero, distinct by (model, loss, observed states, target_param, target_state, IV, weight form, method, entry point)',
            'bound': '5 models x 5 loss classes x up to 7 core shapes + %d random shapes; 6-9 observation times each' % N_RANDOM[tier == 'quick']}


def replay(c):
    case = c['case']
    try:
        bad = check_case(case)
    except Exception as e:
        bad = ["raises %s: %s" % (type(e).__name__, str(e)[:300])]
    return {'reproduced': bool(bad), 'observed': bad[:4], 'input': case}
