"""Bounded stand-in for C08: random histories of model modifications interleaved with evaluations; after every step
every evaluator of the modified model is compared with the same evaluator of a FRESHLY constructed model with the same
final definition, in a random order (so that the master evaluator does not always heal the others first).
Bounded, never counted as proved."""
import numpy as np

EVALS = ['ode', 'jacobian', 'grad', 'pureOdeVector', 'vMat', 'eventRateVector', 'transitionMean', 'transitionVar', 'transitionJacobian',
         'diff_jacobian', 'grad_jacobian']
STATES, PARAMS = ['S', 'I', 'R'], ['beta', 'gamma', 'mu']


def _mk(pm, op):
    k = op['kind']
    T = pm.Transition
    if k == 'add_transition':
        return ('add_transition', T(origin=op['o'], destination=op['d'], equation=op['eq'], transition_type='T'))
    if k == 'add_event':
        return ('add_event', pm.Event(rate=op['eq'], transition_list=[T(origin=op['o'], destination=op['d'], transition_type='T', magnitude=op.get('mag', '1'))]))
    if k == 'add_event_transition':
        return ('add_event', T(origin=op['o'], destination=op['d'], equation=op['eq'], transition_type='T'))
    if k == 'add_birth':
        return ('add_birth_death', T(destination=op['d'], equation=op['eq'], transition_type='B'))
    if k == 'add_death':
        return ('add_birth_death', T(origin=op['o'], equation=op['eq'], transition_type='D'))
    if k == 'add_ode':
        return ('add_ode', T(origin=op['o'], equation=op['eq'], transition_type='ODE'))
    raise ValueError(k)


def build(pm, ou, ops_done, params, extra_params):
    from contracts import native
    with native.quiet():
        m = pm.SimulateOde(STATES, PARAMS + extra_params)
        m._SC = ou.compileCode(backend='lambda')
        for op in ops_done:
            if op['kind'] in ('param_values', 'evaluate', 'add_param'):
                continue
            meth, arg = _mk(pm, op)
            getattr(m, meth)(arg)
        m.parameters = list(params)
    return m


def random_history(rng, length):
    ops = []
    rates = ['beta*S*I', 'gamma*I', 'mu*R', 'mu', 'beta*S', 'gamma*R*S']
    for k in range(length):
        kind = ['add_transition', 'add_event', 'add_event_transition', 'add_birth', 'add_death', 'add_ode', 'param_values', 'evaluate', 'evaluate', 'add_param'][int(rng.randint(10))]
        o, d = rng.choice(3, size=2, replace=False)
        ops.append({'kind': kind, 'o': STATES[o], 'd': STATES[d], 'eq': rates[int(rng.randint(len(rates)))] if kind != 'add_ode' else '-mu*%s' % STATES[o],
                    'mag': str(int(rng.randint(1, 3))), 'vals': [round(float(v), 3) for v in rng.uniform(0.1, 2.0, size=6)],
                    'order': rng.permutation(len(EVALS)).tolist(), 'subset': int(rng.randint(1, len(EVALS) + 1))})
    return ops


def run_history(ops, seed):
    from contracts import native
    pm, ou = native.imp('pygom.model'), native.imp('pygom.model.ode_utils')
    rng = np.random.RandomState(seed)
    with native.quiet():
        m = pm.SimulateOde(STATES, PARAMS)
        m._SC = ou.compileCode(backend='lambda')
    extra = []
    vals = [0.7, 0.3, 0.1]
    m.parameters = list(vals)
    done = []
    x, t = np.array([5.0, 3.0, 2.0]), 0.4
    bad = []
    for k, op in enumerate(ops):
        kind = op['kind']
        with native.quiet():
            if kind == 'param_values':
                vals = op['vals'][:len(PARAMS) + len(extra)]
                m.parameters = list(vals)
            elif kind == 'add_param':
                name = 'q%d' % len(extra)
                extra.append(name)
                m.param_list = [name]
                vals = vals + [0.5]
                m.parameters = list(vals)
            elif kind != 'evaluate':
                meth, arg = _mk(pm, op)
                getattr(m, meth)(arg)
        done.append(op)
        if not any(o['kind'] not in ('param_values', 'evaluate', 'add_param') for o in done):
            continue
        fresh = build(pm, ou, done, vals, extra)
        names = [EVALS[i] for i in op['order']]       # every evaluator, in a random order (the master evaluator heals the others when it runs first)
        for nm in names:
            try:
                with native.quiet():
                    a = np.asarray(getattr(m, nm)(x, t), float)
                    b = np.asarray(getattr(fresh, nm)(x, t), float)
            except Exception as e:
                bad.append("step %d (%s): %s raises %s: %s" % (k, kind, nm, type(e).__name__, str(e)[:80]))
                return bad
            if a.shape != b.shape or not np.allclose(a, b, rtol=1e-12, atol=1e-12):
                bad.append("step %d (after %s): %s of the modified model = %s, a fresh model with the same definition gives %s"
                           % (k, kind, nm, a.ravel().tolist()[:6], b.ravel().tolist()[:6]))
                return bad
    return bad


MUTATOR_KINDS = ['add_transition', 'add_event', 'add_event_transition', 'add_birth', 'add_death', 'add_ode', 'add_param']


def directed(rng):
    """for every (mutator, evaluator) pair: compile everything with the master first, apply the mutator, then evaluate
    that evaluator FIRST (before the master can heal it)"""
    out = []
    base = random_history(rng, 1)[0]
    for mk in MUTATOR_KINDS:
        for e in range(len(EVALS)):
            first = dict(base, kind='add_transition', o='S', d='I', eq='beta*S*I',
                         order=[EVALS.index('ode')] + [i for i in rng.permutation(len(EVALS)).tolist() if i != EVALS.index('ode')])
            o, d = rng.choice(3, size=2, replace=False)
            second = dict(base, kind=mk, o=STATES[o], d=STATES[d], eq=('-mu*%s' % STATES[o]) if mk == 'add_ode' else 'gamma*%s' % STATES[o],
                          order=[e] + [i for i in rng.permutation(len(EVALS)).tolist() if i != e])
            out.append([first, second])
    return out


def run(tier='quick', seed=0):
    rng = np.random.RandomState(seed)
    n = 8 if tier == 'quick' else 40
    evals, failures, samples, distinct = 0, [], [], set()
    hist = directed(rng) + [random_history(rng, int(rng.randint(3, 9))) for _ in range(n)]
    for k, ops in enumerate(hist):
        try:
            bad = run_history(ops, seed + k)
        except Exception as e:
            bad = ["raises %s: %s" % (type(e).__name__, e)]
        evals += 1
        kinds = tuple(o['kind'] for o in ops)
        if sum(1 for q in kinds if q.startswith('add_')) >= 2:
            distinct.add(kinds)
        if bad:
            failures.append({'key': 'history %d' % k, 'case': {'ops': ops, 'seed': seed + k}, 'observed': bad[:3]})
        elif len(samples) < 2:
            samples.append(list(kinds))
    return {'evaluations': evals, 'distinct_nontrivial': len(distinct), 'failures': failures, 'samples': samples,
            'rule': 'directed histories for every (mutator kind, evaluator) pair (compile all, mutate, evaluate that evaluator first) and seeded random histories (3-8 operations: add_transition / add_event / add_birth_death / add_ode / new parameter / new parameter values / evaluate) on a '
                    '3-state model; after every step all 11 evaluators, in random order, are compared with a freshly built model with the same '
                    'definition; non-trivial = at least two modifications; distinct by operation sequence',
            'bound': '%d directed (mutator, evaluator) pair histories + %d random histories of at most 8 operations' % (len(MUTATOR_KINDS) * len(EVALS), n)}


def replay(c):
    bad = run_history(c['case']['ops'], c['case']['seed'])
    return {'reproduced': bool(bad), 'observed': bad[:3], 'input': c['case']}
