"""Bounded stand-in for C18: BaseLoss.fit stays inside the box, never returns a point worse than its start,
returns the generating parameters when started there on noise-free data, and hands scipy.optimize.minimize
the cost, the sensitivity gradient, the supplied start, the (lb[i], ub[i]) pairs and L-BFGS-B.
Bounded, never counted as proved."""
import inspect
import numpy as np
from standins import c06

LOSSES_QUICK = ('Square', 'Normal')
LOSSES_THOROUGH = ('Square', 'Normal', 'Gamma', 'Poisson')
OBS = {'SIR': [['I'], ['R', 'I'], ['I', 'R']], 'decay': ['x', ['x']], 'SEIR': [['I'], ['R', 'E'], ['E', 'I', 'R']],
       'BD': [['B', 'A'], ['A']]}


def ref_cost(case, theta):
    """the stated loss on the independent (odeint 1e-11) trajectory"""
    y = np.asarray(case['y'], float)
    yh = c06.observed(case['model'], c06.trajectory(case['model'], theta, case['x0'], case['t0'], case['grid']), case['obs'])
    return c06.kernel(case['loss'], y, yh, case.get('weights'), case.get('spread'))


def bound_pairs(b):
    if b is None:
        return None
    if hasattr(b, 'lb') and hasattr(b, 'ub'):
        return [(float(l), float(u)) for l, u in zip(np.atleast_1d(b.lb), np.atleast_1d(b.ub))]
    return [(None if l is None else float(l), None if u is None else float(u)) for l, u in list(b)]


def check_case(case):
    import scipy.optimize
    from contracts import native
    bl = native.imp('pygom.loss.base_loss')
    bad, info = [], {}
    obj = c06.make_loss(case)
    x = np.array(case['x'], float)
    lb, ub = [float(v) for v in case['lb']], [float(v) for v in case['ub']]

    real = scipy.optimize.minimize
    rec = []

    def recorder(*a, **kw):
        try:
            rec.append(dict(inspect.signature(real).bind(*a, **kw).arguments))
        except TypeError:
            rec.append(dict(kw))
        return real(*a, **kw)

    had = hasattr(bl, 'minimize')
    old_bl = getattr(bl, 'minimize', None)
    xhat, raised = None, None
    try:
        if had:
            bl.minimize = recorder
        scipy.optimize.minimize = recorder
        with native.quiet():
            if case.get('full_output'):
                out = obj.fit(x.copy(), list(lb), list(ub), full_output=True)
                xhat = out[0]
            else:
                xhat = obj.fit(x.copy(), list(lb), list(ub))
    except Exception as e:
        raised = "fit(x=%s, lb=%s, ub=%s) raises %s: %s" % (x.tolist(), lb, ub, type(e).__name__, e)
    finally:
        scipy.optimize.minimize = real
        if had:
            bl.minimize = old_bl

    # ---- wiring, as recorded at the optimiser's entry
    if not rec:
        bad.append("fit did not call scipy.optimize.minimize (recorder not reached)")
    else:
        a = rec[0]
        if str(a.get('method')).upper() != 'L-BFGS-B':
            bad.append("minimize called with method=%r, expected 'L-BFGS-B' when no linear constraint is given" % (a.get('method'),))
        x0 = np.asarray(a.get('x0'), float).ravel()
        if x0.shape != x.shape or not np.array_equal(x0, x):
            bad.append("minimize started at x0=%s, not at the supplied x=%s" % (x0.tolist(), x.tolist()))
        try:
            pairs = bound_pairs(a.get('bounds'))
        except Exception as e:
            pairs = 'unreadable (%s)' % e
        if pairs != [(l, u) for l, u in zip(lb, ub)]:
            bad.append("minimize called with bounds=%s, expected the pairs (lb[i], ub[i]) = %s" % (pairs, [(l, u) for l, u in zip(lb, ub)]))
        if a.get('constraints'):
            bad.append("minimize called with constraints=%r although no linear constraint was given" % (a.get('constraints'),))
        xp = np.array(case['probe'], float)
        want = ref_cost(case, xp)
        fun, jac = a.get('fun'), a.get('jac')
        try:
            with native.quiet():
                fv = fun(xp.copy())
                cv = obj.cost(xp.copy())
            if not callable(jac):
                fval = float(fv[0]) if jac is True else float(fv)
            else:
                fval = float(fv)
            if not (abs(fval - float(cv)) <= 1e-12 * max(1.0, abs(float(cv)))) or not (abs(fval - want) <= 1e-6 * max(1.0, abs(want))):
                bad.append("fun(probe=%s) = %.12g but obj.cost gives %.12g and the stated loss on the independent trajectory %.12g"
                           % (xp.tolist(), fval, float(cv), want))
        except Exception as e:
            bad.append("fun passed to minimize raises %s: %s" % (type(e).__name__, e))
        if not (callable(jac) or jac is True):
            bad.append("minimize called with jac=%r: the optimiser is not given the sensitivity gradient" % (jac,))
        else:
            try:
                with native.quiet():
                    g = np.asarray(jac(xp.copy()) if callable(jac) else fun(xp.copy())[1], float).ravel()
                    gs = np.asarray(obj.sensitivity(xp.copy()), float).ravel()
                fd = np.zeros(len(xp))
                for i in range(len(xp)):
                    h = 1e-4 * max(abs(xp[i]), 0.1)
                    e = np.zeros(len(xp))
                    e[i] = h
                    fd[i] = (ref_cost(case, xp + e) - ref_cost(case, xp - e)) / (2 * h)
                info['grad_rel_err'] = float(np.linalg.norm(g - fd) / max(np.linalg.norm(fd), 1e-12)) if g.shape == fd.shape else None
                if g.shape != gs.shape or not np.allclose(g, gs, rtol=1e-9, atol=1e-9 * max(1.0, float(np.linalg.norm(gs)))):
                    bad.append("jac(probe) = %s but obj.sensitivity(probe) = %s" % (g.tolist(), gs.tolist()))
                elif np.linalg.norm(g - fd) > 1e-3 * np.linalg.norm(fd) + 1e-6:
                    bad.append("jac(probe=%s) = %s but central differences of the stated loss on the independent trajectory give %s"
                               % (xp.tolist(), g.tolist(), fd.tolist()))
            except Exception as e:
                bad.append("jac passed to minimize raises %s: %s" % (type(e).__name__, e))

    # ---- the returned point
    if raised:
        bad.append(raised)
    else:
        xh = np.asarray(xhat, float).ravel()
        if xh.shape != x.shape or not np.all(np.isfinite(xh)):
            bad.append("fit returned %s for a start of length %d" % (np.asarray(xhat).tolist(), len(x)))
        else:
            L, U = np.array(lb), np.array(ub)
            if np.any(xh < L - 1e-12) or np.any(xh > U + 1e-12):
                bad.append("fit returned %s outside the box lb=%s, ub=%s" % (xh.tolist(), lb, ub))
            with native.quiet():
                c_hat = float(obj.cost(xh.copy()))
                c_x = float(obj.cost(x.copy()))
            info['c_x'], info['c_hat'] = c_x, c_hat
            if not (c_hat <= c_x + 1e-12 * max(1.0, abs(c_x))):
                bad.append("fit returned %s with cost %.15g, worse than the start %s with cost %.15g" % (xh.tolist(), c_hat, x.tolist(), c_x))
            r_hat, r_x = ref_cost(case, xh), ref_cost(case, x)
            if not (r_hat <= r_x + 1e-6 * max(1.0, abs(r_x))):
                bad.append("stated loss on the independent trajectory: %.12g at the returned point %s, %.12g at the start %s"
                           % (r_hat, xh.tolist(), r_x, x.tolist()))
            if case['kind'] == 'truth':
                tr = np.array(case['theta_true'], float)
                info['truth_rel'] = float(np.max(np.abs(xh - tr) / np.abs(tr)))
                if np.any(np.abs(xh - tr) > 1e-4 * np.abs(tr)):
                    bad.append("started at the generating parameters %s of noise-free data, fit returned %s" % (tr.tolist(), xh.tolist()))
    return bad, info


# ---------------------------------------------------------------------------------------------------
def make_case(rng, name, loss, obs, kind, full_output=False):
    d = c06.MODELS[name]
    nP = len(d['params'])
    n = int(rng.randint(6, 10))
    t0 = float(rng.choice([0.0, 0.4]))
    grid = (t0 + np.cumsum(rng.uniform(0.2, 1.4, size=n))).tolist()
    x0 = [float(v * rng.uniform(0.8, 1.2)) for v in d['x0']]
    true = c06.draw_theta(rng, name)
    ctor = c06.draw_theta(rng, name)                       # what the model holds / the constructor gets: not the start
    # asymmetric box, different for every parameter
    lb = [float(lo * rng.uniform(0.05, 0.5)) for lo in d['plo']]
    ub = [float(hi * rng.uniform(1.5, 3.5)) for hi in d['phi']]
    mean = c06.observed(name, c06.trajectory(name, true, x0, t0, grid), obs)
    p = len(c06.as_list(obs))
    if kind == 'truth':
        y = mean.copy()
        x = list(true)
    else:
        y = rng.poisson(mean).astype(float) if loss == 'Poisson' else mean * rng.uniform(0.85, 1.18, size=mean.shape)
        u = rng.uniform(0.05, 0.95, size=nP)
        if kind == 'near_lb':
            u[int(rng.randint(nP))] = 1e-3
        elif kind == 'near_ub':
            u[int(rng.randint(nP))] = 1 - 1e-3
        elif kind == 'corner':
            u = np.where(rng.randint(2, size=nP) == 1, 1 - 1e-3, 1e-3)
        x = [float(l + ui * (h - l)) for l, h, ui in zip(lb, ub, u)]
    spread = None
    if loss == 'Normal':
        spread = c06.make_value(rng, 'scalar' if rng.randint(2) else 'state', n, p, 0.5, 3.0)
    elif loss == 'Gamma':
        spread = float(rng.uniform(2.5, 8.0))
    probe = [float(l + q * (h - l)) for l, h, q in zip(lb, ub, rng.uniform(0.2, 0.5, size=nP))]
    return {'model': name, 'loss': loss, 'obs': obs, 'x0': x0, 't0': t0, 'grid': grid, 'y': np.asarray(y).tolist(),
            'weights': None, 'spread': spread, 'target_param': None, 'target_state': None,
            'theta_model': ctor, 'theta_true': true, 'x': x, 'lb': lb, 'ub': ub, 'kind': kind, 'probe': probe,
            'full_output': bool(full_output)}


def cases(tier, seed):
    rng = np.random.RandomState(seed)
    out = []
    pick = lambda seq: seq[int(rng.randint(len(seq)))]
    if tier == 'quick':
        plan = [('SIR', loss, kind) for loss in LOSSES_QUICK for kind in ('truth', 'random', 'near_lb', 'near_ub', 'corner', 'random', 'truth', 'corner')]
    else:
        plan = []
        for name, reps in (('SIR', 5), ('decay', 2), ('SEIR', 3), ('BD', 2)):
            for loss in LOSSES_THOROUGH:
                kinds = ['random', 'near_lb', 'near_ub', 'corner', 'random'] + ([] if loss == 'Poisson' else ['truth'])
                for r in range(reps):
                    for kind in kinds:
                        plan.append((name, loss, kind))
    for k, (name, loss, kind) in enumerate(plan):
        out.append(make_case(rng, name, loss, pick(OBS[name]), kind, full_output=(k % 3 == 2)))
    return out


def zero_bound_wiring():
    """bounds that contain 0, negative and equal entries must reach the optimiser unchanged (recorder in place of minimize)"""
    from contracts import c18 as _c18
    r = _c18.replay_fit(None, None)
    return r['observed'] if r['reproduced'] else []


def run(tier='quick', seed=0):
    evals, failures, samples, distinct = 0, [], [], set()
    cs = cases(tier, seed)
    for c in cs:
        try:
            bad, info = check_case(c)
        except Exception as e:
            bad, info = ["raises %s: %s" % (type(e).__name__, e)], {}
        evals += 1
        moved = 'c_x' in info and info['c_hat'] < info['c_x'] - 1e-9 * max(1.0, abs(info['c_x']))
        if c['kind'] == 'truth' or moved:
            distinct.add(repr((c['model'], c['loss'], c['obs'], [round(v, 9) for v in c['x']], [round(v, 9) for v in c['lb']], [round(v, 9) for v in c['ub']])))
        if bad:
            failures.append({'key': '%s %sLoss fit start=%s' % (c['model'], c['loss'], c['kind']), 'case': c, 'observed': bad[:5]})
        elif len(samples) < 2:
            samples.append(c)
    try:
        zb = zero_bound_wiring()
    except Exception as e:
        zb = ["raises %s: %s" % (type(e).__name__, e)]
    evals += 1
    if zb:
        failures.append({'key': 'bounds with zero / negative / equal entries reach the optimiser', 'case': {'kind': 'zero-bound-wiring'}, 'observed': zb[:3]})
    return {'evaluations': evals, 'distinct_nontrivial': len(distinct), 'failures': failures, 'samples': samples,
            'rule': 'corpus models of the C06 stand-in (quick: SIR; thorough: SIR, one-state decay, 4-state SEIR, 2-state birth-death), SquareLoss and NormalLoss '
                    '(thorough also GammaLoss, PoissonLoss), 1-3 observed states, noisy data, a different asymmetric box per parameter, starts random / within 1e-3 of a lower or upper '
                    'bound / in a corner / at the generating parameters of noise-free data; the model holds a third parameter point.  Each fit runs through a recorder on '
                    'scipy.optimize.minimize (base_loss.minimize): fun == cost (and == the stated loss on an odeint trajectory), jac == sensitivity (and matches central differences '
                    'of that stated loss at 1e-3), x0 == x, bounds[i] == (lb[i], ub[i]), L-BFGS-B, no constraints; the returned point is inside the box (1e-12), its cost <= the '
                    'start cost (1e-12 rel., also on the independent trajectory at 1e-6), and equals the generating parameters (1e-4 rel.) for the noise-free starts.  '
                    'Non-trivial: the fit strictly lowered the cost or the start is the generating point; distinct by (model, loss, states, start, box).',
            'bound': '%d fits (%s tier)' % (evals, tier)}


def replay(c):
    case = c['case']
    if case.get('kind') == 'zero-bound-wiring':
        zb = zero_bound_wiring()
        return {'reproduced': bool(zb), 'observed': zb[:3], 'input': case}
    try:
        bad, _ = check_case(case)
    except Exception as e:
        bad = ["raises %s: %s" % (type(e).__name__, e)]
    return {'reproduced': bool(bad), 'observed': bad[:5], 'input': case}
