"""Bounded stand-in for C14 (and native replay of its contracts): the real loss classes against
scipy.stats log-densities and finite differences.  Bounded, never counted as proved."""
import numpy as np

CLASSES = ('Square', 'Normal', 'Poisson', 'Gamma', 'NegBinom')
SPREAD_KW = {'Normal': 'sigma', 'Gamma': 'shape', 'NegBinom': 'k'}


def ref_kernel(cls, y, m, s, w):
    import scipy.stats as st
    if cls == 'Square':
        return (w * (y - m)) ** 2
    if cls == 'Normal':
        return 0.5 * np.log(2 * np.pi) + np.log(s) + (w * (y - m)) ** 2 / (2 * s ** 2)
    if cls == 'Poisson':
        return -st.poisson.logpmf(y, m)
    if cls == 'Gamma':
        return -st.gamma.logpdf(y, a=s, scale=m / s)
    if cls == 'NegBinom':
        return -st.nbinom.logpmf(y, n=s, p=s / (s + m))
    raise KeyError(cls)


def smooth_kernel(cls, y, m, s):
    """kernel as a smooth function of m (Poisson / NegBinom pmf are smooth in the mean)"""
    return ref_kernel(cls, y, m, s, 1.0)


def case(cls, method, shape_kind, weighted, n=4, p=2, seed=0, spread_kind='array', y_dtype='real'):
    """returns (bad, description): list of violated clauses on one random valid data set"""
    from contracts import native
    lt = native.imp('pygom.loss.loss_type')
    rng = np.random.RandomState(seed)
    shp = (n, p) if shape_kind == 'matrix' else (n,)
    if cls in ('Poisson', 'NegBinom'):
        y = rng.randint(1, 15, size=shp).astype(float)
    else:
        y = rng.uniform(0.5, 9, size=shp)
    m = rng.uniform(0.5, 9, size=shp)
    w = rng.uniform(0.5, 2.0, size=shp) if weighted else None
    s = rng.uniform(0.6, 3.0, size=shp) if cls in SPREAD_KW else None
    if y_dtype == 'int':
        y = y.astype(int)
    ycall = y.copy()
    y = y.astype(float)
    kw = {}
    if s is not None:
        if spread_kind == 'array':
            kw = {SPREAD_KW[cls]: s.copy()}
        elif spread_kind == 'scalar':
            sc = float(rng.uniform(0.6, 3.3))
            kw = {SPREAD_KW[cls]: sc}
            s = sc * np.ones(shp)
        else:
            s = {'Normal': 1.0, 'Gamma': 2.0, 'NegBinom': 1.0}[cls] * np.ones(shp)
    args = [ycall] + ([w.copy()] if weighted else [None])
    desc = {'class': cls, 'method': method, 'shape': shape_kind, 'weighted': weighted, 'spread_kind': spread_kind, 'y_dtype': y_dtype, 'y': y.tolist(), 'yhat': m.tolist(),
            'weights': None if w is None else w.tolist(), 'spread': None if s is None else s.tolist()}
    bad = []
    try:
        obj = getattr(lt, cls)(*args, **kw)
        yhat = m.reshape((n, 1)) if shape_kind == 'column' else m.copy()
        W = w if weighted else np.ones(shp)
        S = s if s is not None else np.ones(shp)
        if method == 'loss':
            got = obj.loss(yhat)
            uses_w = cls in ('Square', 'Normal')
            ref = ref_kernel(cls, y, m, S, W if uses_w else 1.0).sum()
            if not np.isclose(got, ref, rtol=1e-9, atol=1e-10):
                bad.append("loss=%r but reference=%r" % (float(got), float(ref)))
        else:
            if method == 'diff_loss':
                got = obj.diff_loss(yhat) if weighted else obj.diff_loss(yhat, apply_weighting=False)
            else:
                got = obj.diff2Loss(yhat)
            got = np.asarray(got)
            if got.shape != y.shape:
                bad.append("%s has shape %s but y has shape %s" % (method, got.shape, y.shape))
            else:
                h = 1e-4
                f = lambda mm: smooth_kernel(cls, y, mm, S)
                if method == 'diff_loss':
                    ref = (f(m + h) - f(m - h)) / (2 * h)
                    if weighted:
                        ref = W * ref
                    tol = 1e-5
                else:
                    ref = (f(m + h) - 2 * f(m) + f(m - h)) / h ** 2
                    tol = 2e-3
                if not np.allclose(got, ref, rtol=tol, atol=tol):
                    bad.append("%s differs from the finite difference of the reference kernel: max abs err %.3g" % (method, float(np.max(np.abs(got - ref)))))
    except Exception as e:
        bad.append("raises %s: %s" % (type(e).__name__, e))
    return bad, desc


def run(tier='quick', seed=0):
    reps = 1 if tier == 'quick' else 6
    evals, failures, samples, distinct = 0, [], [], set()
    for cls in CLASSES:
        for method in ('loss', 'diff_loss', 'diff2Loss'):
            for sk in ('vector', 'column', 'matrix'):
                for weighted in ((False, True) if (method != 'diff2Loss' and sk == 'vector') else (False,)):
                    variants = [('array', 'real')]
                    if sk == 'vector' and not weighted:
                        if cls in SPREAD_KW:
                            variants += [('scalar', 'real'), ('default', 'real')]
                        if cls in ('Poisson', 'NegBinom'):
                            variants += [('scalar' if cls in SPREAD_KW else 'array', 'int')]
                    for spk, ydt in variants:
                        for r in range(reps):
                            bad, desc = case(cls, method, sk, weighted, n=3 + r, seed=seed + 17 * r, spread_kind=spk, y_dtype=ydt)
                            evals += 1
                            distinct.add((cls, method, sk, weighted, spk, ydt, r))
                            if bad:
                                failures.append({'key': '%s.%s/%s%s/%s/%s' % (cls, method, sk, '/weights' if weighted else '', spk, ydt), 'case': desc, 'observed': bad})
                            elif len(samples) < 3:
                                samples.append({k: desc[k] for k in ('class', 'method', 'shape', 'weighted', 'y', 'yhat')})
    return {'evaluations': evals, 'distinct_nontrivial': len(distinct), 'failures': failures, 'samples': samples,
            'rule': 'seeded random valid data (y, yhat > 0, integer counts for Poisson/NegBinom, spread in (0.6,3)), every class x method x input shape; loss against scipy.stats log-densities, derivatives against central finite differences of the reference kernel; distinct by (class, method, shape, weights, size)',
            'bound': '%d data sets per (class, method, shape)' % reps}


def replay(c):
    d = c['case']
    bad, desc = case(d['class'], d['method'], d['shape'], d['weighted'], n=len(d['y']), seed=0, spread_kind=d.get('spread_kind', 'array'), y_dtype=d.get('y_dtype', 'real'))
    # replays re-draw the same seeded data for that size; report what is observed now
    return {'reproduced': bool(bad), 'observed': bad, 'input': desc}
