#!/usr/bin/env python3
"""Re-run the checks against every kept seeded change on a scratch copy of /repo/src (/repo itself untouched, so this can run
while other checks use /repo).  usage: .venv/bin/python seeded_recheck.py [id ...] [--jobs=N]
Writes seeded/RECHECK.json: per change the checks run, their exit codes and the first VIOLATION line."""
import json, os, re, shutil, subprocess, sys, tempfile
from concurrent.futures import ThreadPoolExecutor
HERE = os.path.dirname(os.path.abspath(__file__))
ids = [a for a in sys.argv[1:] if not a.startswith('--')] or sorted(d for d in os.listdir(os.path.join(HERE, 'seeded')) if os.path.isdir(os.path.join(HERE, 'seeded', d)))
jobs = int(([a[7:] for a in sys.argv[1:] if a.startswith('--jobs=')] or ['2'])[0])


def one(sid):
    d = os.path.join(HERE, 'seeded', sid)
    meta = json.load(open(os.path.join(d, 'meta.json')))
    pids = re.findall(r'vcheck (C\d\d)', meta.get('our_checks', '')) or [sid[:3]]
    tmp = tempfile.mkdtemp(prefix='seeded-re-', dir='/var/tmp')
    out = {'id': sid, 'checks': []}
    try:
        shutil.copytree('/repo/src', os.path.join(tmp, 'src'), ignore=shutil.ignore_patterns('__pycache__', 'build'))
        r = subprocess.run(['patch', '-p1', '-s', '-d', tmp, '-i', os.path.join(d, 'patch.diff')], capture_output=True, text=True)
        if r.returncode != 0:
            out['error'] = 'patch does not apply: ' + (r.stdout + r.stderr)[-300:]
            return out
        for pid in pids:
            env = dict(os.environ, PYVC_REPO_SRC=os.path.join(tmp, 'src'), PYVC_OUT_DIR=tmp, PYVC_NO_SELFTEST='1')
            r = subprocess.run([os.path.join(HERE, 'vcheck'), pid, '--tier', 'quick'], env=env, capture_output=True, text=True)
            viol = [l for l in r.stdout.splitlines() if l.startswith('VIOLATION')]
            out['checks'].append({'check': pid, 'exit': r.returncode, 'violations': len(viol),
                                  'first': (re.sub(r'replay=\S+ ', '', viol[0])[:260] if viol else ''),
                                  'summary': ([l for l in r.stdout.splitlines() if l.startswith(pid + ' tier=')] or [''])[-1]})
        out['detected'] = any(c['exit'] == 1 and c['violations'] for c in out['checks'])
    finally:
        shutil.rmtree(tmp, ignore_errors=True)
    print(sid, 'DETECTED' if out.get('detected') else 'MISSED', [(c['check'], c['exit']) for c in out['checks']], flush=True)
    return out


with ThreadPoolExecutor(jobs) as ex:
    res = list(ex.map(one, ids))
path = os.path.join(HERE, 'seeded', 'RECHECK.json')
old = {}
if os.path.exists(path):
    old = {r['id']: r for r in json.load(open(path))}
for r in res:
    old[r['id']] = r
json.dump([old[k] for k in sorted(old)], open(path, 'w'), indent=1)
print('detected %d / %d' % (sum(1 for r in res if r.get('detected')), len(res)))
