"""Library models: python builtins, numpy, scipy, sympy fragments used by pygom.

Every function here is an *assumed contract* on a dependency (DESIGN.md section 2.4).  A model
that is used on a path records its name in ctx.trusted, so that the evidence lists exactly the
assumptions the proof of that property rests on.
"""
import ast
import z3

from .values import *  # noqa
from . import values as V


def _idx_tuple(idx):
    return idx if isinstance(idx, tuple) else (idx,)


def dim_eq(a, b):
    """syntactic/decidable equality of two dimensions -> True/False/None(unknown)"""
    if isinstance(a, int) and isinstance(b, int):
        return a == b
    s = z3.simplify(to_num(a) == to_num(b))
    if z3.is_true(s):
        return True
    if z3.is_false(s):
        return False
    return None


# =============================================================================================
# sequences of symbolic length

class SList(Model):
    """Immutable sequence with symbolic length; element(k) is a python closure."""
    tags = frozenset({'list'})

    def __init__(self, length, element, tags=None):
        self.length = length
        self.element = element
        if tags is not None:
            self.tags = frozenset(tags)

    def py_len(self, it):
        return self.length

    def py_iter(self, it):
        if isinstance(self.length, int):
            return [self.element(z3.IntVal(i)) for i in range(self.length)]
        return SymIter(self.length, self.element)

    def py_truth(self, it):
        return to_num(self.length) != 0

    def py_getitem(self, it, idx):
        if isinstance(idx, slice):
            lo = 0 if idx.start is None else idx.start
            hi = self.length if idx.stop is None else idx.stop
            if idx.step is not None:
                raise Unsupported("slice step")
            lo = norm_index(it, lo, self.length, clamp=True)
            hi = norm_index(it, hi, self.length, clamp=True)
            lo, hi = clamp_slice(it, lo, hi, self.length)
            base = self.element
            ln = z3.If(to_num(hi) - to_num(lo) >= 0, to_num(hi) - to_num(lo), z3.IntVal(0))
            return SList(z3.simplify(ln), lambda k: base(z3.simplify(k + to_num(lo))), self.tags)
        k = norm_index(it, idx, self.length)
        it.ctx.oblige("safety/index-in-range", z3.And(k >= 0, k < to_num(self.length)))
        return self.element(k)

    def py_binop(self, it, op, other, refl):
        # concatenation of numeric sequences (list + list): the elements of both, in order
        if isinstance(op, ast.Add) and isinstance(other, (SList, SMutList, list)):
            def parts(v):
                if isinstance(v, SList):
                    return to_num(v.length), v.element
                if isinstance(v, SMutList):
                    arr = v.arr
                    return to_num(v.length), (lambda k: z3.Select(arr, k))
                vals = list(v)

                def pick(k):
                    # total selection (no range obligation: the caller guards the position)
                    if z3.is_int_value(k) and 0 <= k.as_long() < len(vals):
                        return vals[k.as_long()]
                    if not vals:
                        return z3.RealVal(0)
                    nums = [to_num(x) for x in vals]
                    if any(x is None for x in nums):
                        raise Unsupported("concatenation with a non-numeric python list read at a symbolic position")
                    if len({x.is_int() for x in nums}) > 1:
                        nums = [to_real(x) for x in nums]
                    acc = nums[-1]
                    for j in range(len(nums) - 2, -1, -1):
                        acc = z3.If(k == j, nums[j], acc)
                    return acc
                return z3.IntVal(len(vals)), pick
            a, b = (other, self) if refl else (self, other)
            (la, ea), (lb, eb) = parts(a), parts(b)

            def elem(k):
                k = to_num(k)
                s = z3.simplify(k < la)
                if z3.is_true(s):
                    return ea(k)
                if z3.is_false(s):
                    return eb(z3.simplify(k - la))
                x, y = to_num(ea(k)), to_num(eb(z3.simplify(k - la)))
                if x is None or y is None:
                    raise Unsupported("concatenation of non-numeric symbolic sequences read at a symbolic position")
                if x.is_int() != y.is_int():
                    x, y = to_real(x), to_real(y)
                return z3.If(k < la, x, y)
            return SList(z3.simplify(la + lb), elem, self.tags)
        return NotImplemented

    def py_getattr(self, it, name):
        if name in ('size', 'shape', 'ravel', 'ndim'):
            # a python list / tuple has none of the ndarray attributes
            raise PyRaise(ExcVal('AttributeError', ("'list' object has no attribute '%s'" % name,)))
        raise Unsupported("getattr %s on SList" % name)

    def fresh_like(self, it, hint):
        raise Unsupported("havoc of immutable SList %s" % hint)


def norm_index(it, idx, length, clamp=False):
    """python index (possibly negative) -> z3 Int offset"""
    if isinstance(idx, bool):
        idx = int(idx)
    if isinstance(idx, int):
        if idx < 0:
            return z3.simplify(to_num(length) + idx)
        return z3.IntVal(idx)
    if isinstance(idx, z3.ArithRef):
        if not idx.is_int():
            raise PyRaise(ExcVal('TypeError', ("float index",)))
        s = z3.simplify(idx >= 0)
        if z3.is_true(s):
            return idx
        if it.ctx.branch(idx >= 0, 'index-sign'):
            return idx
        return z3.simplify(to_num(length) + idx)
    raise PyRaise(ExcVal('TypeError', ("bad index %r" % (idx,),)))


def clamp_slice(it, lo, hi, length):
    """python clamps slice bounds to [0, len] and never raises; the plain bounds are kept where they are provably inside"""
    n = to_num(length)
    lo, hi = to_num(lo), to_num(hi)
    inside = z3.And(lo >= 0, lo <= n, hi >= 0, hi <= n)
    if z3.is_true(z3.simplify(inside)) or it.ctx._check(z3.Not(inside))[0] == z3.unsat:
        return lo, hi
    cl = lambda v: z3.If(v < 0, 0, z3.If(v > n, n, v))
    return z3.simplify(cl(lo)), z3.simplify(cl(hi))


class SMutList(Model):
    """Mutable list of scalars with symbolic length: z3 array + length."""
    tags = frozenset({'list'})

    def __init__(self, length, arr, wrap=None):
        self.length = length
        self.arr = arr
        self.wrap = wrap or (lambda t: t)

    def py_len(self, it):
        return self.length

    def py_truth(self, it):
        return to_num(self.length) != 0

    def py_getitem(self, it, idx):
        if isinstance(idx, slice):
            raise Unsupported("slice of SMutList")
        k = norm_index(it, idx, self.length)
        it.ctx.oblige("safety/index-in-range", z3.And(k >= 0, k < to_num(self.length)))
        return self.wrap(z3.Select(self.arr, k))

    def py_setitem(self, it, idx, v):
        k = norm_index(it, idx, self.length)
        it.ctx.oblige("safety/index-in-range", z3.And(k >= 0, k < to_num(self.length)))
        self.arr = z3.Store(self.arr, k, self.coerce(v))

    def coerce(self, v):
        rng = self.arr.sort().range()
        if rng == z3.RealSort():
            return to_real(v)
        if rng == z3.IntSort():
            n = to_num(v)
            if n is None or not n.is_int():
                raise Unsupported("non-int into int list")
            return n
        if rng == z3.BoolSort():
            return z3bool(v)
        raise Unsupported("list element sort")

    def py_getattr(self, it, name):
        if name == 'append':
            def app(it_, a, k):
                self.arr = z3.Store(self.arr, to_num(self.length), self.coerce(a[0]))
                self.length = z3.simplify(to_num(self.length) + 1)
            return Builtin('list.append', app)
        raise Unsupported("list method %s on SMutList" % name)

    def py_iter(self, it):
        arr = self.arr
        return SymIter(self.length, lambda k: self.wrap(z3.Select(arr, k)))

    def py_binop(self, it, op, other, refl):
        # list concatenation: a new list with the elements of both, in order
        if isinstance(op, ast.Add) and isinstance(other, SMutList) and other.arr.sort() == self.arr.sort():
            a, b = (other, self) if refl else (self, other)
            la = to_num(a.length)
            k = z3.Int(it.ctx._name('cat'))
            arr = z3.Lambda([k], z3.If(k < la, z3.Select(a.arr, k), z3.Select(b.arr, k - la)))
            return SMutList(z3.simplify(la + to_num(b.length)), arr, self.wrap)
        return NotImplemented

    def fresh_like(self, it, hint):
        n = it.ctx.fresh_int(hint + "_len")
        it.ctx.assume(n >= 0)
        return SMutList(n, z3.Array(it.ctx._name(hint), z3.IntSort(), self.arr.sort().range()), self.wrap)

    def snapshot(self):
        return SMutList(self.length, self.arr, self.wrap)


class SRowList(Model):
    """python list of equally long numeric rows (arrays / lists) with symbolic length:
    rows(m, s).  `append` copies the row contents at the time of the call (the repository only
    appends rows that are not mutated afterwards; aliasing of rows is not modelled)."""
    tags = frozenset({'list'})

    def __init__(self, length, width, get):
        self.length = length
        self.width = width
        self.get = get          # callable(m, s) -> z3 real

    def py_len(self, it):
        return self.length

    def py_truth(self, it):
        return to_num(self.length) != 0

    def row(self, m):
        g = self.get
        return SArr((self.width,), (lambda m_: (lambda o: g(m_, o[0])))(m))

    def py_getitem(self, it, idx):
        if isinstance(idx, slice):
            raise Unsupported("slice of SRowList")
        k = norm_index(it, idx, self.length)
        it.ctx.oblige("safety/index-in-range", z3.And(k >= 0, k < to_num(self.length)))
        return self.row(k)

    def py_iter(self, it):
        return SymIter(self.length, self.row)

    def py_getattr(self, it, name):
        if name == 'append':
            def app(it_, a, k):
                row = a[0]
                if isinstance(row, SMutList):
                    arr = row.arr
                    rg = lambda s: z3.Select(arr, s)
                    w = row.length
                elif isinstance(row, SArr) and row.rank == 1:
                    # the list holds a REFERENCE: contents are read when the list is read, so a
                    # row that is later mutated in place (an integrator buffer) changes with it
                    rg = lambda s: to_real(row.get((s,)))
                    w = row.shape[0]
                    self.on_append(it_, row)
                else:
                    raise Unsupported("append of %r to a row list" % (row,))
                if self.width is None:
                    self.width = w
                else:
                    it_.ctx.oblige("safety/rows-have-equal-length", to_num(w) == to_num(self.width))
                old, L = self.get, to_num(self.length)
                self.get = lambda m, s: z3.If(m == L, rg(s), old(m, s))
                self.length = z3.simplify(L + 1)
            return Builtin('list.append', app)
        raise Unsupported("list method %s on SRowList" % name)

    def on_append(self, it, row):
        pass

    def fresh_like(self, it, hint):
        n = it.ctx.fresh_int(hint + "_len")
        it.ctx.assume(n >= 0)
        f = it.ctx.fresh_func(hint, z3.IntSort(), z3.IntSort(), z3.RealSort())
        return SRowList(n, self.width, lambda m, s: f(m, s))


class OwnedRowList(SRowList):
    """row list that tracks whether a row IS a watched mutable buffer (aliasing): alias(m) is a
    z3 predicate; a havocked list may alias the buffer anywhere unless the invariant excludes it"""

    def __init__(self, length, width, get, watch, alias):
        SRowList.__init__(self, length, width, get)
        self.watch = watch          # the SArr whose in-place mutation matters
        self.alias = alias          # callable(m) -> z3 Bool
        base = self.get

    def contents(self, m, s):
        return z3.If(self.alias(m), to_real(self.watch.get((s,))), self.get(m, s))

    def row(self, m):
        return SArr((self.width,), (lambda m_: (lambda o: self.contents(m_, o[0])))(m))

    def rewatch(self, new_buf):
        """the watched buffer's owner was dropped (no reference to it remains): rows that alias it
        keep its final contents and count as owned; from now on `new_buf` is the live buffer"""
        if new_buf is self.watch:
            return
        oldw, olda, oldg = self.watch, self.alias, self.get
        self.get = lambda m, s: z3.If(olda(m), to_real(oldw.get((s,))), oldg(m, s))
        self.alias = lambda m: z3.BoolVal(False)
        self.watch = new_buf

    def on_append(self, it, row):
        old, L = self.alias, to_num(self.length)
        is_alias = row is self.watch
        self.alias = lambda m: z3.If(m == L, z3.BoolVal(is_alias), old(m))

    def fresh_like(self, it, hint):
        n = it.ctx.fresh_int(hint + "_len")
        it.ctx.assume(n >= 0)
        f = it.ctx.fresh_func(hint, z3.IntSort(), z3.IntSort(), z3.RealSort())
        a = it.ctx.fresh_func(hint + "_alias", z3.IntSort(), z3.BoolSort())
        return OwnedRowList(n, self.width, lambda m, s: f(m, s), self.watch, lambda m: a(m))


class SOpaqueList(Model):
    """a python list whose contents no contract talks about (only append / len are used)"""
    tags = frozenset({'list'})

    def __init__(self, length=0):
        self.length = length

    def py_len(self, it):
        return self.length

    def py_getattr(self, it, name):
        if name == 'append':
            def app(it_, a, k):
                self.length = z3.simplify(to_num(self.length) + 1)
            return Builtin('list.append', app)
        raise Unsupported("list method %s on an opaque list" % name)

    def fresh_like(self, it, hint):
        n = it.ctx.fresh_int(hint + "_len")
        it.ctx.assume(n >= 0)
        return SOpaqueList(n)


class PropertyProxy(Model):
    """super().prop = value  support"""

    def __init__(self, prop, obj):
        self.prop = prop
        self.obj = obj


# =============================================================================================
# numpy arrays

class SArr(Model):
    """numpy.ndarray: rank, symbolic shape, element function.  Identity = python identity, so
    aliasing and in-place mutation behave as in numpy."""
    tags = frozenset({'ndarray'})

    def __init__(self, shape, get, dtype='real'):
        self.shape = tuple(shape)
        self.get = get              # callable(tuple of z3 Int) -> z3 term
        self.dtype = dtype

    def __repr__(self):
        return "SArr(shape=%s,%s)" % (self.shape, self.dtype)

    @property
    def rank(self):
        return len(self.shape)

    def at(self, *idx):
        return self.get(tuple(to_num(i) for i in idx))

    def copy(self):
        g = self.get
        return SArr(self.shape, g, self.dtype)

    def size(self):
        s = 1
        for d in self.shape:
            s = s * d if isinstance(s, int) and isinstance(d, int) else to_num(s) * to_num(d)
        return s

    def py_len(self, it):
        if self.rank == 0:
            raise PyRaise(ExcVal('TypeError', ("len() of unsized object",)))
        return self.shape[0]

    def py_truth(self, it):
        if self.rank == 0:
            return it.truth(self.get(()))
        if all(isinstance(d, int) and d == 1 for d in self.shape):
            return it.truth(self.get(tuple(z3.IntVal(0) for _ in self.shape)))
        raise PyRaise(ExcVal('ValueError', ("truth value of an array is ambiguous",)))

    def py_iter(self, it):
        if self.rank == 0:
            raise PyRaise(ExcVal('TypeError', ("iteration over a 0-d array",)))
        n = self.shape[0]
        if self.rank == 1:
            elem = lambda k: self.get((k,))
        else:
            base = self
            elem = lambda k: SArr(base.shape[1:], (lambda k_: (lambda rest: base.get((k_,) + rest)))(k), base.dtype)
        if isinstance(n, int):
            return [elem(z3.IntVal(i)) for i in range(n)]
        return SymIter(n, elem)

    def in_range(self, it, k, axis):
        it.ctx.oblige("safety/array-index-in-range", z3.And(k >= 0, k < to_num(self.shape[axis])))

    def py_getitem(self, it, idx):
        idx = _idx_tuple(idx)
        if len(idx) > self.rank:
            raise PyRaise(ExcVal('IndexError', ("too many indices for array: array is %d-dimensional, but %d were indexed" % (self.rank, len(idx)),),
                                 {'IndexError', 'LookupError', 'Exception', 'BaseException'}))
        # boolean mask / fancy index on a single axis
        if len(idx) == 1 and isinstance(idx[0], SArr) and idx[0].dtype == 'bool':
            return MaskedView(self, idx[0], it)
        plan = []   # per source axis: ('fix', k) | ('all', lo, n) | ('fancy', SArr/list)
        out_shape = []
        for ax in range(self.rank):
            ix = idx[ax] if ax < len(idx) else slice(None)
            d = self.shape[ax]
            if isinstance(ix, slice):
                if ix.step is not None:
                    raise Unsupported("slice step")
                lo = z3.IntVal(0) if ix.start is None else norm_index(it, ix.start, d, clamp=True)
                hi = to_num(d) if ix.stop is None else norm_index(it, ix.stop, d, clamp=True)
                if ix.start is None and ix.stop is None:
                    ln = d
                else:
                    # python / numpy clamp slices and never raise.  Where 0 <= lo <= hi <= d is provable the plain length hi - lo is
                    # used (and the fact recorded, as before); otherwise the clamped semantics are modelled exactly -- an
                    # out-of-range slice is legal python, so it must not be reported as a failed obligation
                    inside = z3.And(lo >= 0, lo <= hi, hi <= to_num(d))
                    r_, _m = it.ctx._check(z3.Not(inside))
                    if r_ == z3.unsat:
                        it.ctx.oblige("safety/slice-within-array", inside)
                        ln = z3.simplify(hi - lo)
                    else:
                        dn = to_num(d)
                        cl = lambda v: z3.If(v < 0, 0, z3.If(v > dn, dn, v))
                        lo, hi = z3.simplify(cl(lo)), z3.simplify(cl(hi))
                        ln = z3.simplify(z3.If(hi > lo, hi - lo, 0))
                    if z3.is_int_value(ln):
                        ln = ln.as_long()
                plan.append(('all', lo))
                out_shape.append(ln)
            elif isinstance(ix, (SArr, list, SList, SMutList)):
                fa = ix if isinstance(ix, SArr) else as_array(it, ix)
                if fa.rank != 1:
                    raise Unsupported("fancy index of rank %d" % fa.rank)
                n = fa.shape[0]
                if isinstance(n, int):
                    for j in range(n):
                        self.in_range(it, fa.get((z3.IntVal(j),)), ax)
                else:
                    j = it.ctx.fresh_int('j')
                    it.ctx.oblige("safety/fancy-index-in-range",
                                  z3.ForAll([j], z3.Implies(z3.And(j >= 0, j < n),
                                                            z3.And(fa.get((j,)) >= 0, fa.get((j,)) < to_num(d)))))
                plan.append(('fancy', fa))
                out_shape.append(n)
            else:
                k = norm_index(it, ix, d)
                self.in_range(it, k, ax)
                plan.append(('fix', k))
        base_get = self.get

        def get(o):
            src = []
            j = 0
            for p in plan:
                if p[0] == 'fix':
                    src.append(p[1])
                elif p[0] == 'all':
                    src.append(z3.simplify(o[j] + p[1]))
                    j += 1
                else:
                    src.append(p[1].get((o[j],)))
                    j += 1
            return base_get(tuple(src))
        if not out_shape:
            return get(())
        res = SArr(out_shape, get, self.dtype)
        # basic slicing gives a view in numpy; writes through views are modelled by SubView
        if all(p[0] != 'fancy' for p in plan):
            res.view_of = (self, plan)
        return res

    def py_setitem(self, it, idx, v):
        idx = _idx_tuple(idx)
        if len(idx) == 1 and isinstance(idx[0], SArr) and idx[0].dtype == 'bool':
            mask = idx[0]
            old = self.get
            val = v
            if isinstance(mask, MaskedViewCmp):
                raise Unsupported("x[x[mask] < 0] = v")
            if mask.rank != self.rank:
                raise Unsupported("mask rank")
            if isinstance(val, SArr) and getattr(val, 'mask_obj', None) is mask and hasattr(val, 'aligned'):
                # x[mask] = f(x[mask]): position o receives the value computed from the selected element at o
                al = val.aligned
                self.get = lambda o: z3.If(mask.get(o), al(o), old(o))
                return
            if isinstance(val, SArr) and val.rank > 0 and not shapes_equal(val.shape, self.shape):
                raise Unsupported("masked assignment of an array that is not aligned with the mask")
            self.get = lambda o: z3.If(mask.get(o), elem_of(val, o), old(o))
            return
        if len(idx) > self.rank:
            raise PyRaise(ExcVal('IndexError', ("too many indices for array",), {'IndexError', 'LookupError', 'Exception', 'BaseException'}))
        conds = []   # per axis: function(o_axis) -> (bool cond, index into v)
        fixed = []
        vaxes = []
        for ax in range(self.rank):
            ix = idx[ax] if ax < len(idx) else slice(None)
            d = self.shape[ax]
            if isinstance(ix, slice):
                if ix.start is not None or ix.stop is not None or ix.step is not None:
                    raise Unsupported("partial slice assignment")
                fixed.append(None)
                vaxes.append(ax)
            elif isinstance(ix, (SArr, list)):
                fa = ix if isinstance(ix, SArr) else as_array(it, ix)
                n = fa.shape[0]
                if not isinstance(n, int):
                    raise Unsupported("fancy assignment with symbolic-length index")
                for j in range(n):
                    self.in_range(it, fa.get((z3.IntVal(j),)), ax)
                fixed.append(('fancy', fa, n))
                vaxes.append(ax)
            else:
                k = norm_index(it, ix, d)
                self.in_range(it, k, ax)
                fixed.append(('fix', k))
        old = self.get
        vshape = [self.shape[a] if fixed[a] is None else fixed[a][2] for a in vaxes]
        varr = v if isinstance(v, SArr) else None
        if varr is not None:
            # numpy broadcasting of the value into the target region
            varr = broadcast_to(it, varr, vshape)
            if self.dtype == 'int' and varr.dtype == 'real':
                # a float array stored into an integer array is truncated element by element (numpy casts silently)
                it.ctx.note_trusted("storing float values into an integer-dtype array truncates them toward zero")
                varr = SArr(varr.shape, (lambda g_: (lambda o: coerce_elem(g_(o), 'int')))(varr.get), 'int')

        def get(o):
            cond = []
            vi = []
            for ax in range(self.rank):
                f = fixed[ax]
                if f is None:
                    vi.append(o[ax])
                elif f[0] == 'fix':
                    cond.append(o[ax] == f[1])
                else:
                    raise Unsupported("fancy assignment read-back")
            newv = varr.get(tuple(vi)) if varr is not None else coerce_elem(v, self.dtype)
            if not cond:
                return newv
            return z3.If(z3.And(*cond) if len(cond) > 1 else cond[0], newv, old(o))
        if any(f is not None and f[0] == 'fancy' for f in fixed):
            # E[idx] += ... style with a concrete-length index list
            fa = [f for f in fixed if f is not None and f[0] == 'fancy']
            if self.rank != 1 or len(fa) != 1:
                raise Unsupported("fancy assignment on rank>1")
            fa = fa[0]
            g = old
            for j in range(fa[2]):
                kj = fa[1].get((z3.IntVal(j),))
                vj = varr.get((z3.IntVal(j),)) if varr is not None else coerce_elem(v, self.dtype)
                g = (lambda g_, kj_, vj_: (lambda o: z3.If(o[0] == kj_, vj_, g_(o))))(g, kj, vj)
            self.get = g
        else:
            self.get = get
        aliased_write(it, self)

    def py_getattr(self, it, name):
        if name == 'shape':
            return tuple(self.shape)
        if name == 'size':
            return self.size()
        if name == 'ndim':
            return self.rank
        if name == 'T':
            return transpose(it, self)
        if name in ARRAY_METHODS:
            fn = ARRAY_METHODS[name]
            return Builtin('ndarray.' + name, lambda it_, a, k: fn(it_, self, *a, **k), TRUSTED.get('np.' + name))
        raise Unsupported("ndarray.%s is not modelled" % name)

    def py_binop(self, it, op, other, refl):
        if isinstance(op, ast.MatMult):
            return dot(it, other, self) if refl else dot(it, self, other)
        a, b = (other, self) if refl else (self, other)
        return elementwise(it, op, a, b)

    def py_ibinop(self, it, op, other):
        res = elementwise(it, op, self, other)
        if not shapes_equal(res.shape, self.shape):
            raise PyRaise(ExcVal('ValueError', ("non-broadcastable output operand with shape %s doesn't match the broadcast shape %s" % (self.shape, res.shape),)))
        self.get = res.get
        aliased_write(it, self)
        return self

    def py_unop(self, it, op):
        g = self.get
        if isinstance(op, ast.USub):
            return SArr(self.shape, lambda o: -g(o), self.dtype)
        if isinstance(op, ast.UAdd):
            return self
        if isinstance(op, ast.Invert) and self.dtype == 'bool':
            return SArr(self.shape, lambda o: z3.Not(g(o)), 'bool')
        return NotImplemented

    def py_eq(self, it, other):
        return elementwise(it, ast.Eq(), self, other)

    def fresh_like(self, it, hint):
        return fresh_array(it, hint, self.shape, self.dtype)

    def havoc_inplace(self, it, hint):
        self.get = fresh_array(it, hint, self.shape, self.dtype).get


class MaskedView(SArr):
    """x[mask] for a rank-1 x: the sub-sequence of the elements whose mask is true, in order.
    Modelled as a fresh length m with a strictly increasing source map src:[0,m)->[0,n) whose image is
    exactly the set of indices with mask true."""

    def __init__(self, base, mask, it=None):
        SArr.__init__(self, (None,), None, base.dtype)
        self.base = base
        self.mask = mask
        if it is not None and base.rank == 1 and mask.rank == 1:
            n = to_num(base.shape[0])
            m = it.ctx.fresh_int('nsel')
            src = it.ctx.fresh_func('src', z3.IntSort(), z3.IntSort())
            inv = it.ctx.fresh_func('srcinv', z3.IntSort(), z3.IntSort())
            j, i = z3.Int(it.ctx._name('jm')), z3.Int(it.ctx._name('im'))
            it.ctx.note_trusted("boolean-mask indexing a[mask]: the elements with a true mask, in order")
            it.ctx.assume(z3.And(m >= 0, m <= n))
            it.ctx.assume(z3.ForAll([j], z3.Implies(z3.And(j >= 0, j < m),
                                                    z3.And(src(j) >= 0, src(j) < n, mask.get((src(j),)), inv(src(j)) == j)), patterns=[src(j)]))
            it.ctx.assume(z3.ForAll([i], z3.Implies(z3.And(i >= 0, i < n, mask.get((i,))),
                                                    z3.And(inv(i) >= 0, inv(i) < m, src(inv(i)) == i)), patterns=[inv(i)]))
            self.shape = (m,)
            g0 = base.get            # boolean indexing COPIES: later writes to the base do not show through
            self.get = lambda o: g0((src(o[0]),))
            self.src = src
            # value at a BASE index (for `x[mask] = f(x[mask])`: the right-hand side is aligned with the selected positions)
            self.aligned = lambda o: g0(o)
            self.mask_obj = mask


class MaskedViewCmp(SArr):
    pass


def aliased_write(it, arr):
    """after an in-place write to `arr`: propagate it to whatever arr is (or may be) a view of"""
    if hasattr(arr, 'view_of'):
        parent, plan = arr.view_of
        write_through(it, parent, plan, arr)
    if hasattr(arr, 'view_map'):
        parent, fn = arr.view_map
        g = arr.get
        parent.get = lambda o: g(fn(o))
        aliased_write(it, parent)
    if hasattr(arr, 'maybe_view_of'):
        parent = arr.maybe_view_of
        if getattr(arr, '_is_view', None) is None:
            # both behaviours of numpy are followed: 0 = the result was a copy, 1 = it was a view (the base then changes in a way
            # that is not tracked element by element: its contents become unknown)
            arr._is_view = bool(it.ctx.choose(2, 'reshape-result-is-a-view'))
        if arr._is_view:
            it.ctx.note_trusted("np.reshape / ravel may return a view: an in-place write to the result is also followed as a write to the base (contents of the base unknown afterwards)")
            parent.havoc_inplace(it, 'aliased')
            aliased_write(it, parent)


def write_through(it, parent, plan, view):
    """propagate a write on a basic-slice view to its parent"""
    old = parent.get
    vget = view.get

    def get(o):
        cond = []
        vi = []
        for ax, p in enumerate(plan):
            if p[0] == 'fix':
                cond.append(o[ax] == p[1])
            else:
                lo = p[1]
                j = len(vi)
                n = view.shape[j]
                vi.append(z3.simplify(o[ax] - lo))
                s = z3.simplify(lo == 0)
                if not (z3.is_true(s) and dim_eq(n, parent.shape[ax]) is True):
                    cond.append(z3.And(o[ax] >= lo, o[ax] < lo + to_num(n)))
        if not cond:
            return vget(tuple(vi))
        return z3.If(z3.And(*cond) if len(cond) > 1 else cond[0], vget(tuple(vi)), old(o))
    parent.get = get
    if hasattr(parent, 'view_of'):
        write_through(it, parent.view_of[0], parent.view_of[1], parent)


def coerce_elem(v, dtype):
    if dtype == 'bool':
        return z3bool(v)
    if dtype == 'int':
        n = to_num(v)
        if isinstance(n, z3.ArithRef) and not n.is_int():
            # numpy stores a float into an integer array by truncating it toward zero, silently
            return z3.If(n >= 0, z3.ToInt(n), -z3.ToInt(-n))
        return n
    return to_real(v)


def elem_of(v, o):
    if isinstance(v, SArr):
        return v.get(o[-v.rank:] if v.rank else ())
    return to_num(v)


def shapes_equal(s1, s2):
    if len(s1) != len(s2):
        return False
    return all(dim_eq(a, b) is True for a, b in zip(s1, s2))


def fresh_array(it, hint, shape, dtype='real'):
    sort = {'real': z3.RealSort(), 'int': z3.IntSort(), 'bool': z3.BoolSort()}[dtype]
    f = it.ctx.fresh_func(hint, *([z3.IntSort()] * len(shape) + [sort]))
    if len(shape) == 0:
        c = z3.Const(it.ctx._name(hint), sort)
        return SArr((), lambda o: c, dtype)
    return SArr(shape, lambda o: f(*o), dtype)


def as_array(it, v, dtype=None):
    """np.array(v) / implicit conversion"""
    if isinstance(v, SArr):
        return v
    if isinstance(v, (list, tuple)):
        if len(v) > 0 and all(isinstance(x, (list, tuple, SArr)) for x in v):
            rows = [as_array(it, x) for x in v]
            r0 = rows[0]
            for r in rows[1:]:
                if not shapes_equal(r.shape, r0.shape):
                    raise Unsupported("ragged nested list")
            n = len(rows)

            def get(o):
                res = rows[-1].get(o[1:])
                for i in range(n - 2, -1, -1):
                    res = z3.If(o[0] == i, rows[i].get(o[1:]), res)
                return res
            return SArr((n,) + r0.shape, get, r0.dtype)
        vals = []
        dt = 'int'
        for x in v:
            if isinstance(x, SOpt) or x is None:
                raise Unsupported("array of optionals")
            if isinstance(x, (z3.BoolRef, bool)):
                z = x
                if dt == 'int' and all(isinstance(y, (z3.BoolRef, bool)) for y in v):
                    dt = 'bool'
            n = to_num(x)
            if n is None:
                raise Unsupported("np.array of %r" % (x,))
            if not n.is_int():
                dt = 'real'
            vals.append(n)
        if dt == 'bool':
            vals = [z3bool(x) for x in v]
        elif dt == 'real':
            vals = [to_real(x) for x in vals]
        n = len(vals)
        if n == 0:
            return SArr((0,), lambda o: z3.RealVal(0), 'real')

        def get(o):
            res = vals[-1]
            for i in range(n - 2, -1, -1):
                res = z3.If(o[0] == i, vals[i], res)
            return res
        return SArr((n,), get, dt)
    if isinstance(v, SList):
        # element kinds: scalars or rows
        probe = v.element(z3.Int('probe!'))
        if isinstance(probe, SArr):
            el = v.element
            return SArr((v.length,) + probe.shape, lambda o: el(o[0]).get(o[1:]), probe.dtype)
        if isinstance(probe, (list, tuple)):
            el = v.element
            m = len(probe)
            dt = 'real'

            def get(o):
                row = el(o[0])
                res = to_real(row[-1])
                for i in range(m - 2, -1, -1):
                    res = z3.If(o[1] == i, to_real(row[i]), res)
                return res
            return SArr((v.length, m), get, dt)
        n = to_num(probe)
        if n is None:
            raise Unsupported("np.array of list of %r" % (probe,))
        el = v.element
        return SArr((v.length,), lambda o: to_num(el(o[0])), 'int' if n.is_int() else 'real')
    if isinstance(v, OwnedRowList):
        wg, al, gf = v.watch.get, v.alias, v.get     # np.array copies the data as it is now
        return SArr((v.length, v.width), lambda o: z3.If(al(o[0]), to_real(wg((o[1],))), gf(o[0], o[1])), 'real')
    if isinstance(v, SOpaqueList):
        return fresh_array(it, 'opaque', (v.length,))
    if isinstance(v, SRowList):
        g = v.get
        if v.width is None:
            return SArr((v.length,), lambda o: z3.RealVal(0), 'real')
        return SArr((v.length, v.width), lambda o: g(o[0], o[1]), 'real')
    if isinstance(v, SMutList):
        arr = v.arr
        rng = arr.sort().range()
        dt = 'real' if rng == z3.RealSort() else ('int' if rng == z3.IntSort() else 'bool')
        return SArr((v.length,), lambda o: z3.Select(arr, o[0]), dt)
    n = to_num(v)
    if n is not None:
        return SArr((), lambda o: n, 'int' if n.is_int() else 'real')
    raise Unsupported("np.array(%r)" % (v,))


def broadcast_shapes(it, sa, sb):
    """numpy broadcasting; returns (out_shape, map_a, map_b) where map_x(o) gives x's index"""
    ra, rb = len(sa), len(sb)
    r = max(ra, rb)
    pa = (1,) * (r - ra) + tuple(sa)
    pb = (1,) * (r - rb) + tuple(sb)
    out = []
    ka, kb = [], []      # per axis: True if that operand is broadcast (index 0) on this axis
    for da, db in zip(pa, pb):
        e = dim_eq(da, db)
        if e is True:
            out.append(da)
            ka.append(False)
            kb.append(False)
            continue
        if isinstance(da, int) and da == 1:
            out.append(db)
            ka.append(True)
            kb.append(False)
            continue
        if isinstance(db, int) and db == 1:
            out.append(da)
            ka.append(False)
            kb.append(True)
            continue
        if e is None and it.ctx.branch(to_num(da) == to_num(db), 'broadcast-dims-equal'):
            out.append(da)
            ka.append(False)
            kb.append(False)
            continue
        if not isinstance(da, int) and it.ctx.branch(to_num(da) == 1, 'broadcast-dim-one'):
            out.append(db)
            ka.append(True)
            kb.append(False)
            continue
        if not isinstance(db, int) and it.ctx.branch(to_num(db) == 1, 'broadcast-dim-one'):
            out.append(da)
            ka.append(False)
            kb.append(True)
            continue
        raise PyRaise(ExcVal('ValueError', ("operands could not be broadcast together with shapes %s %s" % (sa, sb),)))

    def mk(rx, kx):
        off = r - rx

        def m(o):
            return tuple(z3.IntVal(0) if kx[off + i] else o[off + i] for i in range(rx))
        return m
    return tuple(out), mk(ra, ka), mk(rb, kb)


def broadcast_to(it, arr, shape):
    out, ma, _ = broadcast_shapes(it, arr.shape, tuple(shape))
    fits = len(out) == len(tuple(shape))
    if fits:
        for da, db in zip(out, tuple(shape)):
            e = dim_eq(da, db)
            if e is None:
                e = it.ctx.branch(to_num(da) == to_num(db), 'broadcast-into-shape')     # decided by the path condition, not by syntax
            if not e:
                fits = False
                break
    if not fits:
        raise PyRaise(ExcVal('ValueError', ("could not broadcast input array from shape %s into shape %s" % (arr.shape, tuple(shape)),)))
    g = arr.get
    return SArr(shape, lambda o: g(ma(o)), arr.dtype)


def scalar_op(it, op, x, y):
    """z3-level binary operation on two scalars"""
    if isinstance(op, (ast.Eq, ast.NotEq, ast.Lt, ast.LtE, ast.Gt, ast.GtE)):
        if isinstance(x, z3.BoolRef) or isinstance(y, z3.BoolRef):
            if isinstance(x, z3.BoolRef) and isinstance(y, z3.BoolRef):
                return (x == y) if isinstance(op, ast.Eq) else z3.Not(x == y) if isinstance(op, ast.NotEq) else None
            x, y = to_num(x), to_num(y)
        return {ast.Eq: lambda: x == y, ast.NotEq: lambda: x != y, ast.Lt: lambda: x < y,
                ast.LtE: lambda: x <= y, ast.Gt: lambda: x > y, ast.GtE: lambda: x >= y}[type(op)]()
    if isinstance(op, (ast.BitAnd, ast.BitOr)):
        return z3.And(z3bool(x), z3bool(y)) if isinstance(op, ast.BitAnd) else z3.Or(z3bool(x), z3bool(y))
    return it.binop_values(op, x, y)


def elementwise(it, op, a, b):
    if isinstance(a, (list, tuple, SList, SMutList)):
        a = as_array(it, a)
    if isinstance(b, (list, tuple, SList, SMutList)):
        b = as_array(it, b)
    if isinstance(a, SOpt) or isinstance(b, SOpt) or a is None or b is None:
        raise PyRaise(ExcVal('TypeError', ("array arithmetic with None",)))
    if not isinstance(a, SArr):
        a = as_array(it, a)
    if not isinstance(b, SArr):
        b = as_array(it, b)
    shape, ma, mb = broadcast_shapes(it, a.shape, b.shape)
    ga, gb = a.get, b.get
    cmp_ = isinstance(op, (ast.Eq, ast.NotEq, ast.Lt, ast.LtE, ast.Gt, ast.GtE, ast.BitAnd, ast.BitOr))
    if cmp_:
        dt = 'bool'
    elif isinstance(op, ast.Div):
        dt = 'real'
    elif a.dtype == 'real' or b.dtype == 'real':
        dt = 'real'
    else:
        dt = 'int'
    if isinstance(op, ast.Pow):
        dt = 'real' if a.dtype == 'real' or b.dtype == 'real' or True else 'int'
    res = SArr(shape, lambda o: scalar_op(it, op, ga(ma(o)), gb(mb(o))), dt)
    # elementwise arithmetic of a masked selection with a scalar stays aligned with the selected base positions
    am, bm = getattr(a, 'aligned', None), getattr(b, 'aligned', None)
    if am is not None and b.rank == 0:
        res.aligned = lambda o: scalar_op(it, op, am(o), gb(()))
        res.mask_obj = a.mask_obj
    elif bm is not None and a.rank == 0:
        res.aligned = lambda o: scalar_op(it, op, ga(()), bm(o))
        res.mask_obj = b.mask_obj
    return res


def map_array(it, a, f, dtype='real'):
    if not isinstance(a, SArr):
        a = as_array(it, a)
    g = a.get
    return SArr(a.shape, lambda o: f(g(o)), dtype)


# ---- sums ------------------------------------------------------------------------------------

class SumRegistry(object):
    """Partial sums as uninterpreted functions with their unfolding axiom (DESIGN 2.3)."""

    def __init__(self):
        self.defs = {}


def partial_sum(it, n, term, hint='sum', real=True):
    """Sigma_{k<n} term(k): ps(0)=0, ps(j+1)=ps(j)+term(j); returns ps(n)"""
    sort = z3.RealSort() if real else z3.IntSort()
    if isinstance(n, int) and n <= 8:
        acc = z3.RealVal(0) if real else z3.IntVal(0)
        for i in range(n):
            acc = acc + term(z3.IntVal(i))
        return z3.simplify(acc)
    ps = it.ctx.fresh_func(hint, z3.IntSort(), sort)
    j = z3.Int(it.ctx._name('j'))
    it.ctx.assume(ps(0) == 0)
    it.ctx.assume(z3.ForAll([j], z3.Implies(j >= 0, ps(j + 1) == ps(j) + term(j)), patterns=[ps(j + 1)]))
    if not hasattr(it.ctx, 'sums'):
        it.ctx.sums = {}
    it.ctx.sums[str(ps)] = (ps, term, n)
    return ps(to_num(n))


def transpose(it, a):
    if a.rank < 2:
        return a
    if a.rank != 2:
        raise Unsupported("transpose of rank %d" % a.rank)
    g = a.get
    res = SArr((a.shape[1], a.shape[0]), lambda o: g((o[1], o[0])), a.dtype)
    res.view_map = (a, lambda o: (o[1], o[0]))        # A.T is always a view: a write to it is a write to A
    return res


def dot(it, a, b):
    it.ctx.note_trusted("np.dot: (A.B)[i,j] = sum_k A[i,k]*B[k,j] (and the rank-1 variants)")
    a = a if isinstance(a, SArr) else as_array(it, a)
    b = b if isinstance(b, SArr) else as_array(it, b)
    ga, gb = a.get, b.get
    if a.rank == 0 or b.rank == 0:
        return elementwise(it, ast.Mult(), a, b)
    inner_a = a.shape[-1]
    inner_b = b.shape[0] if b.rank == 1 else b.shape[-2]
    e = dim_eq(inner_a, inner_b)
    if e is not True:
        if e is False or not it.ctx.branch(to_num(inner_a) == to_num(inner_b), 'dot-inner-dims'):
            raise PyRaise(ExcVal('ValueError', ("shapes %s and %s not aligned" % (a.shape, b.shape),)))
    n = inner_a
    if a.rank == 1 and b.rank == 1:
        return partial_sum(it, n, lambda k: to_real(ga((k,))) * to_real(gb((k,))), 'dot')
    if a.rank == 2 and b.rank == 1:
        return SArr((a.shape[0],), lambda o: partial_sum(it, n, lambda k: to_real(ga((o[0], k))) * to_real(gb((k,))), 'dot'))
    if a.rank == 1 and b.rank == 2:
        return SArr((b.shape[1],), lambda o: partial_sum(it, n, lambda k: to_real(ga((k,))) * to_real(gb((k, o[0]))), 'dot'))
    if a.rank == 2 and b.rank == 2:
        return SArr((a.shape[0], b.shape[1]),
                    lambda o: partial_sum(it, n, lambda k: to_real(ga((o[0], k))) * to_real(gb((k, o[1]))), 'dot'))
    raise Unsupported("dot of ranks %d,%d" % (a.rank, b.rank))


def arr_sum(it, a, axis=None):
    it.ctx.note_trusted("np.sum: sum of all elements (axis=None) or along one axis")
    a = a if isinstance(a, SArr) else as_array(it, a)
    g = a.get
    real = a.dtype != 'int'
    conv = to_real if real else (lambda x: to_num(x))
    if a.dtype == 'bool':
        conv = lambda x: z3.If(x, 1, 0)
        real = False
    if a.rank == 0:
        return g(())
    if axis is None:
        if a.rank == 1:
            tot = partial_sum(it, a.shape[0], lambda k: conv(g((k,))), 'sum', real)
            if getattr(it, 'sum_nonneg_lemma', False):
                # LEMMA (lemmas/Sums.lean: sum_nonneg_ge_term): a finite sum of non-negative terms is >= each of its terms
                it.ctx.note_trusted("lemma sum_nonneg_ge_term (Lean-checked in /verif/lemmas): a finite sum of non-negative terms is >= 0 and >= each term")
                k1, k2 = z3.Int(it.ctx._name('ks')), z3.Int(it.ctx._name('kt'))
                n_ = to_num(a.shape[0])
                it.ctx.assume(z3.Implies(z3.ForAll([k1], z3.Implies(z3.And(k1 >= 0, k1 < n_), conv(g((k1,))) >= 0)),
                                         z3.And(tot >= 0, z3.ForAll([k2], z3.Implies(z3.And(k2 >= 0, k2 < n_), tot >= conv(g((k2,))))))))
            return tot
        if a.rank == 2:
            m = a.shape[1]
            return partial_sum(it, a.shape[0],
                               lambda i: partial_sum(it, m, lambda j: conv(g((i, j))), 'sumrow', real), 'sum', real)
        raise Unsupported("sum of rank %d" % a.rank)
    if a.rank == 2 and axis in (0, 1):
        if axis == 0:
            return SArr((a.shape[1],), lambda o: partial_sum(it, a.shape[0], lambda k: conv(g((k, o[0]))), 'sum', real), a.dtype)
        return SArr((a.shape[0],), lambda o: partial_sum(it, a.shape[1], lambda k: conv(g((o[0], k))), 'sum', real), a.dtype)
    if a.rank == 1 and axis == 0:
        return arr_sum(it, a)
    raise Unsupported("sum axis")


def arr_mean(it, a, axis=None):
    """mean along one axis (or of all elements of a rank-1 array): sum / count"""
    it.ctx.note_trusted("np.mean: the sum along the axis divided by the number of elements along it")
    g = a.get
    if axis is None:
        if a.rank != 1:
            raise Unsupported("mean of all elements of rank %d" % a.rank)
        n = a.shape[0]
        it.ctx.oblige("safety/mean-of-nonempty", to_num(n) >= 1)
        return partial_sum(it, n, lambda k: to_real(g((k,))), 'mean') / to_real(n)
    if axis < 0:
        axis += a.rank
    n = a.shape[axis]
    it.ctx.oblige("safety/mean-of-nonempty", to_num(n) >= 1)
    rest = tuple(d for i, d in enumerate(a.shape) if i != axis)

    def get(o):
        return partial_sum(it, n, lambda k: to_real(g(tuple(o[:axis]) + (k,) + tuple(o[axis:]))), 'mean') / to_real(n)
    if not rest:
        return get(())
    return SArr(rest, get)


def np_dstack(it, seq):
    """np.dstack of equally shaped rank-2 arrays: out[a, b, r] = seq[r][a, b]"""
    it.ctx.note_trusted("np.dstack(seq of (A,B) arrays): a (A,B,len(seq)) array with out[a,b,r] = seq[r][a,b]")
    rows = it.iterate(seq)
    if isinstance(rows, SymIter):
        n, elem = rows.length, rows.element
    else:
        n, elem = len(rows), (lambda k: it.lib.select_concrete_seq(it, rows, k) if not z3.is_int_value(k) else rows[k.as_long()])
    pk = it.ctx.fresh_int('dk')
    probe = elem(pk)
    if not isinstance(probe, SArr) or probe.rank != 2:
        raise Unsupported("dstack of non rank-2 elements")
    first = elem(z3.IntVal(0))
    # all elements must have the same shape (numpy raises otherwise)
    it.ctx.oblige("pre(np.dstack): all arrays have the same shape",
                  z3.ForAll([pk], z3.Implies(z3.And(pk >= 0, pk < to_num(n)),
                                             z3.And(to_num(probe.shape[0]) == to_num(first.shape[0]), to_num(probe.shape[1]) == to_num(first.shape[1])))))
    return SArr((first.shape[0], first.shape[1], n), lambda o: elem(o[2]).get((o[0], o[1])))


def arr_all(it, a):
    a = a if isinstance(a, SArr) else as_array(it, a)
    return quant_all(it, a, lambda x: it.truth(x) if not isinstance(x, z3.BoolRef) else x)


def quant_all(it, a, pred):
    if a.rank == 0:
        return pred(a.get(()))
    idx = [z3.Int(it.ctx._name('q')) for _ in a.shape]
    rng = [z3.And(i >= 0, i < to_num(d)) for i, d in zip(idx, a.shape)]
    if all(isinstance(d, int) and d <= 6 for d in a.shape):
        import itertools
        conj = [pred(a.get(tuple(z3.IntVal(i) for i in c))) for c in itertools.product(*[range(d) for d in a.shape])]
        return z3.And(*conj) if conj else True
    return z3.ForAll(idx, z3.Implies(z3.And(*rng), pred(a.get(tuple(idx)))))


def arr_any(it, a):
    a = a if isinstance(a, SArr) else as_array(it, a)
    r = quant_all(it, a, lambda x: z3.Not(x if isinstance(x, z3.BoolRef) else it.truth(x)))
    return (not r) if isinstance(r, bool) else z3.Not(r)


def reshape(it, a, newshape, order='C'):
    it.ctx.note_trusted("np.reshape: C order new[i,j]=flat[i*cols+j], F order new[i,j]=flat[i+j*rows]; flat of a matrix likewise")
    a = a if isinstance(a, SArr) else as_array(it, a)
    if isinstance(newshape, (int, z3.ArithRef)):
        newshape = (newshape,)
    newshape = tuple(newshape)
    if isinstance(order, str):
        order = order.upper()
    if order not in ('C', 'F'):
        raise Unsupported("reshape order %r" % (order,))
    # reshaping to the shape the array already has is the identity (no index arithmetic needed)
    if a.rank == len(newshape) and all(dim_eq(x, y) is True for x, y in zip(a.shape, newshape)):
        g0 = a.get
        res = SArr(tuple(a.shape), lambda o: g0(o), a.dtype)
        res.view_of = (a, [('all', z3.IntVal(0))] * a.rank)
        return res
    # size check
    it.ctx.oblige("safety/reshape-size", to_num(a.size()) == to_num(SArr(newshape, None).size()))
    flat = flatten_fn(it, a, order)

    def mk(get):
        # numpy returns a VIEW of `a` whenever the memory layout allows it and a copy otherwise; which one is not visible at this
        # level, so a later in-place write to the result is followed on both alternatives (see aliased_write)
        res = SArr(newshape, get, a.dtype)
        res.maybe_view_of = a
        return res
    if len(newshape) == 1:
        return mk(lambda o: flat(o[0]))
    if len(newshape) == 2:
        r, c = newshape
        if order == 'C':
            return mk(lambda o: flat(o[0] * to_num(c) + o[1]))
        return mk(lambda o: flat(o[0] + o[1] * to_num(r)))
    if len(newshape) == 3:
        p, q, r = newshape
        if order == 'C':
            return mk(lambda o: flat((o[0] * to_num(q) + o[1]) * to_num(r) + o[2]))
        return mk(lambda o: flat(o[0] + to_num(p) * (o[1] + to_num(q) * o[2])))
    raise Unsupported("reshape to rank %d" % len(newshape))


def flatten_fn(it, a, order):
    """function flat-index -> element.  Rank-2 flattening needs div/mod; it is expressed with
    an uninterpreted pair (row, col) constrained by the defining relation, so queries stay
    free of symbolic division."""
    g = a.get
    if a.rank == 1:
        return lambda k: g((k,))
    if a.rank == 0:
        return lambda k: g(())
    if a.rank == 2:
        r, c = a.shape
        if isinstance(c, int) and c == 1:
            return lambda k: g((k, z3.IntVal(0)))
        if isinstance(r, int) and r == 1:
            return lambda k: g((z3.IntVal(0), k))
        rowf = it.ctx.fresh_func('row', z3.IntSort(), z3.IntSort())
        colf = it.ctx.fresh_func('col', z3.IntSort(), z3.IntSort())
        k = z3.Int(it.ctx._name('k'))
        i = z3.Int(it.ctx._name('i'))
        j = z3.Int(it.ctx._name('j'))
        rz, cz = to_num(r), to_num(c)
        if order == 'C':
            lin = lambda i_, j_: i_ * cz + j_
        else:
            lin = lambda i_, j_: i_ + j_ * rz
        # (row, col) is the inverse of lin on the index rectangle
        it.ctx.assume(z3.ForAll([i, j], z3.Implies(z3.And(i >= 0, i < rz, j >= 0, j < cz),
                                                   z3.And(rowf(lin(i, j)) == i, colf(lin(i, j)) == j)),
                                patterns=[z3.MultiPattern(rowf(lin(i, j)))] if False else []))
        it.ctx.assume(z3.ForAll([k], z3.Implies(z3.And(k >= 0, k < rz * cz),
                                                z3.And(rowf(k) >= 0, rowf(k) < rz, colf(k) >= 0, colf(k) < cz,
                                                       lin(rowf(k), colf(k)) == k))))

        if not hasattr(it, 'blocks'):
            it.blocks = []
        # register as a quotient/remainder pair so that contracts can ask for instances (VC.hint_blocks)
        it.blocks.append((rowf, colf, rz, cz) if order == 'C' else (colf, rowf, cz, rz))

        def flat(kk):
            # recognise kk = lin(i, j) syntactically to avoid going through the inverse
            return g((rowf(kk), colf(kk)))
        flat.lin = lin
        flat.base = g
        return flat
    raise Unsupported("flatten of rank %d" % a.rank)


def ravel(it, a, order='C'):
    a = a if isinstance(a, SArr) else as_array(it, a)
    if a.rank == 1:
        return a
    return reshape(it, a, (a.size(),), order)


def flatten(it, a, order='C'):
    r = ravel(it, a, order)
    if r is a:
        return r.copy()
    if hasattr(r, 'maybe_view_of'):
        del r.maybe_view_of        # ndarray.flatten always copies
    return r


def np_append(it, a, b, axis=None):
    it.ctx.note_trusted("np.append(a, b): flattened a followed by flattened b (new array)")
    a = ravel(it, as_array(it, a))
    b = ravel(it, as_array(it, b))
    if a.rank == 0:
        a = SArr((1,), (lambda g: lambda o: g(()))(a.get), a.dtype)
    if b.rank == 0:
        b = SArr((1,), (lambda g: lambda o: g(()))(b.get), b.dtype)
    na, nb = a.shape[0], b.shape[0]
    ga, gb = a.get, b.get
    dt = 'real' if 'real' in (a.dtype, b.dtype) else a.dtype
    n = na + nb if isinstance(na, int) and isinstance(nb, int) else z3.simplify(to_num(na) + to_num(nb))
    conv = to_real if dt == 'real' else (lambda x: x)
    return SArr((n,), lambda o: z3.If(o[0] < to_num(na), conv(ga((o[0],))), conv(gb((z3.simplify(o[0] - to_num(na)),)))), dt)


def np_insert(it, a, pos, val):
    it.ctx.note_trusted("np.insert(a, 0, v): v followed by a (new array)")
    if pos != 0:
        raise Unsupported("np.insert at %r" % (pos,))
    a = as_array(it, a)
    v = as_array(it, [val]) if not isinstance(val, SArr) else val
    if a.dtype == 'int' and v.dtype == 'real':
        # the result has the dtype of the ARRAY: a float inserted into an integer array is truncated (numpy casts silently)
        it.ctx.note_trusted("np.insert into an integer-dtype array casts the inserted value to integer (truncation toward zero)")
        v = SArr(v.shape, (lambda g_: (lambda o: coerce_elem(g_(o), 'int')))(v.get), 'int')
    return np_append(it, v, a)


def np_zeros(it, shape, dtype=None, value=0):
    if isinstance(shape, (int, z3.ArithRef)):
        shape = (shape,)
    shape = tuple(shape)
    dt = 'real'
    if isinstance(dtype, TypeTag) and dtype.name == 'int':
        dt = 'int'
    v = z3.RealVal(value) if dt == 'real' else z3.IntVal(value)
    return SArr(shape, lambda o: v, dt)


def np_eye(it, n):
    return SArr((n, n), lambda o: z3.If(o[0] == o[1], z3.RealVal(1), z3.RealVal(0)), 'real')


def block_coords(it, outer, inner, hint='blk'):
    """functions (q, m) with u = q(u)*inner + m(u), 0 <= m(u) < inner, 0 <= q(u) < outer on [0, outer*inner):
    quotient and remainder without symbolic division (uninterpreted, with the defining relation in both directions)"""
    q = it.ctx.fresh_func(hint + '_q', z3.IntSort(), z3.IntSort())
    m = it.ctx.fresh_func(hint + '_m', z3.IntSort(), z3.IntSort())
    oz, iz = to_num(outer), to_num(inner)
    a, b, u = z3.Int(it.ctx._name('ba')), z3.Int(it.ctx._name('bb')), z3.Int(it.ctx._name('bu'))
    it.ctx.assume(z3.ForAll([a, b], z3.Implies(z3.And(a >= 0, a < oz, b >= 0, b < iz), z3.And(q(a * iz + b) == a, m(a * iz + b) == b))))
    it.ctx.assume(z3.ForAll([u], z3.Implies(z3.And(u >= 0, u < oz * iz),
                                            z3.And(q(u) >= 0, q(u) < oz, m(u) >= 0, m(u) < iz, q(u) * iz + m(u) == u)), patterns=[q(u)]))
    if not hasattr(it, 'blocks'):
        it.blocks = []
    it.blocks.append((q, m, oz, iz))
    return q, m


def np_kron(it, A, B):
    """np.kron(A, B)[a*r + i, b*c + j] = A[a, b] * B[i, j]  for A (p x q), B (r x c)"""
    it.ctx.note_trusted("np.kron(A, B)[a*r+i, b*c+j] = A[a,b]*B[i,j] (block coordinates as quotient / remainder)")
    A = A if isinstance(A, SArr) else as_array(it, A)
    B = B if isinstance(B, SArr) else as_array(it, B)
    if A.rank != 2 or B.rank != 2:
        it.ctx.oblige("pre(np.kron): both factors are matrices (rank 2)", z3.BoolVal(False))
        raise Unsupported("kron of ranks %d,%d" % (A.rank, B.rank))
    p, q_ = A.shape
    r, c = B.shape
    rq, rm = block_coords(it, p, r, 'kronr')
    cq, cm = block_coords(it, q_, c, 'kronc')
    ga, gb = A.get, B.get
    out = SArr((z3.simplify(to_num(p) * to_num(r)), z3.simplify(to_num(q_) * to_num(c))),
               lambda o: to_real(ga((rq(o[0]), cq(o[1])))) * to_real(gb((rm(o[0]), cm(o[1])))))
    return out


def np_kron_eye_left(it, n, J):
    return np_kron(it, np_eye(it, n), J)


def np_bmat(it, blocks):
    """np.bmat([[A, B], [C, D], ...]): the block matrix (row blocks of equal height, column blocks of equal width)"""
    it.ctx.note_trusted("np.bmat(blocks): the matrix assembled from the blocks; blocks in a row have equal heights, blocks in a column equal widths")
    rows = [list(r) for r in blocks]
    if not rows or any(len(r) != len(rows[0]) for r in rows):
        raise Unsupported("ragged bmat")
    rows = [[(b if isinstance(b, SArr) else as_array(it, b)) for b in r] for r in rows]
    for r in rows:
        for b in r:
            if b.rank != 2:
                it.ctx.oblige("pre(np.bmat): every block is a matrix (rank 2)", z3.BoolVal(False))
                raise PyRaise(ExcVal('ValueError', ("bmat block of rank %d" % b.rank,)))
    heights = [to_num(r[0].shape[0]) for r in rows]
    widths = [to_num(b.shape[1]) for b in rows[0]]
    for r, h in zip(rows, heights):
        for b, w in zip(r, widths):
            it.ctx.oblige("pre(np.bmat): block shapes agree", z3.And(to_num(b.shape[0]) == h, to_num(b.shape[1]) == w))
    roff = [z3.IntVal(0)]
    for h in heights:
        roff.append(z3.simplify(roff[-1] + h))
    coff = [z3.IntVal(0)]
    for w in widths:
        coff.append(z3.simplify(coff[-1] + w))

    def get(o):
        u, v = o
        val = None
        for bi in reversed(range(len(rows))):
            rowval = None
            for bj in reversed(range(len(widths))):
                e = to_real(rows[bi][bj].get((z3.simplify(u - roff[bi]), z3.simplify(v - coff[bj]))))
                rowval = e if rowval is None else z3.If(v < coff[bj + 1], e, rowval)
            val = rowval if val is None else z3.If(u < roff[bi + 1], rowval, val)
        return val
    return SArr((roff[-1], coff[-1]), get)


ARRAY_METHODS = {
    'copy': lambda it, a, *args, **kw: a.copy(),
    'ravel': lambda it, a, order='C': ravel(it, a, order),
    'flatten': lambda it, a, order='C': flatten(it, a, order),
    'reshape': lambda it, a, *shape, **kw: reshape(it, a, shape[0] if len(shape) == 1 else shape, kw.get('order', 'C')),
    'sum': lambda it, a, axis=None: arr_sum(it, a, axis),
    'dot': lambda it, a, b: dot(it, a, b),
    'transpose': lambda it, a: transpose(it, a),
    'any': lambda it, a: arr_any(it, a),
    'all': lambda it, a: arr_all(it, a),
    'tolist': lambda it, a: array_tolist(it, a),
    'astype': lambda it, a, dtype, copy=True: a,
    'min': lambda it, a: arr_min(it, a),
    'max': lambda it, a: arr_max(it, a),
    'mean': lambda it, a, axis=None: arr_mean(it, a, axis),
}

TRUSTED = {
    'np.copy': 'returns a new array with the same contents',
    'np.ravel': 'row-major flattening (a view for contiguous input)',
    'np.flatten': 'row-major (or column-major for order=F) flattening, new array',
}


def array_tolist(it, a):
    if a.rank == 0:
        return a.get(())
    if a.rank == 1:
        n = a.shape[0]
        g = a.get
        if isinstance(n, int):
            return [g((z3.IntVal(i),)) for i in range(n)]
        return SList(n, lambda k: g((k,)))
    raise Unsupported("tolist of rank %d" % a.rank)


def arr_min(it, a, kind='min'):
    """min/max of a non-empty rank-1 array: a fresh value m with (forall i. m <= a[i]) and
    (exists i. m == a[i])"""
    a = a if isinstance(a, SArr) else as_array(it, a)
    if a.rank != 1:
        raise Unsupported("min of rank %d" % a.rank)
    n = a.shape[0]
    it.ctx.oblige("safety/min-of-nonempty", to_num(n) >= 1)
    g = a.get
    w = it.ctx.fresh_int('arg' + kind)
    it.ctx.assume(z3.And(w >= 0, w < to_num(n)))
    m = g((w,))
    i = z3.Int(it.ctx._name('i'))
    le = (lambda x, y: x <= y) if kind == 'min' else (lambda x, y: x >= y)
    if isinstance(n, int) and n <= 6:
        for j in range(n):
            it.ctx.assume(le(m, g((z3.IntVal(j),))))
    else:
        it.ctx.assume(z3.ForAll([i], z3.Implies(z3.And(i >= 0, i < to_num(n)), le(m, g((i,))))))
    return m, w


def arr_max(it, a):
    return arr_min(it, a, 'max')[0]


# =============================================================================================
# uninterpreted real functions (log, exp, gammaln, distribution functions, draws)

_UF = {}


def uf(name, *sorts):
    key = (name,) + tuple(str(s) for s in sorts)
    if key not in _UF:
        _UF[key] = z3.Function(name, *sorts)
    return _UF[key]


def real_fn(name, arity=1):
    return uf(name, *([z3.RealSort()] * (arity + 1)))


def apply_elementwise(it, fname, args, dtype='real'):
    """apply an uninterpreted real function to scalars / arrays with broadcasting"""
    arrs = [a for a in args if isinstance(a, (SArr, list, tuple, SList, SMutList))]
    f = real_fn(fname, len(args))
    if not arrs:
        return f(*[to_real(a) for a in args])
    conv = [a if isinstance(a, SArr) else (as_array(it, a) if isinstance(a, (list, tuple, SList, SMutList)) else a) for a in args]
    shape = None
    maps = []
    cur = None
    for a in conv:
        if isinstance(a, SArr):
            if cur is None:
                cur = a.shape
            else:
                cur, _, _ = broadcast_shapes(it, cur, a.shape)
    shape = cur
    getters = []
    for a in conv:
        if isinstance(a, SArr):
            _, ma, _ = broadcast_shapes(it, a.shape, shape)
            getters.append((lambda g, m: (lambda o: to_real(g(m(o)))))(a.get, ma))
        else:
            r = to_real(a)
            if r is None:
                raise Unsupported("argument %r of %s" % (a, fname))
            getters.append((lambda r_: (lambda o: r_))(r))
    return SArr(shape, lambda o: f(*[g(o) for g in getters]), dtype)


def power(it, base, exp):
    if isinstance(exp, bool):
        exp = int(exp)
    if isinstance(exp, float) and exp == int(exp):
        exp = int(exp)
    if isinstance(exp, int):
        if exp == 0:
            return z3.RealVal(1)
        b = base
        res = b
        for _ in range(abs(exp) - 1):
            res = res * b
        if exp < 0:
            return 1 / to_real(res)
        return res
    if isinstance(exp, z3.ArithRef) and z3.is_int_value(exp):
        return power(it, base, exp.as_long())
    if isinstance(exp, z3.ArithRef) and z3.is_rational_value(exp) and exp.denominator_as_long() == 1:
        return power(it, base, exp.numerator_as_long())
    it.ctx.note_trusted("x**y for non-constant y: uninterpreted Pow(x, y)")
    return real_fn('Pow', 2)(to_real(base), to_real(exp))


# =============================================================================================
# random streams

PAIR = None


def pos_pair(a, b):
    """injective pairing of (epoch, element index) used for draws made inside a comprehension"""
    return uf('PosPair', z3.IntSort(), z3.IntSort(), z3.IntSort())(to_num(a), to_num(b))


DRAW_AXIOMS = {
    # family -> (description, builder(term) -> z3 Bool) assumed for every draw of that family
    'exponential': ("a draw from the exponential sampler is positive and finite", lambda d, inf: z3.And(d > 0, d < inf)),
    'poisson': ("a draw from the Poisson sampler is a non-negative integer", lambda d, inf: z3.And(d >= 0, z3.IsInt(d))),
    'gamma': ("a gamma draw is positive", lambda d, inf: d > 0),
    'chisquare': ("a chi-square draw is positive", lambda d, inf: d > 0),
}


class SRandomState(Model):
    """np.random.RandomState: a stream identified by `stream` (z3 Int term).  Draw_<family>(stream,
    position, i, params...) is uninterpreted; positions are distinct for distinct draws (a global
    epoch counter; inside a comprehension over a symbolic-length sequence the position is the
    pair (epoch of the comprehension, element index))."""
    tags = frozenset({'RandomState'})

    def __init__(self, stream, label):
        self.stream = stream
        self.label = label

    def draw(self, it, family, params, size):
        f = uf('Draw_' + family, *([z3.IntSort()] * 3 + [z3.RealSort()] * len(params) + [z3.RealSort()]))
        lazy = getattr(it, 'lazy_index', None)
        if lazy is not None:
            pos = pos_pair(lazy[0], lazy[1])
        else:
            pos = to_num(it.rng_epoch)
            it.rng_epoch = it.rng_epoch + 1
        entry = (self.label, family)
        if entry not in it.rng_log:
            it.rng_log.append(entry)
        ps = [to_real(p) for p in params]
        if any(p is None for p in ps):
            raise Unsupported("random draw with non-scalar parameters")
        if family in DRAW_AXIOMS:
            text, ax = DRAW_AXIOMS[family]
            it.ctx.note_trusted("numpy sampler %s: %s" % (family, text))
            key = ('drawax', family, len(ps))
            if key not in it.ctx.covers:
                it.ctx.covers.add(key)
                vs = [z3.Int('ds!'), z3.Int('dp!'), z3.Int('di!')] + [z3.Real('dq%d!' % i) for i in range(len(ps))]
                from .lib_numpy import INF
                it.ctx.assume(z3.ForAll(vs, ax(f(*vs), INF), patterns=[f(*vs)]))
        if size is None:
            return f(self.stream, pos, z3.IntVal(0), *ps)
        return SArr((size,), lambda o: f(self.stream, pos, o[0], *ps), 'real')

    def py_getattr(self, it, name):
        fam = {'exponential': ('exponential', ['scale']), 'gamma': ('gamma', ['shape', 'scale']),
               'normal': ('normal', ['loc', 'scale']), 'chisquare': ('chisquare', ['df']),
               'uniform': ('uniform', ['low', 'high']), 'poisson': ('poisson', ['lam']),
               'binomial': ('binomial', ['n', 'p'])}
        if name in fam:
            family, pnames = fam[name]
            defaults = {'scale': 1.0, 'loc': 0.0, 'low': 0.0, 'high': 1.0, 'lam': 1.0}

            def sampler(it_, a, k):
                k = dict(k)
                size = k.pop('size', None)
                a = list(a)
                vals = []
                for pn in pnames:
                    if a:
                        vals.append(a.pop(0))
                    elif pn in k:
                        vals.append(k.pop(pn))
                    elif pn in defaults:
                        vals.append(defaults[pn])
                    else:
                        raise PyRaise(ExcVal('TypeError', ("missing %s" % pn,)))
                if a and size is None:
                    size = a.pop(0)
                if a or k:
                    raise PyRaise(ExcVal('TypeError', ("unexpected arguments to %s: %r %r" % (name, a, k),)))
                return self.draw(it_, family, vals, size)
            return Builtin('RandomState.' + name, sampler,
                           "numpy sampler %s: result is a function of (generator, position in its stream, parameters, size); touches that generator only" % name)
        raise Unsupported("RandomState.%s" % name)


# =============================================================================================
# namespaces

class Lib(object):
    SList = SList
    PropertyProxy = PropertyProxy

    def block_coords(self, it, outer, inner, hint='blk'):
        return block_coords(it, outer, inner, hint)

    def __init__(self):
        self._ns = {}

    # ---- helpers used by the interpreter
    def power(self, it, base, exp):
        return power(it, base, exp)

    def logical_and(self, it, a, b):
        raise Unsupported("logical and of models")

    def logical_not(self, it, a):
        if isinstance(a, SArr):
            g = a.get
            return SArr(a.shape, lambda o: z3.Not(g(o)), 'bool')
        raise Unsupported("logical not of %r" % (a,))

    def repeat_list(self, it, c, n):
        """[c] * n for symbolic n"""
        it.ctx.assume(n >= 0) if False else None
        zc = to_num(c)
        if zc is None:
            return SList(z3.simplify(z3.If(n >= 0, n, 0)), lambda k: c)
        ln = z3.If(n >= 0, n, 0)
        return SMutList(z3.simplify(ln), z3.K(z3.IntSort(), to_real(zc)))

    def str_concat(self, it, a, b):
        return "<str>"

    def select_concrete_seq(self, it, seq, idx):
        n = len(seq)
        it.ctx.oblige("safety/index-in-range", z3.And(idx >= -n, idx < n))
        if n == 0:
            raise PyRaise(ExcVal('IndexError', ("index into empty sequence",), {'IndexError', 'LookupError', 'Exception', 'BaseException'}))
        vals = list(seq)
        if all(to_num(v) is not None for v in vals):
            zs = [to_num(v) for v in vals]
            if any(not z.is_int() for z in zs):
                zs = [to_real(z) for z in zs]
            res = zs[-1]
            for i in range(n - 2, -1, -1):
                res = z3.If(z3.Or(idx == i, idx == i - n), zs[i], res)
            return res
        # general values: branch on the index
        for i in range(n):
            if it.ctx.branch(z3.Or(idx == i, idx == i - n), 'select'):
                return vals[i]
        raise PathCut("index out of range")

    def store_concrete_list(self, it, lst, idx, v):
        n = len(lst)
        it.ctx.oblige("safety/index-in-range", z3.And(idx >= -n, idx < n))
        zv = to_num(v)
        if zv is None or any(to_num(x) is None for x in lst):
            for i in range(n):
                if it.ctx.branch(z3.Or(idx == i, idx == i - n), 'store'):
                    lst[i] = v
                    return
            raise PathCut("index out of range")
        for i in range(n):
            old = to_num(lst[i])
            a, b = zv, old
            if a.is_int() != b.is_int():
                a, b = to_real(a), to_real(b)
            lst[i] = z3.If(z3.Or(idx == i, idx == i - n), a, b)

    def slice_concrete_seq(self, it, seq, idx):
        raise Unsupported("symbolic slice of a concrete sequence")

    def dict_lookup_symbolic(self, it, d, key):
        for k, v in d.items():
            e = it.eq(k, key)
            if it.ctx.branch(e, 'dict-key'):
                return v
        raise PyRaise(ExcVal('KeyError', (key,), {'KeyError', 'LookupError', 'Exception', 'BaseException'}))

    def getattr_concrete(self, it, obj, name):
        if isinstance(obj, list):
            if name == 'append':
                return Builtin('list.append', lambda it_, a, k: obj.append(a[0]))
            if name == 'pop':
                def pop(it_, a, k):
                    if not obj:
                        raise PyRaise(ExcVal('IndexError', ("pop from empty list",), {'IndexError', 'LookupError', 'Exception', 'BaseException'}))
                    return obj.pop(*a)
                return Builtin('list.pop', pop)
            if name == 'index':
                def index(it_, a, k):
                    for i, x in enumerate(obj):
                        if it_.ctx.branch(it_.eq(x, a[0]), 'list.index'):
                            return i
                    raise PyRaise(ExcVal('ValueError', ("not in list",)))
                return Builtin('list.index', index)
            if name == 'copy':
                return Builtin('list.copy', lambda it_, a, k: list(obj))
            if name == 'extend':
                return Builtin('list.extend', lambda it_, a, k: obj.extend(it_.concrete_list(a[0])))
            if name == 'insert':
                return Builtin('list.insert', lambda it_, a, k: obj.insert(a[0], a[1]))
        if isinstance(obj, dict):
            if name == 'items':
                return Builtin('dict.items', lambda it_, a, k: [(kk, vv) for kk, vv in obj.items()])
            if name == 'keys':
                return Builtin('dict.keys', lambda it_, a, k: list(obj.keys()))
            if name == 'values':
                return Builtin('dict.values', lambda it_, a, k: list(obj.values()))
            if name == 'copy':
                return Builtin('dict.copy', lambda it_, a, k: dict(obj))
            if name == 'update':
                return Builtin('dict.update', lambda it_, a, k: obj.update(a[0]))
            if name == 'get':
                return Builtin('dict.get', lambda it_, a, k: obj.get(it_.hashable(a[0]), a[1] if len(a) > 1 else None))
        if isinstance(obj, str):
            if name in ('lower', 'upper', 'strip', 'split', 'join', 'format', 'startswith', 'endswith'):
                m = getattr(obj, name)

                def strm(it_, a, k):
                    if any(not isinstance(x, (str, int, float, list, tuple)) for x in a):
                        return "<formatted>"
                    return m(*a, **k)
                return Builtin('str.' + name, strm)
        if isinstance(obj, tuple):
            if name == 'index':
                return Builtin('tuple.index', lambda it_, a, k: obj.index(a[0]))
        if isinstance(obj, float) or isinstance(obj, int):
            if name == 'tolist':
                return Builtin('scalar.tolist', lambda it_, a, k: obj)
        if isinstance(obj, z3.ArithRef):
            if name == 'tolist':
                return Builtin('scalar.tolist', lambda it_, a, k: obj)
            if name == 'T':
                return obj
            if name == 'shape':
                return ()
        raise PyRaise(ExcVal('AttributeError', ("%s has no attribute %s" % (type(obj).__name__, name),)))

    # ---- python builtins
    def make_builtins(self, it):
        b = {}

        def reg(name, fn, trusted=None):
            b[name] = Builtin(name, fn, trusted)

        def _len(it_, a, k):
            return it_.length(a[0])

        def _range(it_, a, k):
            vals = list(a)
            if all(isinstance(x, int) for x in vals):
                return range(*vals)
            if len(vals) == 1:
                lo, hi = z3.IntVal(0), to_num(vals[0])
            elif len(vals) == 2:
                lo, hi = to_num(vals[0]), to_num(vals[1])
            elif isinstance(vals[2], int) and vals[2] > 0:
                lo, hi, st = to_num(vals[0]), to_num(vals[1]), vals[2]
                n = z3.simplify(z3.If(hi - lo > 0, (hi - lo + (st - 1)) / st, 0))
                return SList(n, lambda kk: z3.simplify(lo + kk * st), tags={'range'})
            else:
                raise Unsupported("range with symbolic step")
            n = z3.simplify(z3.If(hi - lo >= 0, hi - lo, 0))
            return SList(n, lambda kk: z3.simplify(lo + kk), tags={'range'})

        def _enumerate(it_, a, k):
            start = a[1] if len(a) > 1 else k.get('start', 0)
            seq = it_.iterate(a[0])
            if isinstance(seq, SymIter):
                el = seq.element
                return SList(seq.length, lambda kk: (z3.simplify(kk + start), el(kk)), tags={'enumerate'})
            return [(i + start, v) for i, v in enumerate(seq)]

        def _zip(it_, a, k):
            if len(a) == 1 and type(a[0]).__name__ == 'StarSeq':
                # zip(*rows) with rows a symbolic-length sequence of equal-arity tuples: the transposition
                rows = it_.iterate(a[0].seq)
                if not isinstance(rows, SymIter):
                    return list(zip(*rows))
                probe = rows.element(z3.Int(it_.ctx._name('zp')))
                if not isinstance(probe, tuple):
                    raise Unsupported("zip(*seq) over non-tuple elements")
                it_.ctx.note_trusted("zip(*rows): column j is the sequence of the j-th components of the rows")
                return [SList(rows.length, (lambda j_: (lambda kk: rows.element(kk)[j_]))(j)) for j in range(len(probe))]
            seqs = [it_.iterate(x) for x in a]
            if any(isinstance(s, SymIter) for s in seqs):
                if not all(isinstance(s, SymIter) for s in seqs):
                    raise Unsupported("zip of symbolic and concrete sequences")
                n = seqs[0].length
                for s in seqs[1:]:
                    if dim_eq(n, s.length) is not True:
                        raise Unsupported("zip of sequences with different symbolic lengths")
                return SList(n, lambda kk: tuple(s.element(kk) for s in seqs), tags={'zip'})
            return list(zip(*seqs))

        def _isinstance(it_, a, k):
            return it_.isinstance_(a[0], a[1])

        def _hasattr(it_, a, k):
            if a[1] in ('__iter__', '__len__') and not isinstance(a[0], ObjVal):
                v = a[0]
                if isinstance(v, (list, tuple, dict, str, range, SList, SMutList)):
                    return True
                if isinstance(v, SArr):
                    return v.rank > 0 or a[1] == '__iter__'
                if isinstance(v, (int, float, bool, z3.ExprRef)) or v is None:
                    return False
            if a[1] == '__call__':
                return isinstance(a[0], (FuncVal, BoundMethod, Builtin, ClassVal))
            return it_.hasattr(a[0], a[1])

        def _getattr(it_, a, k):
            if len(a) == 3:
                try:
                    return it_.getattr(a[0], a[1])
                except PyRaise as e:
                    if 'AttributeError' in e.exc.tags:
                        return a[2]
                    raise
            return it_.getattr(a[0], a[1])

        def _all(it_, a, k):
            v = a[0]
            if isinstance(v, SArr):
                return arr_all(it_, v)
            seq = it_.iterate(v)
            if isinstance(seq, SymIter):
                kk = z3.Int(it_.ctx._name('q'))
                return z3.ForAll([kk], z3.Implies(z3.And(kk >= 0, kk < seq.length), z3bool(it_.truth(seq.element(kk)))))
            r = True
            for x in seq:
                r = it_.and_(r, it_.truth(x))
                if r is False:
                    return False
            return r

        def _any(it_, a, k):
            v = a[0]
            if isinstance(v, SArr):
                return arr_any(it_, v)
            seq = it_.iterate(v)
            if isinstance(seq, SymIter):
                kk = z3.Int(it_.ctx._name('q'))
                return z3.Exists([kk], z3.And(kk >= 0, kk < seq.length, z3bool(it_.truth(seq.element(kk)))))
            r = False
            for x in seq:
                t = it_.truth(x)
                if t is True:
                    return True
                if t is not False:
                    r = t if r is False else z3.Or(r, t)
            return r

        def _sum(it_, a, k):
            v = a[0]
            if isinstance(v, SArr):
                if v.rank != 1:
                    raise Unsupported("builtin sum of rank %d" % v.rank)
                return arr_sum(it_, v)
            seq = it_.iterate(v)
            if isinstance(seq, SymIter):
                return partial_sum(it_, seq.length, lambda kk: to_real(seq.element(kk)), 'sum')
            acc = a[1] if len(a) > 1 else 0
            for x in seq:
                acc = it_.binop(ast.Add(), acc, x)
            return acc

        def _minmax(kind):
            def f(it_, a, k):
                if len(a) == 1:
                    v = a[0]
                    if isinstance(v, SArr):
                        return arr_min(it_, v, kind)[0]
                    vals = it_.iterate(v)
                    if isinstance(vals, SymIter):
                        return arr_min(it_, as_array(it_, v), kind)[0]
                else:
                    vals = list(a)
                if not vals:
                    raise PyRaise(ExcVal('ValueError', ("min() arg is an empty sequence",)))
                if all(isinstance(x, (int, float)) and not isinstance(x, bool) for x in vals):
                    return min(vals) if kind == 'min' else max(vals)
                res = vals[0]
                for x in vals[1:]:
                    c = it_.compare(ast.Lt() if kind == 'min' else ast.Gt(), x, res)
                    if isinstance(c, bool):
                        res = x if c else res
                    else:
                        zr, zx = to_num(res), to_num(x)
                        if zr.is_int() != zx.is_int():
                            zr, zx = to_real(zr), to_real(zx)
                        res = z3.If(c, zx, zr)
                return res
            return f

        def _abs(it_, a, k):
            v = a[0]
            if isinstance(v, SArr):
                return map_array(it_, v, lambda x: z3.If(x >= 0, x, -x), v.dtype)
            if is_z3(v):
                return z3.If(v >= 0, v, -v)
            return abs(v)

        def _int(it_, a, k):
            v = a[0]
            if isinstance(v, (int, float, str)):
                return int(v)
            if isinstance(v, z3.ArithRef):
                if v.is_int():
                    return v
                it_.ctx.note_trusted("int(x): truncation toward zero")
                if it_.ctx._check(z3.Not(v >= 0))[0] == z3.unsat:
                    it_.ctx.oblige("safety/int-of-nonnegative", v >= 0)
                    return z3.ToInt(v)
                return z3.If(v >= 0, z3.ToInt(v), -z3.ToInt(-v))      # int() of a negative float is legal python
            raise Unsupported("int(%r)" % (v,))

        def _float(it_, a, k):
            v = a[0]
            if isinstance(v, (int, float, str)):
                return float(v)
            if isinstance(v, z3.ArithRef):
                return to_real(v)
            if isinstance(v, SArr) and v.rank == 0:
                return to_real(v.get(()))
            raise Unsupported("float(%r)" % (v,))

        def _str(it_, a, k):
            v = a[0]
            if isinstance(v, str):
                return v
            if isinstance(v, SName):
                return v
            if isinstance(v, ObjVal):
                m, _ = v.cls.lookup('__str__')
                if m is not None:
                    return it_.call(m, (v,))
            if isinstance(v, Model) and hasattr(v, 'py_str'):
                return v.py_str(it_)
            if isinstance(v, (int, float)):
                return str(v)
            return "<str>"

        def _list(it_, a, k):
            if not a:
                return []
            v = a[0]
            if isinstance(v, (SList, SMutList)):
                return v
            seq = it_.iterate(v)
            if isinstance(seq, SymIter):
                return SList(seq.length, seq.element)
            return list(seq)

        def _tuple(it_, a, k):
            if not a:
                return ()
            return tuple(it_.concrete_list(a[0]))

        def _dict(it_, a, k):
            d = {}
            if a:
                src = a[0]
                if getattr(src, 'clone', None) is not None and 'dict' in getattr(src, 'tags', ()) and not k:
                    return src.clone(it_)
                if isinstance(src, dict):
                    d.update(src)
                else:
                    for kv in it_.concrete_list(src):
                        kk, vv = kv
                        d[it_.hashable(kk)] = vv
            d.update(k)
            return d

        def _map(it_, a, k):
            f = a[0]
            seqs = [it_.iterate(x) for x in a[1:]]
            if any(isinstance(s, SymIter) for s in seqs):
                if not all(isinstance(s, SymIter) for s in seqs):
                    raise Unsupported("map over mixed sequences")
                return SList(seqs[0].length, lambda kk: it_.call(f, tuple(s.element(kk) for s in seqs)))
            return [it_.call(f, args) for args in zip(*seqs)]

        def _filter(it_, a, k):
            f, seq = a[0], it_.iterate(a[1])
            if isinstance(seq, SymIter):
                raise Unsupported("filter over symbolic-length sequence")
            out = []
            for x in seq:
                if it_.ctx.branch(it_.truth(it_.call(f, (x,))), 'filter'):
                    out.append(x)
            return out

        def _callable(it_, a, k):
            return isinstance(a[0], (FuncVal, BoundMethod, Builtin, ClassVal)) or getattr(a[0], 'is_callable', False)

        def _setattr(it_, a, k):
            return it_.setattr(a[0], a[1], a[2])

        def _type(it_, a, k):
            return TypeTag("type-of")

        def _sorted(it_, a, k):
            raise Unsupported("sorted")

        reg('len', _len)
        reg('range', _range)
        reg('enumerate', _enumerate)
        reg('zip', _zip)
        b['zip'].star_ok = True
        reg('isinstance', _isinstance)
        reg('hasattr', _hasattr)
        reg('getattr', _getattr)
        reg('setattr', _setattr)
        reg('all', _all)
        reg('any', _any)
        reg('sum', _sum)
        reg('min', _minmax('min'))
        reg('max', _minmax('max'))
        reg('abs', _abs)
        reg('callable', _callable)
        reg('map', _map)
        reg('filter', _filter)
        reg('sorted', _sorted)
        reg('print', lambda it_, a, k: None)
        reg('repr', lambda it_, a, k: "<repr>")
        reg('id', lambda it_, a, k: id(a[0]))
        b['int'] = TypeTag('int', _int)
        b['float'] = TypeTag('float', _float)
        b['complex'] = TypeTag('complex')
        b['bool'] = TypeTag('bool', lambda it_, a, k: it_.truth(a[0]))
        b['str'] = TypeTag('str', _str)
        b['list'] = TypeTag('list', _list)
        b['tuple'] = TypeTag('tuple', _tuple)
        b['dict'] = TypeTag('dict', _dict)
        b['type'] = TypeTag('type', _type)
        b['object'] = TypeTag('object', None, {
            '__setattr__': Builtin('object.__setattr__', lambda it_, a, k: it_.setattr(a[0], a[1], a[2], raw=True))})
        for exc in ('Exception', 'BaseException', 'ValueError', 'TypeError', 'RuntimeError', 'KeyError', 'IndexError',
                    'AttributeError', 'AssertionError', 'NotImplementedError', 'Warning', 'ZeroDivisionError',
                    'NameError', 'StopIteration', 'ArithmeticError', 'LookupError', 'OSError'):
            parents = {'Exception', 'BaseException'}
            if exc in ('KeyError', 'IndexError'):
                parents.add('LookupError')
            if exc == 'ZeroDivisionError':
                parents.add('ArithmeticError')
            if exc == 'NotImplementedError':
                parents.add('RuntimeError')
            b[exc] = TypeTag(exc, (lambda nm, ps: (lambda it_, a, k: ExcVal(nm, tuple(a), {nm} | ps)))(exc, parents))
        b['True'] = True
        b['False'] = False
        b['None'] = None
        b['NotImplemented'] = None
        return b

    # ---- third-party namespaces
    def namespace(self, name):
        if name in self._ns:
            return self._ns[name]
        builder = getattr(self, 'ns_' + name.replace('.', '_'), None)
        if builder is None:
            ns = Unmodelled_ns(name)
        else:
            ns = builder()
        self._ns[name] = ns
        return ns

    # numbers
    def ns_numbers(self):
        return Namespace('numbers', {'Number': TypeTag('Number')})

    def ns_enum(self):
        return Namespace('enum', {'Enum': TypeTag('Enum')})

    def ns_copy(self):
        def deepcopy(it, a, k):
            v = a[0]
            if isinstance(v, SArr):
                return v.copy()
            if hasattr(v, 'deepcopy'):
                return v.deepcopy()
            if isinstance(v, (int, float, str, z3.ExprRef)) or v is None:
                return v
            raise Unsupported("deepcopy of %r" % (v,))
        return Namespace('copy', {'deepcopy': Builtin('copy.deepcopy', deepcopy, "deep copy: equal contents, fresh identity"),
                                  'copy': Builtin('copy.copy', deepcopy)})

    def ns_functools(self):
        def _reduce(it, a, k):
            """functools.reduce(np.add, seq): the elementwise sum of the arrays of seq (seq of symbolic length, equal shapes)"""
            f, seq = a[0], a[1]
            if not (isinstance(f, Builtin) and f.name in ('add', 'np.add', 'numpy.add')):
                raise Unsupported("functools.reduce with %r" % (f,))
            rows = it.iterate(seq)
            if not isinstance(rows, SymIter):
                acc = rows[0]
                for r in rows[1:]:
                    acc = it.call(f, (acc, r))
                return acc
            it.ctx.note_trusted("functools.reduce(np.add, seq): the elementwise sum of the elements of seq, in order")
            it.ctx.oblige("pre(reduce): the sequence is not empty", to_num(rows.length) >= 1)
            probe = rows.element(it.ctx.fresh_int('rk'))
            if isinstance(probe, SArr):
                if probe.rank == 0:
                    return partial_sum(it, rows.length, lambda i: to_real(rows.element(i).get(())), 'reduce')
                return SArr(probe.shape, lambda o: partial_sum(it, rows.length, lambda i: to_real(rows.element(i).get(o)), 'reduce'))
            if to_num(probe) is not None:
                return partial_sum(it, rows.length, lambda i: to_real(rows.element(i)), 'reduce')
            raise Unsupported("reduce over %r" % (probe,))
        return Namespace('functools', {'reduce': Builtin('functools.reduce', _reduce)})

    def ns_logging(self):
        noop = Builtin('logging', lambda it, a, k: None)
        return Namespace('logging', {'debug': noop, 'info': noop, 'warning': noop, 'warn': noop})

    def ns_math(self):
        return Namespace('math', {})

    def ns_re(self):
        return Unmodelled_ns('re')

    def ns_numpy(self):
        from . import lib_numpy
        return lib_numpy.build(self)

    def ns_scipy(self):
        from . import lib_scipy
        return lib_scipy.build_scipy(self)

    def ns_scipy_stats(self):
        from . import lib_scipy
        return lib_scipy.build_stats(self)

    def ns_scipy_special(self):
        from . import lib_scipy
        return lib_scipy.build_special(self)

    def ns_scipy_integrate(self):
        from . import lib_scipy
        return lib_scipy.build_integrate(self)

    def ns_scipy_linalg(self):
        from . import lib_scipy
        return lib_scipy.build_linalg(self)

    def ns_scipy_sparse(self):
        from . import lib_scipy
        return lib_scipy.build_sparse(self)

    def ns_scipy_optimize(self):
        from . import lib_scipy
        return lib_scipy.build_optimize(self)

    def ns_scipy_stats__distn_infrastructure(self):
        return Namespace('scipy.stats._distn_infrastructure', {'rv_frozen': TypeTag('rv_frozen')})

    def ns_sympy(self):
        from . import lib_sympy
        return lib_sympy.build(self)

    def ns_sympy_core_function(self):
        from . import lib_sympy
        return lib_sympy.build(self)


class Unmodelled_ns(Namespace):
    def py_getattr(self, it, name):
        from .interp import Unmodelled
        return Unmodelled(self.name + "." + name)
