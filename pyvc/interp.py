"""pyvc interpreter: mixed concrete/symbolic execution of the real Python AST.

Paths are explored by decision replay: a path is a list of decisions taken at symbolic
branches; the whole contract is re-executed for every path, so the heap can be ordinary Python
objects mutated in place and no state ever has to be copied.
"""
import ast
import hashlib
import os
import z3

from .values import *  # noqa

DEADLINE = [None]       # wall-clock deadline of the running contract (set by driver.run_contract); past it every solver call gives up
ASSUMED_SITES = {}     # (file, line) -> source text: facts a contract file assumes directly (ctx.assume / vc.assume), reported in the evidence


def _note_assumption(depth):
    """record the contract-file line that states an assumption (callee contracts used modularly, facts of dependencies,
    arithmetic facts); assumptions made by the engine itself (branch conditions, loop invariants) come from pyvc/ and are skipped"""
    import sys, linecache
    try:
        fr = sys._getframe(depth)
    except ValueError:
        return
    fn = fr.f_code.co_filename
    if '/contracts/' not in fn:
        return
    key = (os.path.basename(fn), fr.f_lineno)
    if key not in ASSUMED_SITES:
        txt = linecache.getline(fn, fr.f_lineno).strip()
        # a comment on the line above is usually the justification
        prev = linecache.getline(fn, fr.f_lineno - 1).strip()
        if prev.startswith('#'):
            txt = prev.lstrip('# ') + ' :: ' + txt
        ASSUMED_SITES[key] = txt[:260]
from . import values as V


# =============================================================================================
# path context

class Obligation(object):
    __slots__ = ('name', 'status', 'model', 'where', 'time', 'detail')

    def __init__(self, name, status, model=None, where='', time=0.0, detail=''):
        self.name = name
        self.status = status      # 'proved' | 'refuted' | 'unknown'
        self.model = model
        self.where = where
        self.time = time
        self.detail = detail


def _has_quantifier(e):
    if z3.is_quantifier(e):
        return True
    return any(_has_quantifier(c) for c in e.children())


class Ctx(object):
    def __init__(self, prefix=(), timeout_ms=10000, label=''):
        self.prefix = list(prefix)
        self.taken = []
        self.pending = []
        self.pc = []
        self.solver = z3.Solver()
        self.solver.set('timeout', timeout_ms)
        self.timeout_ms = timeout_ms
        self.obligations = []
        self.trusted = set()
        self.counter = 0
        self.label = label
        self.where_stack = []
        self.covers = set()
        self.notes = []
        self.solver_time = 0.0
        self.solver_calls = 0

    # ---- fresh symbols (deterministic across replays of the same prefix)
    def _name(self, hint):
        self.counter += 1
        return "%s!%d" % (hint, self.counter)

    def fresh_int(self, hint='i'):
        return z3.Int(self._name(hint))

    def fresh_real(self, hint='r'):
        return z3.Real(self._name(hint))

    def fresh_bool(self, hint='b'):
        return z3.Bool(self._name(hint))

    def fresh_like_num(self, v, hint):
        if isinstance(v, z3.ArithRef):
            return self.fresh_int(hint) if v.is_int() else self.fresh_real(hint)
        if isinstance(v, z3.BoolRef) or isinstance(v, bool):
            return self.fresh_bool(hint)
        if isinstance(v, int):
            return self.fresh_int(hint)
        if isinstance(v, float):
            return self.fresh_real(hint)
        raise Unsupported("fresh_like_num %r" % (v,))

    def fresh_func(self, hint, *sorts):
        return z3.Function(self._name(hint), *sorts)

    def note_trusted(self, text):
        self.trusted.add(text)

    # ---- solver
    def _check(self, *extra):
        import time
        t0 = time.time()
        if DEADLINE[0] is not None and t0 > DEADLINE[0]:
            raise Unsupported("wall-time budget of the contract exhausted")
        self.solver.push()
        for e in extra:
            self.solver.add(e)
        r = self.solver.check()
        m = None
        if r == z3.sat:
            try:
                m = self.solver.model()
            except z3.Z3Exception:
                m = None
        self.solver.pop()
        self.solver_time += time.time() - t0
        self.solver_calls += 1
        return r, m

    def assume(self, f, _depth=1):
        if f is True:
            return
        if f is False:
            raise PathCut("assume False")
        _note_assumption(_depth + 1)
        f = z3.simplify(f)
        if z3.is_true(f):
            return
        self.pc.append(f)
        self.solver.add(f)

    def feasible(self, f=None):
        self.solver.set('timeout', min(self.timeout_ms, int(os.environ.get('PYVC_FEAS_MS', '800'))))
        try:
            r, _ = self._check(*([f] if f is not None else []))
        finally:
            self.solver.set('timeout', self.timeout_ms)
        return r != z3.unsat

    def branch(self, cond, where=''):
        """Decide a symbolic condition; returns a python bool and extends the path condition."""
        if isinstance(cond, bool):
            return cond
        cond = z3.simplify(cond)
        if z3.is_true(cond):
            return True
        if z3.is_false(cond):
            return False
        it = getattr(self, 'interp', None)
        if it is not None and it.pure_depth > 0:
            # inside the element closure of a symbolic-length comprehension the condition is about the BOUND element index: the
            # closure is evaluated again for other indices, so a path decision taken here would silently be reused for them.  Only
            # a condition that is decided for every index (valid or unsatisfiable under the path condition) may pass
            if not self.feasible(z3.Not(cond)):
                return True
            if not self.feasible(cond):
                return False
            raise Unsupported("a branch on the element of a symbolic-length comprehension (%s)" % where)
        pos = len(self.taken)
        if pos < len(self.prefix):
            d = self.prefix[pos]
        else:
            t_ok = self.feasible(cond)
            f_ok = self.feasible(z3.Not(cond))
            if t_ok and f_ok:
                d = 1
                self.pending.append(self.taken + [0])
            elif t_ok:
                d = 1
            elif f_ok:
                d = 0
            else:
                raise PathCut("infeasible path")
        self.taken.append(d)
        self.assume(cond if d else z3.Not(cond))
        return bool(d)

    def choose(self, n, where=''):
        """n-way non-deterministic choice (loop cut points)."""
        pos = len(self.taken)
        if pos < len(self.prefix):
            d = self.prefix[pos]
        else:
            d = 0
            for alt in range(1, n):
                self.pending.append(self.taken + [alt])
        self.taken.append(d)
        return d

    def oblige(self, name, goal, where='', pure_hyps=None, assume_after=True):
        import time
        if isinstance(goal, bool):
            goal = z3.BoolVal(goal)
        goal = z3.simplify(goal)
        if not where and self.where_stack:
            where = self.where_stack[-1]
        t0 = time.time()
        if z3.is_true(goal):
            self.obligations.append(Obligation(name, 'proved', where=where))
            return
        if pure_hyps is not None:
            # algebraic identity at a fresh index: decided on its own, array elements abstracted
            from .backends import prove_pure
            r0, m0 = prove_pure(list(pure_hyps) + [f for f in self.pc if not _has_quantifier(f)], goal, self.timeout_ms * 2)
            dt = time.time() - t0
            self.solver_time += dt
            self.solver_calls += 1
            if r0 == 'unsat':
                self.obligations.append(Obligation(name, 'proved', where=where, time=dt, detail='pure'))
                return
        r, m = self._check(z3.Not(goal))
        if r == z3.unknown:
            # retry without the quantified conjuncts of the path condition; a model found this way
            # is only a candidate and must reproduce natively to count (weak model)
            s2 = z3.Solver()
            s2.set('timeout', self.timeout_ms)
            for f in self.pc:
                if not _has_quantifier(f):
                    s2.add(f)
            s2.add(z3.Not(goal))
            if s2.check() == z3.sat:
                dt = time.time() - t0
                self.obligations.append(Obligation(name, 'refuted', model=s2.model(), where=where, time=dt,
                                                   detail='[weak model: quantified hypotheses dropped] ' + str(goal)[:360]))
                if assume_after:
                    self.assume(goal)
                return
        dt = time.time() - t0
        if r == z3.unsat:
            self.obligations.append(Obligation(name, 'proved', where=where, time=dt))
        elif r == z3.sat:
            self.obligations.append(Obligation(name, 'refuted', model=m, where=where, time=dt,
                                               detail=str(goal)[:400]))
        else:
            # second back end
            from .backends import cvc5_check
            r2 = cvc5_check(self.pc, z3.Not(goal), timeout_ms=3 * self.timeout_ms)
            dt = time.time() - t0
            if r2 == 'unsat':
                self.obligations.append(Obligation(name, 'proved', where=where, time=dt, detail='cvc5'))
            else:
                self.obligations.append(Obligation(name, 'unknown', where=where, time=dt,
                                                   detail=str(goal)[:400]))
        if assume_after:
            self.assume(goal)

    def cover(self, name):
        self.covers.add(name)


# =============================================================================================
# environments and program loading

class Env(object):
    def __init__(self, parent=None, vars=None, kind='func'):
        self.parent = parent
        self.vars = vars if vars is not None else {}
        self.kind = kind
        self.globals_decl = set()
        self.nonlocal_decl = set()

    def lookup(self, name):
        e = self
        while e is not None:
            if name in e.vars:
                return e.vars[name]
            e = e.parent
            # class scopes are skipped by nested functions
            while e is not None and e.kind == 'class':
                e = e.parent
        raise KeyError(name)

    def assign(self, name, value):
        if name in self.nonlocal_decl or name in self.globals_decl:
            e = self.parent
            while e is not None:
                if name in e.vars and (name in self.nonlocal_decl or e.kind == 'module'):
                    e.vars[name] = value
                    return
                e = e.parent
        self.vars[name] = value


class ModuleVal(Model):
    def __init__(self, name, env, path):
        self.name = name
        self.env = env
        self.path = path

    def __repr__(self):
        return "<module %s>" % self.name

    def py_getattr(self, it, name):
        if name in self.env.vars:
            return self.env.vars[name]
        raise Unsupported("module %s has no attribute %s" % (self.name, name))


class StarSeq(object):
    """f(*seq) with seq of symbolic length, for callees that accept it (star_ok)"""

    def __init__(self, seq):
        self.seq = seq


class Unmodelled(Model):
    def __init__(self, what):
        self.what = what

    def __repr__(self):
        return "<unmodelled %s>" % self.what

    def py_getattr(self, it, name):
        return Unmodelled(self.what + "." + name)

    def py_call(self, it, args, kwargs):
        raise Unsupported("call of unmodelled %s" % self.what)


def _loop_ordinals(fnode):
    """Number the for/while loops of a function in source order (nested defs excluded)."""
    out = {}

    class Vis(ast.NodeVisitor):
        def __init__(self):
            self.n = 0

        def visit_For(self, node):
            out[id(node)] = self.n
            self.n += 1
            self.generic_visit(node)

        def visit_While(self, node):
            out[id(node)] = self.n
            self.n += 1
            self.generic_visit(node)

        def visit_FunctionDef(self, node):
            if node is fnode:
                self.generic_visit(node)

        def visit_Lambda(self, node):
            pass

    Vis().visit(fnode)
    return out


def _assigned_names(stmts):
    names = set()

    class Vis(ast.NodeVisitor):
        def visit_Name(self, node):
            if isinstance(node.ctx, (ast.Store, ast.Del)):
                names.add(node.id)

        def visit_FunctionDef(self, node):
            names.add(node.name)

        def visit_Lambda(self, node):
            pass

        def visit_ListComp(self, node):
            pass

        def visit_GeneratorExp(self, node):
            pass

    for s in stmts:
        Vis().visit(s)
    return names


class Program(object):
    """The repository source, parsed on every run."""

    def __init__(self, root='/repo/src', lib=None):
        self.root = root
        self.modules = {}
        self.lib = lib
        self.sources = {}
        self.func_index = {}    # qualname -> (path, lineno, end_lineno, sha)

    def path_of(self, modname):
        base = os.path.join(self.root, *modname.split('.'))
        if os.path.isdir(base) and os.path.exists(os.path.join(base, '__init__.py')):
            return os.path.join(base, '__init__.py'), True
        if os.path.exists(base + '.py'):
            return base + '.py', False
        return None, False

    def module(self, it, modname):
        if modname in self.modules:
            return self.modules[modname]
        path, is_pkg = self.path_of(modname)
        if path is None:
            raise Unsupported("no source for module %s" % modname)
        src = open(path).read()
        self.sources[path] = src
        tree = ast.parse(src, filename=path)
        env = Env(parent=it.builtins_env, kind='module')
        mod = ModuleVal(modname, env, path)
        mod.is_pkg = is_pkg
        mod.src_lines = src.splitlines()
        self.modules[modname] = mod
        env.vars['__name__'] = modname
        it.exec_module_body(tree.body, env, mod)
        return mod

    def record_func(self, mod, qualname, node):
        seg = "\n".join(mod.src_lines[node.lineno - 1:node.end_lineno])
        sha = hashlib.sha256(seg.encode()).hexdigest()[:16]
        self.func_index[mod.name + ":" + qualname] = (mod.path, node.lineno, node.end_lineno, sha)


# =============================================================================================
# the interpreter

class LoopSpec(object):
    def __init__(self, inv, modifies=(), havoc=None, inplace=(), note='', ghost=None, before=None):
        self.ghost = ghost          # callable(it, view, k): set ghost state (e.g. rng epoch) for iteration k
        self.before = before        # callable(it, view): capture entry values (called before init)
        self.inv = inv              # callable(view, k) -> list of (name, z3 Bool)
        self.modifies = tuple(modifies)
        self.havoc = havoc or {}    # name -> callable(it, old) -> new value
        self.inplace = tuple(inplace)  # callables(it, view) performing in-place havoc
        self.note = note


class View(object):
    """Read access to the local variables of the function under contract (for invariants)."""

    def __init__(self, it, env):
        self._it = it
        self._env = env

    def __getitem__(self, name):
        return self._env.lookup(name)

    def get(self, name, default=None):
        try:
            return self._env.lookup(name)
        except KeyError:
            return default

    def attr(self, obj, name):
        return self._it.getattr(obj, name)

    def set(self, name, value):
        self._env.assign(name, value)


class Interp(object):
    MAX_DEPTH = 40

    def __init__(self, program, ctx, lib):
        self.program = program
        self.ctx = ctx
        self.lib = lib
        self.summaries = {}      # qualname -> callable(it, args, kwargs)
        self.loop_specs = {}     # (qualname, ordinal) -> LoopSpec
        self.depth = 0
        self.func_stack = []
        self.builtins_env = Env(kind='module', vars=lib.make_builtins(self))
        self.drop_log = set()
        self.inlined = set()
        self.rng_epoch = 0
        self.rng_log = []
        self.lazy_index = None
        self.pure_depth = 0

    # ---------------------------------------------------------------- modules
    def exec_module_body(self, body, env, mod):
        for st in body:
            try:
                if isinstance(st, (ast.Import, ast.ImportFrom)):
                    self.exec_import(st, env, mod)
                elif isinstance(st, ast.FunctionDef):
                    env.vars[st.name] = self.make_func(st, env, mod, st.name)
                elif isinstance(st, ast.ClassDef):
                    env.vars[st.name] = self.make_class(st, env, mod)
                elif isinstance(st, ast.Expr) and isinstance(st.value, ast.Constant):
                    pass
                else:
                    saved = self.cur_module if hasattr(self, 'cur_module') else None
                    self.cur_module = mod
                    try:
                        self.exec_stmt(st, env)
                    finally:
                        self.cur_module = saved
            except (Unsupported, PyRaise) as e:
                # a module-level statement the engine cannot evaluate (e.g. `__all__ = [... dir() ...]`): the names it binds
                # are marked unmodelled; functions and classes of the module are unaffected
                for n in _assigned_names([st]):
                    env.vars[n] = Unmodelled("%s.%s (%s)" % (mod.name, n, e))
                if isinstance(st, (ast.Import, ast.ImportFrom)):
                    for a in st.names:
                        nm = (a.asname or a.name).split('.')[0]
                        env.vars[nm] = Unmodelled(nm)

    def exec_import(self, st, env, mod):
        if isinstance(st, ast.Import):
            for a in st.names:
                top = a.name.split('.')[0]
                if top == 'pygom':
                    target = self.program.module(self, a.name)
                    env.vars[a.asname or top] = target if a.asname else self.program.module(self, top)
                else:
                    ns = self.lib.namespace(a.name if a.asname else top)
                    env.vars[a.asname or top] = ns
            return
        # from X import ...
        level = st.level
        modname = st.module or ''
        if level:
            parts = mod.name.split('.')
            if not getattr(mod, 'is_pkg', False):
                parts = parts[:-1]
            if level > 1:
                parts = parts[:-(level - 1)]
            full = '.'.join(parts + ([modname] if modname else []))
        else:
            full = modname
        for a in st.names:
            nm = a.asname or a.name
            if full.split('.')[0] == 'pygom':
                sub_path, _ = self.program.path_of(full + '.' + a.name)
                if sub_path is not None:
                    env.vars[nm] = self.program.module(self, full + '.' + a.name)
                    continue
                target = self.program.module(self, full)
                if a.name == '*':
                    for k, v in target.env.vars.items():
                        if not k.startswith('_'):
                            env.vars[k] = v
                elif a.name in target.env.vars:
                    env.vars[nm] = target.env.vars[a.name]
                else:
                    env.vars[nm] = Unmodelled(full + '.' + a.name)
            else:
                try:
                    ns = self.lib.namespace(full)
                    env.vars[nm] = ns.py_getattr(self, a.name)
                except Unsupported:
                    env.vars[nm] = Unmodelled(full + '.' + a.name)

    def make_func(self, node, env, mod, qualname, cls=None):
        defaults = [self.eval(d, env) for d in node.args.defaults]
        kw_defaults = [None if d is None else self.eval(d, env) for d in node.args.kw_defaults]
        fv = FuncVal(node, env, mod, qualname, defaults, kw_defaults, cls)
        if isinstance(node, ast.FunctionDef):
            node._loops = _loop_ordinals(node)
            self.program.record_func(mod, qualname, node)
        return fv

    def make_class(self, node, env, mod):
        bases = []
        for b in node.bases:
            try:
                bases.append(self.eval(b, env))
            except (Unsupported, KeyError):
                bases.append(TypeTag(ast.unparse(b)))
        is_enum = any(isinstance(b, TypeTag) and b.name == 'Enum' for b in bases)
        cenv = Env(parent=env, kind='class')
        cls = ClassVal(node.name, bases, cenv.vars, mod)
        for st in node.body:
            if isinstance(st, ast.FunctionDef):
                fv = self.make_func(st, cenv, mod, node.name + "." + st.name, cls)
                val = fv
                for dec in st.decorator_list:
                    if isinstance(dec, ast.Name) and dec.id == 'property':
                        val = PropertyVal(fget=fv)
                    elif isinstance(dec, ast.Attribute) and dec.attr == 'setter':
                        old = cenv.vars.get(dec.value.id)
                        val = PropertyVal(fget=old.fget if isinstance(old, PropertyVal) else None, fset=fv)
                        self.program.record_func(mod, node.name + "." + st.name + ".setter", st)
                        fv.qualname = node.name + "." + st.name + ".setter"
                    elif isinstance(dec, ast.Name) and dec.id in ('staticmethod', 'classmethod'):
                        raise Unsupported("decorator " + dec.id)
                    else:
                        pass  # other decorators (cython directives, lru_cache) are transparent
                cenv.vars[st.name] = val
            elif isinstance(st, ast.Expr) and isinstance(st.value, ast.Constant):
                pass
            elif isinstance(st, ast.Pass):
                pass
            else:
                self.exec_stmt(st, cenv)
        if is_enum:
            for k, v in list(cenv.vars.items()):
                if not k.startswith('_') and not isinstance(v, (FuncVal, PropertyVal)):
                    cenv.vars[k] = EnumMember(node.name, k, v)
            cls.extra_tags.add('Enum')
        return cls

    # ---------------------------------------------------------------- calls
    def bind_args(self, fv, args, kwargs):
        a = fv.node.args
        params = [p.arg for p in a.posonlyargs + a.args]
        local = {}
        args = list(args)
        if len(args) > len(params) and a.vararg is None:
            raise PyRaise(ExcVal('TypeError', ("too many positional arguments for %s" % fv.qualname,)))
        for name, val in zip(params, args):
            local[name] = val
        if a.vararg is not None:
            local[a.vararg.arg] = tuple(args[len(params):])
        kwargs = dict(kwargs)
        for name in params[len(args):]:
            if name in kwargs:
                local[name] = kwargs.pop(name)
        for name in list(kwargs):
            if name in params and name in local and name not in params[len(args):]:
                raise PyRaise(ExcVal('TypeError', ("multiple values for argument %s" % name,)))
        nd = len(fv.defaults)
        for i, name in enumerate(params):
            if name not in local:
                j = i - (len(params) - nd)
                if j >= 0:
                    local[name] = fv.defaults[j]
                else:
                    raise PyRaise(ExcVal('TypeError', ("missing argument %s of %s" % (name, fv.qualname),)))
        for p, d in zip(a.kwonlyargs, fv.kw_defaults):
            if p.arg in kwargs:
                local[p.arg] = kwargs.pop(p.arg)
            elif d is not None or True:
                local[p.arg] = d
        if a.kwarg is not None:
            local[a.kwarg.arg] = dict(kwargs)
        elif kwargs:
            raise PyRaise(ExcVal('TypeError', ("unexpected keyword %s for %s" % (list(kwargs), fv.qualname),)))
        return local

    def call(self, f, args=(), kwargs=None):
        kwargs = kwargs or {}
        if isinstance(f, BoundMethod):
            return self.call(f.func, (f.self_obj,) + tuple(args), kwargs)
        if isinstance(f, FuncVal):
            key = f.module.name + ":" + f.qualname
            if key in self.summaries and key not in self.func_stack_keys():
                return self.summaries[key](self, args, kwargs)
            return self.call_func(f, args, kwargs)
        if isinstance(f, ClassVal):
            return self.instantiate(f, args, kwargs)
        if isinstance(f, Unmodelled) and ('unmodelled:' + f.what.split(' ')[0]) in self.summaries:
            return self.summaries['unmodelled:' + f.what.split(' ')[0]](self, args, kwargs)
        if isinstance(f, Model):
            return f.py_call(self, args, kwargs)
        if isinstance(f, ObjVal):
            m, _ = f.cls.lookup('__call__')
            if m is not None:
                return self.call(m, (f,) + tuple(args), kwargs)
        raise Unsupported("call of %r" % (f,))

    def func_stack_keys(self):
        return [k for k, _ in self.func_stack[-1:]] if False else [k for k, _ in self.func_stack if _ == 'verify']

    def call_func(self, fv, args, kwargs, mode='inline'):
        if self.depth > self.MAX_DEPTH:
            raise Unsupported("call depth exceeded at %s" % fv.qualname)
        local = self.bind_args(fv, args, kwargs)
        env = Env(parent=fv.env, vars=local, kind='func')
        env.func = fv
        key = fv.module.name + ":" + fv.qualname
        self.func_stack.append((key, mode))
        if mode == 'inline':
            self.inlined.add(key)
        self.depth += 1
        saved_mod = getattr(self, 'cur_module', None)
        self.cur_module = fv.module
        try:
            if isinstance(fv.node, ast.Lambda):
                return self.eval(fv.node.body, env)
            if self._is_generator(fv.node):
                return self._run_generator(fv, env)
            try:
                self.exec_block(fv.node.body, env)
            except ReturnEx as r:
                return r.value
            return None
        finally:
            self.depth -= 1
            self.func_stack.pop()
            self.cur_module = saved_mod

    def _is_generator(self, node):
        for n in ast.walk(node):
            if isinstance(n, (ast.Yield, ast.YieldFrom)):
                return True
        return False

    def _run_generator(self, fv, env):
        # only the shape `for v in <seq>: yield <expr>` is supported; summarised as the mapped seq
        body = [s for s in fv.node.body if not (isinstance(s, ast.Expr) and isinstance(s.value, ast.Constant))]
        if len(body) == 1 and isinstance(body[0], ast.For) and len(body[0].body) == 1 \
                and isinstance(body[0].body[0], ast.Expr) and isinstance(body[0].body[0].value, ast.Yield):
            loop = body[0]
            seq = self.iterate(self.eval(loop.iter, env))
            yexpr = loop.body[0].value.value

            def elem_fn(v):
                e2 = Env(parent=env, kind='func')
                self.pure_depth += 1
                try:
                    self.assign_target(loop.target, v, e2)
                    return self.eval(yexpr, e2)
                finally:
                    self.pure_depth -= 1
            if isinstance(seq, SymIter):
                return self.lib.SList(seq.length, lambda k: elem_fn(seq.element(k)))
            return [elem_fn(v) for v in seq]
        raise Unsupported("generator function %s" % fv.qualname)

    def instantiate(self, cls, args, kwargs):
        if 'Enum' in cls.all_tags():
            raise Unsupported("enum call")
        exc_base = any(isinstance(b, TypeTag) and b.name in ('Exception', 'BaseException') for c in cls.mro() for b in c.bases)
        if exc_base:
            tags = cls.all_tags() | {'Exception', 'BaseException'}
            return ExcVal(cls.name, tuple(args), tags)
        obj = ObjVal(cls)
        init, _ = cls.lookup('__init__')
        if init is not None:
            self.call(init, (obj,) + tuple(args), kwargs)
        return obj

    # ---------------------------------------------------------------- attributes
    def getattr(self, obj, name):
        if isinstance(obj, ObjVal):
            cval, _ = obj.cls.lookup(name)
            if isinstance(cval, PropertyVal):
                if cval.fget is None:
                    raise PyRaise(ExcVal('AttributeError', (name,)))
                return self.call(cval.fget, (obj,))
            if name in obj.fields:
                return obj.fields[name]
            if cval is not None:
                if isinstance(cval, FuncVal):
                    return BoundMethod(cval, obj)
                return cval
            if name == '__dict__':
                return obj.fields
            if name == '__setattr__':
                return Builtin('object.__setattr__', lambda it, a, k: it.setattr(obj, a[0], a[1], raw_ok=True))
            if name == '__class__':
                return obj.cls
            ga, _ = obj.cls.lookup('__getattr__')
            if ga is not None:
                return self.call(ga, (obj, name))
            raise PyRaise(ExcVal('AttributeError', ("'%s' object has no attribute '%s'" % (obj.cls.name, name),)))
        if isinstance(obj, SuperProxy):
            cval, _ = obj.obj.cls.lookup(name, after=obj.cls)
            if cval is None:
                if name == '__init__':
                    return Builtin('object.__init__', lambda it, a, k: None)
                if name == '__setattr__':
                    return Builtin('object.__setattr__', lambda it, a, k: it.setattr(obj.obj, a[0], a[1], raw=True))
                raise PyRaise(ExcVal('AttributeError', (name,)))
            if isinstance(cval, PropertyVal):
                return self.lib.PropertyProxy(cval, obj.obj)
            if isinstance(cval, FuncVal):
                return BoundMethod(cval, obj.obj)
            return cval
        if isinstance(obj, ClassVal):
            cval, _ = obj.lookup(name)
            if cval is not None:
                return cval
            if name == '__name__':
                return obj.name
            raise PyRaise(ExcVal('AttributeError', (name,)))
        if isinstance(obj, Model):
            return obj.py_getattr(self, name)
        if isinstance(obj, FuncVal):
            if name == '__get__':
                return Builtin('function.__get__', lambda it, a, k: BoundMethod(obj, a[0]))
            if name == '__name__':
                return obj.qualname.split('.')[-1]
            raise Unsupported("function attribute %s" % name)
        if isinstance(obj, EnumMember):
            if name == 'value':
                return obj.value
            if name == 'name':
                return obj.name
        if isinstance(obj, ExcVal):
            if name == 'args':
                return obj.args
        return self.lib.getattr_concrete(self, obj, name)

    def hasattr(self, obj, name):
        try:
            self.getattr(obj, name)
            return True
        except PyRaise as e:
            if 'AttributeError' in e.exc.tags:
                return False
            raise

    def setattr(self, obj, name, value, raw=False, raw_ok=False):
        if isinstance(obj, ObjVal):
            if not raw:
                if not raw_ok:
                    sa, _ = obj.cls.lookup('__setattr__')
                    if sa is not None:
                        return self.call(sa, (obj, name, value))
                cval, _ = obj.cls.lookup(name)
                if isinstance(cval, PropertyVal):
                    if cval.fset is None:
                        raise PyRaise(ExcVal('AttributeError', ("can't set attribute %s" % name,)))
                    return self.call(cval.fset, (obj, value))
            obj.fields[name] = value
            self.on_field_write(obj, name, value)
            return None
        if isinstance(obj, Model):
            return obj.py_setattr(self, name, value)
        if isinstance(obj, ClassVal):
            obj.attrs[name] = value
            return None
        raise Unsupported("setattr on %r" % (obj,))

    def on_field_write(self, obj, name, value):
        """hook for ghost state (frame conditions); overridden by contracts"""
        hook = getattr(self, 'field_write_hook', None)
        if hook:
            hook(obj, name, value)

    # ---------------------------------------------------------------- statements
    def exec_block(self, stmts, env):
        for st in stmts:
            self.exec_stmt(st, env)

    def exec_stmt(self, st, env):
        m = getattr(self, 'exec_' + type(st).__name__, None)
        if m is None:
            raise Unsupported("statement %s" % type(st).__name__)
        self.cur_line = getattr(st, 'lineno', 0)
        self._nstmt = getattr(self, '_nstmt', 0) + 1
        if self._nstmt % 256 == 0 and DEADLINE[0] is not None:
            import time
            if time.time() > DEADLINE[0]:
                raise Unsupported("wall-time budget of the contract exhausted")
        return m(st, env)

    def exec_Expr(self, st, env):
        if isinstance(st.value, ast.Constant):
            return
        if isinstance(st.value, ast.Call):
            f = st.value.func
            # extraction drops print(...) and logging.*(...) calls
            if isinstance(f, ast.Name) and f.id == 'print':
                self.drop_log.add('print')
                return
            if isinstance(f, ast.Attribute) and isinstance(f.value, ast.Name) and f.value.id == 'logging':
                self.drop_log.add('logging')
                return
        self.eval(st.value, env)

    def exec_Pass(self, st, env):
        pass

    def exec_Import(self, st, env):
        self.exec_import(st, env, self.cur_module)

    def exec_ImportFrom(self, st, env):
        self.exec_import(st, env, self.cur_module)

    def exec_Global(self, st, env):
        env.globals_decl |= set(st.names)

    def exec_Nonlocal(self, st, env):
        env.nonlocal_decl |= set(st.names)

    def exec_FunctionDef(self, st, env):
        fn = getattr(env, 'func', None)
        qual = (fn.qualname + "." if fn else "") + st.name
        mod = fn.module if fn else self.cur_module
        env.assign(st.name, self.make_func(st, env, mod, qual, getattr(fn, 'cls', None)))

    def exec_ClassDef(self, st, env):
        env.assign(st.name, self.make_class(st, env, self.cur_module))

    def exec_Return(self, st, env):
        raise ReturnEx(None if st.value is None else self.eval(st.value, env))

    def exec_Break(self, st, env):
        raise BreakEx()

    def exec_Continue(self, st, env):
        raise ContinueEx()

    def exec_Assign(self, st, env):
        v = self.eval(st.value, env)
        for t in st.targets:
            self.assign_target(t, v, env)

    def exec_AnnAssign(self, st, env):
        if st.value is not None:
            self.assign_target(st.target, self.eval(st.value, env), env)

    def exec_AugAssign(self, st, env):
        t = st.target
        if isinstance(t, ast.Name):
            cur = self.lookup_name(t.id, env)
            new = self.binop(st.op, cur, self.eval(st.value, env), inplace=True)
            env.assign(t.id, new)
        elif isinstance(t, ast.Attribute):
            obj = self.eval(t.value, env)
            cur = self.getattr(obj, t.attr)
            new = self.binop(st.op, cur, self.eval(st.value, env), inplace=True)
            self.setattr(obj, t.attr, new)
        elif isinstance(t, ast.Subscript):
            obj = self.eval(t.value, env)
            idx = self.eval_index(t.slice, env)
            cur = self.getitem(obj, idx)
            new = self.binop(st.op, cur, self.eval(st.value, env), inplace=True)
            self.setitem(obj, idx, new)
        else:
            raise Unsupported("augassign target")

    def exec_Delete(self, st, env):
        raise Unsupported("del")

    def exec_Assert(self, st, env):
        c = self.truth(self.eval(st.test, env))
        if not self.ctx.branch(c, 'assert'):
            raise PyRaise(ExcVal('AssertionError', ()))

    def exec_Raise(self, st, env):
        if st.exc is None:
            cur = getattr(self, 'handling', None)
            if cur is None:
                raise Unsupported("bare raise outside handler")
            raise PyRaise(cur)
        e = self.eval(st.exc, env)
        if isinstance(e, ClassVal):
            e = self.instantiate(e, (), {})
        if isinstance(e, TypeTag):
            e = ExcVal(e.name, ())
        if not isinstance(e, ExcVal):
            raise Unsupported("raise of %r" % (e,))
        raise PyRaise(e)

    def exec_If(self, st, env):
        c = self.truth(self.eval(st.test, env))
        if self.ctx.branch(c, 'if@%d' % st.lineno):
            self.exec_block(st.body, env)
        else:
            self.exec_block(st.orelse, env)

    def exec_Try(self, st, env):
        try:
            try:
                self.exec_block(st.body, env)
            except PyRaise as pr:
                for h in st.handlers:
                    if self.exc_matches(pr.exc, h.type, env):
                        if h.name:
                            env.assign(h.name, pr.exc)
                        saved = getattr(self, 'handling', None)
                        self.handling = pr.exc
                        try:
                            self.exec_block(h.body, env)
                        finally:
                            self.handling = saved
                        break
                else:
                    raise
            else:
                self.exec_block(st.orelse, env)
        finally:
            if st.finalbody:
                self.exec_block(st.finalbody, env)

    def exc_matches(self, exc, tnode, env):
        if tnode is None:
            return True
        t = self.eval(tnode, env)
        ts = t if isinstance(t, tuple) else (t,)
        for c in ts:
            nm = c.name if isinstance(c, (TypeTag, ClassVal)) else None
            if nm is None:
                raise Unsupported("except clause %r" % (c,))
            if nm in exc.tags:
                return True
        return False

    def exec_With(self, st, env):
        raise Unsupported("with statement")

    # ---- loops
    def cur_func(self, env):
        e = env
        while e is not None:
            if hasattr(e, 'func'):
                return e.func
            e = e.parent
        return None

    def loop_spec(self, node, env):
        fn = self.cur_func(env)
        if fn is None:
            return None, '?'
        ordn = getattr(fn.node, '_loops', {}).get(id(node))
        key = (fn.module.name + ":" + fn.qualname, ordn)
        return self.loop_specs.get(key), key

    def exec_For(self, st, env):
        seq = self.iterate(self.eval(st.iter, env))
        if not isinstance(seq, SymIter):
            broke = False
            for v in seq:
                self.assign_target(st.target, v, env)
                try:
                    self.exec_block(st.body, env)
                except BreakEx:
                    broke = True
                    break
                except ContinueEx:
                    continue
            if not broke:
                self.exec_block(st.orelse, env)
            return
        spec, key = self.loop_spec(st, env)
        if spec is None:
            raise Unsupported("loop %s over a sequence of symbolic length has no invariant" % (key,))
        n = seq.length
        tag = "%s#loop%s" % (key[0].split(':')[-1], key[1])
        view = View(self, env)
        self.ctx.assume(n >= 0)
        if spec.before:
            spec.before(self, view)
        for nm, f in spec.inv(view, z3.IntVal(0)):
            self.ctx.oblige("loop-init/%s@%s" % (nm, tag), f)
        which = self.ctx.choose(2, tag)
        self.havoc_loop(st, spec, env, view, tag)
        if which == 0:
            k = self.ctx.fresh_int('k')
            self.ctx.assume(z3.And(k >= 0, k < n))
            if spec.ghost:
                spec.ghost(self, view, k)
            for nm, f in spec.inv(view, k):
                self.ctx.assume(f)
            self.assign_target(st.target, seq.element(k), env)
            try:
                self.exec_block(st.body, env)
            except ContinueEx:
                pass
            except BreakEx:
                return
            for nm, f in spec.inv(view, k + 1):
                self.ctx.oblige("loop-preserve/%s@%s" % (nm, tag), f)
            self.ctx.cover("loop-body@" + tag)
            raise PathCut("loop body verified")
        else:
            if spec.ghost:
                spec.ghost(self, view, to_num(n))
            for nm, f in spec.inv(view, n):
                self.ctx.assume(f)
            self.exec_block(st.orelse, env)

    def havoc_loop(self, st, spec, env, view, tag):
        names = _assigned_names(st.body) | set(spec.modifies)
        if isinstance(st, ast.For):
            names -= _assigned_names([ast.Expr(value=st.target)]) if False else set()
        for nm in sorted(names):
            try:
                old = env.lookup(nm)
            except KeyError:
                if nm in spec.havoc:
                    # first assigned inside the loop body: the contract supplies a MaybeUnbound value
                    env.assign(nm, spec.havoc[nm](self, None))
                continue
            if nm in spec.havoc:
                env.assign(nm, spec.havoc[nm](self, old))
            elif nm in spec.modifies and hasattr(old, 'havoc_inplace'):
                old.havoc_inplace(self, nm)      # mutated through a subscript/method: same object, fresh contents
            else:
                env.assign(nm, self.fresh_like(old, nm))
        for f in spec.inplace:
            f(self, view)

    def fresh_like(self, v, hint):
        if isinstance(v, Model):
            return v.fresh_like(self, hint)
        if isinstance(v, (z3.ArithRef, z3.BoolRef)) or isinstance(v, (bool, int, float)):
            return self.ctx.fresh_like_num(v, hint)
        if isinstance(v, tuple):
            return tuple(self.fresh_like(x, hint) for x in v)
        if v is None:
            return None
        if isinstance(v, (FuncVal, BoundMethod, ClassVal, str)):
            return v
        raise Unsupported("cannot havoc %s = %r" % (hint, v))

    def exec_While(self, st, env):
        spec, key = self.loop_spec(st, env)
        if spec is None:
            # concrete unrolling only
            count = 0
            while True:
                c = self.truth(self.eval(st.test, env))
                if not isinstance(c, bool):
                    raise Unsupported("while loop %s with symbolic condition has no invariant" % (key,))
                if not c:
                    self.exec_block(st.orelse, env)
                    return
                count += 1
                if count > 64:
                    raise Unsupported("while loop %s did not terminate concretely" % (key,))
                try:
                    self.exec_block(st.body, env)
                except BreakEx:
                    return
                except ContinueEx:
                    continue
        tag = "%s#loop%s" % (key[0].split(':')[-1], key[1])
        view = View(self, env)
        j0 = z3.IntVal(0)
        if spec.before:
            spec.before(self, view)
        for nm, f in spec.inv(view, j0):
            self.ctx.oblige("loop-init/%s@%s" % (nm, tag), f)
        which = self.ctx.choose(2, tag)
        self.havoc_loop(st, spec, env, view, tag)
        k = self.ctx.fresh_int('k')
        self.ctx.assume(k >= 0)
        if spec.ghost:
            spec.ghost(self, view, k)
        for nm, f in spec.inv(view, k):
            self.ctx.assume(f)
        c = self.truth(self.eval(st.test, env))
        if which == 0:
            if not self.ctx.branch(c if isinstance(c, bool) else c, 'while-enter'):
                raise PathCut("loop not entered on the preservation path")
            try:
                self.exec_block(st.body, env)
            except ContinueEx:
                pass
            except BreakEx:
                return
            for nm, f in spec.inv(view, k + 1):
                self.ctx.oblige("loop-preserve/%s@%s" % (nm, tag), f)
            self.ctx.cover("loop-body@" + tag)
            raise PathCut("loop body verified")
        else:
            if self.ctx.branch(c, 'while-exit'):
                raise PathCut("exit path requires the condition to be false")
            self.exec_block(st.orelse, env)

    # ---- assignment targets
    def assign_target(self, t, v, env):
        if isinstance(t, ast.Name):
            env.assign(t.id, v)
        elif isinstance(t, (ast.Tuple, ast.List)):
            vals = self.unpack(v, len(t.elts))
            for te, ve in zip(t.elts, vals):
                self.assign_target(te, ve, env)
        elif isinstance(t, ast.Attribute):
            self.setattr(self.eval(t.value, env), t.attr, v)
        elif isinstance(t, ast.Subscript):
            self.setitem(self.eval(t.value, env), self.eval_index(t.slice, env), v)
        else:
            raise Unsupported("assignment target %s" % type(t).__name__)

    def unpack(self, v, n):
        if isinstance(v, (tuple, list)):
            if len(v) != n:
                raise PyRaise(ExcVal('ValueError', ("unpack: expected %d values, got %d" % (n, len(v)),)))
            return list(v)
        seq = self.iterate(v)
        if isinstance(seq, SymIter):
            self.ctx.oblige("safety/unpack-arity", seq.length == n)
            return [seq.element(z3.IntVal(i)) for i in range(n)]
        if len(seq) != n:
            raise PyRaise(ExcVal('ValueError', ("unpack: expected %d values, got %d" % (n, len(seq)),)))
        return list(seq)

    # ---------------------------------------------------------------- expressions
    def lookup_name(self, name, env):
        try:
            v = env.lookup(name)
            if isinstance(v, MaybeUnbound):
                self.ctx.oblige("safety/local-variable-is-bound (%s)" % name, v.cond)
                return v.value
            return v
        except KeyError:
            raise PyRaise(ExcVal('NameError', (name,), {'NameError', 'UnboundLocalError', 'Exception', 'BaseException'}))

    def eval(self, e, env):
        m = getattr(self, 'eval_' + type(e).__name__, None)
        if m is None:
            raise Unsupported("expression %s" % type(e).__name__)
        return m(e, env)

    def eval_Constant(self, e, env):
        return e.value

    def eval_Name(self, e, env):
        return self.lookup_name(e.id, env)

    def eval_Attribute(self, e, env):
        return self.getattr(self.eval(e.value, env), e.attr)

    def eval_Tuple(self, e, env):
        out = []
        for x in e.elts:
            if isinstance(x, ast.Starred):
                out.extend(self.concrete_list(self.eval(x.value, env)))
            else:
                out.append(self.eval(x, env))
        return tuple(out)

    def eval_List(self, e, env):
        return list(self.eval_Tuple(e, env))

    def eval_Dict(self, e, env):
        d = {}
        for k, v in zip(e.keys, e.values):
            if k is None:
                raise Unsupported("dict unpacking")
            d[self.hashable(self.eval(k, env))] = self.eval(v, env)
        return d

    def eval_Set(self, e, env):
        raise Unsupported("set literal")

    def eval_JoinedStr(self, e, env):
        return "<fstring>"

    def eval_Lambda(self, e, env):
        fn = self.cur_func(env)
        qual = (fn.qualname + "." if fn else "") + "<lambda@%d>" % e.lineno
        mod = fn.module if fn else self.cur_module
        return self.make_func(e, env, mod, qual)

    def eval_IfExp(self, e, env):
        c = self.truth(self.eval(e.test, env))
        if self.pure_depth and not isinstance(c, bool):
            # inside an element closure of a symbolic-length comprehension: no path split on a
            # condition about the (bound) element index; both arms are evaluated and merged
            a, b = self.eval(e.body, env), self.eval(e.orelse, env)
            if (a is None) != (b is None):
                # `v if cond else None`: an optional number
                v = to_num(b if a is None else a)
                if v is not None:
                    return SOpt(z3.Not(c) if b is None else c, v)
            za, zb = to_num(a), to_num(b)
            if za is None or zb is None:
                raise Unsupported("conditional expression with non-numeric arms in a comprehension")
            if za.is_int() != zb.is_int():
                za, zb = to_real(za), to_real(zb)
            return z3.If(c, za, zb)
        if self.ctx.branch(c, 'ifexp'):
            return self.eval(e.body, env)
        return self.eval(e.orelse, env)

    def eval_BoolOp(self, e, env):
        is_and = isinstance(e.op, ast.And)
        val = None
        for i, x in enumerate(e.values):
            val = self.eval(x, env)
            if i == len(e.values) - 1:
                return val
            t = self.truth(val)
            b = self.ctx.branch(t, 'boolop')
            if is_and and not b:
                return val if isinstance(val, bool) or not is_z3(val) else False
            if (not is_and) and b:
                return val if isinstance(val, bool) or not is_z3(val) else True
        return val

    def eval_UnaryOp(self, e, env):
        v = self.eval(e.operand, env)
        if isinstance(e.op, ast.Not):
            t = self.truth(v)
            return (not t) if isinstance(t, bool) else z3.Not(t)
        if isinstance(v, Model):
            r = v.py_unop(self, e.op)
            if r is not NotImplemented:
                return r
            raise Unsupported("unary op on %r" % (v,))
        if isinstance(e.op, ast.USub):
            return -v
        if isinstance(e.op, ast.UAdd):
            return v
        raise Unsupported("unary op")

    def eval_BinOp(self, e, env):
        return self.binop(e.op, self.eval(e.left, env), self.eval(e.right, env))

    def binop(self, op, a, b, inplace=False):
        if isinstance(a, Model):
            r = a.py_binop(self, op, b, False) if not inplace else \
                (a.py_ibinop(self, op, b) if hasattr(a, 'py_ibinop') else a.py_binop(self, op, b, False))
            if r is not NotImplemented:
                return r
        if isinstance(b, Model):
            r = b.py_binop(self, op, a, True)
            if r is not NotImplemented:
                return r
        if isinstance(a, ObjVal) or isinstance(b, ObjVal):
            raise Unsupported("operator on object")
        return self.binop_values(op, a, b)

    def binop_values(self, op, a, b):
        """numbers (python or z3), strings, lists, tuples"""
        if isinstance(op, ast.Mod) and isinstance(a, str):
            return "<formatted>"
        if isinstance(op, ast.Add) and (isinstance(a, str) or isinstance(b, str)):
            if isinstance(a, str) and isinstance(b, str):
                return a + b
            if isinstance(a, (str, SName)) and isinstance(b, (str, SName)):
                return self.lib.str_concat(self, a, b)
            raise PyRaise(ExcVal('TypeError', ("str + non-str",)))
        if isinstance(op, ast.Mult) and isinstance(a, list) and isinstance(b, z3.ArithRef) and len(a) == 1:
            return self.lib.repeat_list(self, a[0], b)
        if isinstance(op, ast.Mult) and isinstance(b, list) and isinstance(a, z3.ArithRef) and len(b) == 1:
            return self.lib.repeat_list(self, b[0], a)
        sym = is_z3(a) or is_z3(b)
        if not sym:
            try:
                if isinstance(op, ast.Add):
                    return a + b
                if isinstance(op, ast.Sub):
                    return a - b
                if isinstance(op, ast.Mult):
                    return a * b
                if isinstance(op, ast.Div):
                    if isinstance(a, (int, float)) and isinstance(b, (int, float)) and b == 0:
                        raise PyRaise(ExcVal('ZeroDivisionError', ()))
                    return a / b
                if isinstance(op, ast.FloorDiv):
                    return a // b
                if isinstance(op, ast.Mod):
                    return a % b
                if isinstance(op, ast.Pow):
                    return a ** b
            except TypeError as ex:
                raise PyRaise(ExcVal('TypeError', (str(ex),)))
            raise Unsupported("binary operator %s" % type(op).__name__)
        if a is None or b is None:
            raise PyRaise(ExcVal('TypeError', ("arithmetic with None",)))
        za, zb = to_num(a), to_num(b)
        if za is None or zb is None:
            raise Unsupported("arithmetic on %r and %r" % (a, b))
        if isinstance(op, ast.Add):
            return za + zb
        if isinstance(op, ast.Sub):
            return za - zb
        if isinstance(op, ast.Mult):
            return za * zb
        if isinstance(op, ast.Div):
            return to_real(za) / to_real(zb)
        if isinstance(op, ast.FloorDiv):
            if za.is_int() and zb.is_int():
                if self.ctx._check(z3.Not(zb > 0))[0] == z3.unsat:
                    self.ctx.oblige("safety/floordiv-positive-divisor", zb > 0)
                    return za / zb
                # a negative divisor is legal python (floor division); only zero raises
                self.ctx.oblige("safety/divisor-nonzero", zb != 0)
                return z3.If(zb > 0, za / zb, (-za) / (-zb))
            raise Unsupported("floor division of reals")
        if isinstance(op, ast.Mod):
            if za.is_int() and zb.is_int():
                if self.ctx._check(z3.Not(zb > 0))[0] == z3.unsat:
                    self.ctx.oblige("safety/mod-positive-divisor", zb > 0)
                    return za % zb
                self.ctx.oblige("safety/divisor-nonzero", zb != 0)
                return za - zb * z3.If(zb > 0, za / zb, (-za) / (-zb))
            raise Unsupported("mod of reals")
        if isinstance(op, ast.Pow):
            return self.lib.power(self, za, b)
        raise Unsupported("binary operator %s" % type(op).__name__)

    def eval_Compare(self, e, env):
        left = self.eval(e.left, env)
        result = None
        for op, rn in zip(e.ops, e.comparators):
            right = self.eval(rn, env)
            r = self.compare(op, left, right)
            if result is None:
                result = r
            else:
                result = self.and_(result, r)
            if result is False:
                return False
            left = right
        return result

    def and_(self, a, b):
        if isinstance(a, bool) and isinstance(b, bool):
            return a and b
        if a is True:
            return b
        if b is True:
            return a
        if a is False or b is False:
            return False
        if isinstance(a, Model) or isinstance(b, Model):
            return self.lib.logical_and(self, a, b)
        return z3.And(z3bool(a), z3bool(b))

    def not_(self, a):
        if isinstance(a, bool):
            return not a
        if isinstance(a, Model):
            return self.lib.logical_not(self, a)
        return z3.Not(z3bool(a))

    def compare(self, op, a, b):
        if isinstance(op, ast.Is):
            return self.is_(a, b)
        if isinstance(op, ast.IsNot):
            return self.not_(self.is_(a, b))
        if isinstance(op, ast.Eq):
            return self.eq(a, b)
        if isinstance(op, ast.NotEq):
            return self.not_(self.eq(a, b))
        if isinstance(op, ast.In):
            return self.contains(b, a)
        if isinstance(op, ast.NotIn):
            return self.not_(self.contains(b, a))
        # ordering
        if isinstance(a, Model) and not isinstance(a, SOpt):
            r = a.py_binop(self, op, b, False)
            if r is not NotImplemented:
                return r
        if isinstance(b, Model) and not isinstance(b, SOpt):
            r = b.py_binop(self, op, a, True)
            if r is not NotImplemented:
                return r
        if isinstance(a, SOpt):
            a = a.value(self, "compare")
        if isinstance(b, SOpt):
            b = b.value(self, "compare")
        if a is None or b is None:
            raise PyRaise(ExcVal('TypeError', ("ordering comparison with None",)))
        if isinstance(a, ObjVal) or isinstance(b, ObjVal):
            raise Unsupported("ordering of objects")
        if is_z3(a) or is_z3(b):
            za, zb = to_num(a), to_num(b)
            if za is None or zb is None:
                raise Unsupported("ordering of %r and %r" % (a, b))
        else:
            za, zb = a, b
        try:
            if isinstance(op, ast.Lt):
                return za < zb
            if isinstance(op, ast.LtE):
                return za <= zb
            if isinstance(op, ast.Gt):
                return za > zb
            if isinstance(op, ast.GtE):
                return za >= zb
        except TypeError as ex:
            raise PyRaise(ExcVal('TypeError', (str(ex),)))
        raise Unsupported("comparison %s" % type(op).__name__)

    def is_(self, a, b):
        if isinstance(a, SOpt) and b is None:
            return a.isnone
        if isinstance(b, SOpt) and a is None:
            return b.isnone
        if hasattr(a, 'py_is'):
            return a.py_is(self, b)
        if hasattr(b, 'py_is'):
            return b.py_is(self, a)
        if a is None or b is None:
            return a is b
        if isinstance(a, bool) or isinstance(b, bool):
            if isinstance(a, z3.BoolRef) or isinstance(b, z3.BoolRef):
                return z3bool(a) == z3bool(b)
            if is_z3(a) or is_z3(b):
                return False     # a number is never the object True/False
            return a is b
        if is_z3(a) or is_z3(b):
            raise Unsupported("`is` on symbolic values")
        return a is b

    def eq(self, a, b):
        if isinstance(a, Model):
            r = a.py_eq(self, b)
            if r is not NotImplemented:
                return r
        if isinstance(b, Model):
            r = b.py_eq(self, a)
            if r is not NotImplemented:
                return r
        if isinstance(a, ObjVal):
            m, _ = a.cls.lookup('__eq__')
            if m is not None:
                return self.truth(self.call(m, (a, b)))
            return a is b
        if isinstance(b, ObjVal):
            m, _ = b.cls.lookup('__eq__')
            if m is not None:
                return self.truth(self.call(m, (b, a)))
            return a is b
        if isinstance(a, (tuple, list)) and isinstance(b, (tuple, list)):
            if type(a) is not type(b) or len(a) != len(b):
                return False
            r = True
            for x, y in zip(a, b):
                r = self.and_(r, self.eq(x, y))
                if r is False:
                    return False
            return r
        if is_z3(a) or is_z3(b):
            if a is None or b is None or isinstance(a, (str, tuple, list, dict)) or isinstance(b, (str, tuple, list, dict)):
                return False
            if isinstance(a, z3.BoolRef) or isinstance(b, z3.BoolRef):
                if isinstance(a, (z3.BoolRef, bool)) and isinstance(b, (z3.BoolRef, bool)):
                    return z3bool(a) == z3bool(b)
            za, zb = to_num(a), to_num(b)
            if za is None or zb is None:
                return False
            return za == zb
        if isinstance(a, (EnumMember, ExcVal, FuncVal, ClassVal, BoundMethod)) or \
                isinstance(b, (EnumMember, ExcVal, FuncVal, ClassVal, BoundMethod)):
            return a is b
        try:
            return bool(a == b)
        except Exception:
            raise Unsupported("equality of %r and %r" % (a, b))

    def contains(self, container, item):
        if isinstance(container, Model):
            return container.py_contains(self, item)
        if isinstance(container, (tuple, list)):
            r = False
            for x in container:
                e = self.eq(x, item)
                if e is True:
                    return True
                if e is not False:
                    r = e if r is False else z3.Or(r, e)
            return r
        if isinstance(container, dict):
            return self.contains(list(container.keys()), item) if (is_z3(item) or isinstance(item, Model)) \
                else (self.hashable(item) in container)
        if isinstance(container, str) and isinstance(item, str):
            return item in container
        if isinstance(container, range) and isinstance(item, int):
            return item in container
        raise Unsupported("`in` on %r" % (container,))

    def hashable(self, k):
        if isinstance(k, (str, int, float, bool, tuple, EnumMember)) or k is None:
            return k
        if isinstance(k, (ObjVal, Model, FuncVal)):
            if hasattr(k, 'py_hash_key'):
                return k.py_hash_key(self)
            return k
        raise Unsupported("dict key %r" % (k,))

    def truth(self, v):
        if isinstance(v, bool):
            return v
        if v is None:
            return False
        if isinstance(v, z3.BoolRef):
            return v
        if isinstance(v, z3.ArithRef):
            return v != 0
        if isinstance(v, (int, float, str, tuple, list, dict, range)):
            return bool(v)
        if isinstance(v, Model):
            return v.py_truth(self)
        if isinstance(v, ObjVal):
            m, _ = v.cls.lookup('__bool__')
            if m is not None:
                return self.truth(self.call(m, (v,)))
            m, _ = v.cls.lookup('__len__')
            if m is not None:
                return self.truth(self.call(m, (v,)))
            return True
        if isinstance(v, (FuncVal, BoundMethod, ClassVal, EnumMember, ExcVal)):
            return True
        raise Unsupported("truth of %r" % (v,))

    # ---- calls
    def eval_Call(self, e, env):
        # super() needs the enclosing class
        if isinstance(e.func, ast.Name) and e.func.id == 'super':
            fn = self.cur_func(env)
            if fn is None or fn.cls is None:
                raise Unsupported("super() outside a method")
            self_obj = env.lookup(fn.node.args.args[0].arg)
            return SuperProxy(fn.cls, self_obj)
        f = self.eval(e.func, env)
        args = []
        for a in e.args:
            if isinstance(a, ast.Starred):
                sv = self.eval(a.value, env)
                if getattr(f, 'star_ok', False) and not isinstance(sv, (list, tuple)):
                    args.append(StarSeq(sv))     # callee takes its arguments as one opaque sequence
                else:
                    args.extend(self.concrete_list(sv))
            else:
                args.append(self.eval(a, env))
        kwargs = {}
        for k in e.keywords:
            if k.arg is None:
                d = self.eval(k.value, env)
                if not isinstance(d, dict):
                    raise Unsupported("** of non-dict")
                kwargs.update(d)
            else:
                kwargs[k.arg] = self.eval(k.value, env)
        self.ctx.where_stack.append("%s:%d" % (getattr(self.cur_module, 'name', '?'), e.lineno))
        try:
            return self.call(f, args, kwargs)
        finally:
            self.ctx.where_stack.pop()

    def concrete_list(self, v):
        if isinstance(v, (list, tuple)):
            return list(v)
        seq = self.iterate(v)
        if isinstance(seq, SymIter):
            raise Unsupported("star-unpacking of a symbolic-length sequence")
        return list(seq)

    # ---- subscripts
    def eval_index(self, s, env):
        if isinstance(s, ast.Slice):
            return slice(None if s.lower is None else self.eval(s.lower, env),
                         None if s.upper is None else self.eval(s.upper, env),
                         None if s.step is None else self.eval(s.step, env))
        if isinstance(s, ast.Tuple):
            return tuple(self.eval_index(x, env) for x in s.elts)
        return self.eval(s, env)

    def eval_Subscript(self, e, env):
        return self.getitem(self.eval(e.value, env), self.eval_index(e.slice, env))

    def getitem(self, obj, idx):
        if isinstance(obj, Model):
            return obj.py_getitem(self, idx)
        if isinstance(obj, (list, tuple, str, range)):
            if isinstance(idx, slice):
                if any(is_z3(x) for x in (idx.start, idx.stop, idx.step)):
                    return self.lib.slice_concrete_seq(self, obj, idx)
                return obj[idx]
            if isinstance(idx, bool):
                idx = int(idx)
            if isinstance(idx, int):
                if -len(obj) <= idx < len(obj):
                    return obj[idx]
                raise PyRaise(ExcVal('IndexError', ("index %d out of range" % idx,), {'IndexError', 'LookupError', 'Exception', 'BaseException'}))
            if isinstance(idx, z3.ArithRef):
                return self.lib.select_concrete_seq(self, obj, idx)
            raise PyRaise(ExcVal('TypeError', ("bad index %r" % (idx,),)))
        if isinstance(obj, dict):
            if is_z3(idx) or isinstance(idx, Model):
                return self.lib.dict_lookup_symbolic(self, obj, idx)
            k = self.hashable(idx)
            if k in obj:
                return obj[k]
            raise PyRaise(ExcVal('KeyError', (k,), {'KeyError', 'LookupError', 'Exception', 'BaseException'}))
        if isinstance(obj, ObjVal):
            m, _ = obj.cls.lookup('__getitem__')
            if m is not None:
                return self.call(m, (obj, idx))
        raise Unsupported("subscript of %r" % (obj,))

    def setitem(self, obj, idx, v):
        if isinstance(obj, Model):
            return obj.py_setitem(self, idx, v)
        if isinstance(obj, list):
            if isinstance(idx, int):
                if -len(obj) <= idx < len(obj):
                    obj[idx] = v
                    return
                raise PyRaise(ExcVal('IndexError', ("assignment index out of range",), {'IndexError', 'LookupError', 'Exception', 'BaseException'}))
            if isinstance(idx, z3.ArithRef):
                return self.lib.store_concrete_list(self, obj, idx, v)
            if isinstance(idx, slice) and all(x is None or isinstance(x, int) for x in (idx.start, idx.stop, idx.step)) and isinstance(v, (list, tuple)):
                obj[idx] = list(v)          # concrete slice assignment on a concrete list
                return
            raise Unsupported("list setitem with %r" % (idx,))
        if isinstance(obj, dict):
            if is_z3(idx):
                raise Unsupported("dict store with symbolic key")
            obj[self.hashable(idx)] = v
            return
        raise Unsupported("setitem on %r" % (obj,))

    # ---- iteration
    def iterate(self, v):
        """concrete python list of elements, or SymIter"""
        if isinstance(v, (list, tuple, range, str)):
            return list(v)
        if isinstance(v, dict):
            return list(v.keys())
        if isinstance(v, Model):
            return v.py_iter(self)
        if isinstance(v, SymIter):
            return v
        raise PyRaise(ExcVal('TypeError', ("%r is not iterable" % (v,),)))

    def length(self, v):
        if isinstance(v, (list, tuple, str, dict, range)):
            return len(v)
        if isinstance(v, Model):
            return v.py_len(self)
        if isinstance(v, ObjVal):
            m, _ = v.cls.lookup('__len__')
            if m is not None:
                return self.call(m, (v,))
        raise PyRaise(ExcVal('TypeError', ("object of type %s has no len()" % type(v).__name__,)))

    # ---- comprehensions
    def eval_ListComp(self, e, env):
        return self.comprehension(e.elt, e.generators, env)

    def eval_GeneratorExp(self, e, env):
        return self.comprehension(e.elt, e.generators, env)

    def comprehension(self, elt, gens, env):
        if len(gens) == 2 and not gens[0].ifs and not gens[1].ifs:
            return self.comprehension2(elt, gens, env)
        if len(gens) != 1:
            raise Unsupported("nested comprehension")
        g = gens[0]
        seq = self.iterate(self.eval(g.iter, env))
        if isinstance(seq, SymIter):
            if g.ifs:
                raise Unsupported("filtered comprehension over a symbolic-length sequence")

            epoch = self.rng_epoch
            self.rng_epoch = self.rng_epoch + 1     # one block of stream positions for this comprehension

            def elem(k):
                e2 = Env(parent=env, kind='func')
                saved = (self.lazy_index, self.pure_depth)
                self.lazy_index = (epoch, k)
                self.pure_depth += 1
                try:
                    self.assign_target(g.target, seq.element(k), e2)
                    return self.eval(elt, e2)
                finally:
                    self.lazy_index, self.pure_depth = saved
            return self.lib.SList(seq.length, elem)
        out = []
        for v in seq:
            e2 = Env(parent=env, kind='func')
            self.assign_target(g.target, v, e2)
            ok = True
            for c in g.ifs:
                t = self.truth(self.eval(c, e2))
                if not self.ctx.branch(t, 'comp-if'):
                    ok = False
                    break
            if ok:
                out.append(self.eval(elt, e2))
        return out

    def comprehension2(self, elt, gens, env):
        """[elt for a in A for b in B] with B not depending on a: the row-major product sequence"""
        g1, g2 = gens
        s1 = self.iterate(self.eval(g1.iter, env))
        s2 = self.iterate(self.eval(g2.iter, env))
        if not isinstance(s1, SymIter) and not isinstance(s2, SymIter):
            out = []
            for v1 in s1:
                e1 = Env(parent=env, kind='func')
                self.assign_target(g1.target, v1, e1)
                for v2 in self.iterate(self.eval(g2.iter, e1)):
                    e2 = Env(parent=e1, kind='func')
                    self.assign_target(g2.target, v2, e2)
                    out.append(self.eval(elt, e2))
            return out
        names1 = {n.id for n in ast.walk(g1.target) if isinstance(n, ast.Name)}
        if any(isinstance(n, ast.Name) and n.id in names1 for n in ast.walk(g2.iter)):
            raise Unsupported("nested comprehension whose inner sequence depends on the outer variable")
        n1 = s1.length if isinstance(s1, SymIter) else len(s1)
        n2 = s2.length if isinstance(s2, SymIter) else len(s2)
        el1 = s1.element if isinstance(s1, SymIter) else (lambda k: self.lib.select_concrete_seq(self, s1, k))
        el2 = s2.element if isinstance(s2, SymIter) else (lambda k: self.lib.select_concrete_seq(self, s2, k))
        q, m = self.lib.block_coords(self, n1, n2, 'comp')

        def elem(k):
            e2 = Env(parent=env, kind='func')
            self.pure_depth += 1
            try:
                self.assign_target(g1.target, el1(q(k)), e2)
                self.assign_target(g2.target, el2(m(k)), e2)
                return self.eval(elt, e2)
            finally:
                self.pure_depth -= 1
        return self.lib.SList(z3.simplify(to_num(n1) * to_num(n2)), elem)

    def eval_DictComp(self, e, env):
        if len(e.generators) != 1:
            raise Unsupported("nested dict comprehension")
        g = e.generators[0]
        seq = self.iterate(self.eval(g.iter, env))
        if isinstance(seq, SymIter):
            raise Unsupported("dict comprehension over symbolic-length sequence")
        d = {}
        for v in seq:
            e2 = Env(parent=env, kind='func')
            self.assign_target(g.target, v, e2)
            d[self.hashable(self.eval(e.key, e2))] = self.eval(e.value, e2)
        return d

    def eval_Starred(self, e, env):
        raise Unsupported("starred expression")

    def eval_Slice(self, e, env):
        return self.eval_index(e, env)

    # ---- isinstance support
    def types_of(self, v):
        if isinstance(v, bool):
            return {'bool', 'int', 'Number', 'object'}
        if isinstance(v, int):
            return {'int', 'Number', 'object'}
        if isinstance(v, float):
            return {'float', 'Number', 'object'}
        if isinstance(v, z3.BoolRef):
            return {'bool', 'int', 'Number', 'object'}
        if isinstance(v, z3.ArithRef):
            return ({'int', 'Number', 'object'} if v.is_int() else {'float', 'Number', 'object'})
        if isinstance(v, str):
            return {'str', 'object'}
        if isinstance(v, tuple):
            return {'tuple', 'object'}
        if isinstance(v, list):
            return {'list', 'object'}
        if isinstance(v, dict):
            return {'dict', 'object'}
        if v is None:
            return {'NoneType', 'object'}
        if isinstance(v, ObjVal):
            return v.cls.all_tags() | {'object'}
        if isinstance(v, EnumMember):
            return {v.clsname, 'Enum', 'object'}
        if isinstance(v, ExcVal):
            return set(v.tags) | {'object'}
        if isinstance(v, Model):
            return set(v.py_types()) | {'object'}
        if isinstance(v, (FuncVal, BoundMethod)):
            return {'function', 'object'}
        if isinstance(v, range):
            return {'range', 'object'}
        return {'object'}

    def isinstance_(self, v, t):
        if isinstance(t, tuple):
            return any(self.isinstance_(v, x) for x in t)
        if isinstance(t, (TypeTag, ClassVal)):
            return t.name in self.types_of(v)
        raise Unsupported("isinstance against %r" % (t,))
