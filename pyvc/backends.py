"""Second back end: cvc5 on the SMT-LIB2 dump of a z3 query."""
import os
import subprocess
import tempfile
import z3


def smt2_of(assertions):
    s = z3.Solver()
    for a in assertions:
        s.add(a)
    return s.to_smt2()


def cvc5_check(pc, negated_goal, timeout_ms=30000):
    """returns 'unsat' | 'sat' | 'unknown'"""
    try:
        text = smt2_of(list(pc) + [negated_goal])
    except Exception:
        return 'unknown'
    text = "(set-logic ALL)\n" + text
    fd, path = tempfile.mkstemp(suffix='.smt2', dir=os.environ.get('PYVC_SCRATCH', None))
    try:
        with os.fdopen(fd, 'w') as f:
            f.write(text)
        try:
            r = subprocess.run(['/usr/bin/cvc5', '--tlimit=%d' % timeout_ms, '--arrays-exp', path],
                               capture_output=True, text=True, timeout=timeout_ms / 1000.0 + 5)
        except (subprocess.TimeoutExpired, OSError):
            return 'unknown'
        out = r.stdout.strip().splitlines()
        if out and out[0] in ('unsat', 'sat'):
            return out[0]
        return 'unknown'
    finally:
        try:
            os.unlink(path)
        except OSError:
            pass


def purify(exprs):
    """replace every maximal application of an uninterpreted function (and every non-arithmetic
    leaf) by a fresh real/int/bool constant, consistently; sound for proving validity because
    it only forgets facts about those functions"""
    cache = {}
    arith = {z3.Z3_OP_ADD, z3.Z3_OP_SUB, z3.Z3_OP_MUL, z3.Z3_OP_DIV, z3.Z3_OP_UMINUS, z3.Z3_OP_LE, z3.Z3_OP_LT,
             z3.Z3_OP_GE, z3.Z3_OP_GT, z3.Z3_OP_EQ, z3.Z3_OP_DISTINCT, z3.Z3_OP_AND, z3.Z3_OP_OR, z3.Z3_OP_NOT,
             z3.Z3_OP_IMPLIES, z3.Z3_OP_ITE, z3.Z3_OP_ANUM, z3.Z3_OP_TRUE, z3.Z3_OP_FALSE,
             z3.Z3_OP_POWER, z3.Z3_OP_IFF if hasattr(z3, 'Z3_OP_IFF') else z3.Z3_OP_EQ}

    def walk(e):
        if z3.is_quantifier(e) or z3.is_var(e):
            raise ValueError("quantifier in a pure query")
        if z3.is_app(e):
            k = e.decl().kind()
            if k in arith:
                ch = [walk(c) for c in e.children()]
                return e.decl()(*ch) if ch else e
            if z3.is_rational_value(e) or z3.is_int_value(e) or z3.is_true(e) or z3.is_false(e):
                return e
            key = e.get_id()
            if key not in cache:
                cache[key] = z3.Const('pure!%d' % len(cache), e.sort())
            return cache[key]
        return e
    return [walk(z3.simplify(e)) for e in exprs]


def prove_pure(hyps, goal, timeout_ms=20000):
    """returns ('unsat'|'sat'|'unknown', model) for hyps & not goal after purification"""
    try:
        ph = purify(list(hyps) + [z3.Not(goal)])
    except ValueError:
        return 'unknown', None
    for tactic in (None, 'qfnra-nlsat'):
        s = z3.Solver() if tactic is None else z3.Tactic(tactic).solver()
        s.set('timeout', timeout_ms // 2)
        for h in ph:
            s.add(h)
        r = s.check()
        if r == z3.unsat:
            return 'unsat', None
        if r == z3.sat:
            return 'sat', s.model()
    return 'unknown', None
