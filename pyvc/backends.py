"""Second back end: cvc5 on the SMT-LIB2 dump of a z3 query."""
import os
import subprocess
import tempfile
import z3


def smt2_of(assertions):
    s = z3.Solver()
    for a in assertions:
        s.add(a)
    return s.to_smt2()


def cvc5_check(pc, negated_goal, timeout_ms=30000):
    """returns 'unsat' | 'sat' | 'unknown'"""
    try:
        text = smt2_of(list(pc) + [negated_goal])
    except Exception:
        return 'unknown'
    text = "(set-logic ALL)\n" + text
    fd, path = tempfile.mkstemp(suffix='.smt2', dir=os.environ.get('PYVC_SCRATCH', None))
    try:
        with os.fdopen(fd, 'w') as f:
            f.write(text)
        try:
            r = subprocess.run(['/usr/bin/cvc5', '--tlimit=%d' % timeout_ms, '--arrays-exp', path],
                               capture_output=True, text=True, timeout=timeout_ms / 1000.0 + 5)
        except (subprocess.TimeoutExpired, OSError):
            return 'unknown'
        out = r.stdout.strip().splitlines()
        if out and out[0] in ('unsat', 'sat'):
            return out[0]
        return 'unknown'
    finally:
        try:
            os.unlink(path)
        except OSError:
            pass
