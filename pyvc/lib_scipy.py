"""scipy namespace models (assumed contracts, DESIGN.md 2.4)."""
import ast
import z3

from .values import *  # noqa
from .lib import (SArr, SList, SMutList, as_array, apply_elementwise, real_fn, uf, fresh_array, dim_eq)

FAMILIES = {
    # name: (shape parameter names, discrete?)
    'expon': ([], False), 'norm': ([], False), 'uniform': ([], False), 'gamma': (['a'], False),
    'chi2': (['df'], False), 'beta': (['a', 'b'], False),
    'poisson': (['mu'], True), 'binom': (['n', 'p'], True), 'nbinom': (['n', 'p'], True),
}
CONT_METHODS = ('pdf', 'logpdf', 'cdf', 'logcdf', 'ppf', 'sf', 'logsf', 'isf')
DISC_METHODS = ('pmf', 'logpmf', 'cdf', 'logcdf', 'ppf', 'sf', 'logsf', 'isf')


def stats_ref(family, method, x, params):
    """the reference term scipy.stats.<family>.<method>(x; canonical params) for scalars"""
    shapes, disc = FAMILIES[family]
    names = shapes + (['loc'] if disc else ['loc', 'scale'])
    f = real_fn('scipy_%s_%s' % (family, method), 1 + len(names))
    return f(to_real(x), *[to_real(params[n]) for n in names])


class Family(Model):
    def __init__(self, name):
        self.name = name
        self.shapes, self.disc = FAMILIES[name]

    def canon(self, it, a, k, first):
        """parse (x, *shapes, loc=0, scale=1) the way rv_continuous / rv_discrete do"""
        names = self.shapes + (['loc'] if self.disc else ['loc', 'scale'])
        a = list(a)
        k = dict(k)
        vals = {}
        if first is not None:
            if a:
                vals[first] = a.pop(0)
            elif first in k:
                vals[first] = k.pop(first)
            else:
                raise PyRaise(ExcVal('TypeError', ("missing argument %s" % first,)))
        for n in names:
            if a:
                vals[n] = a.pop(0)
        for n in list(k):
            if n in names:
                if n in vals:
                    raise PyRaise(ExcVal('TypeError', ("multiple values for %s" % n,)))
                vals[n] = k.pop(n)
        if a or k:
            raise PyRaise(ExcVal('TypeError', ("%s: unexpected arguments %r %r" % (self.name, a, sorted(k)),)))
        for n in self.shapes:
            if n not in vals:
                raise PyRaise(ExcVal('TypeError', ("%s: missing shape parameter %s" % (self.name, n),)))
        vals.setdefault('loc', 0)
        if not self.disc:
            vals.setdefault('scale', 1)
        return vals, names

    def py_getattr(self, it, name):
        meths = DISC_METHODS if self.disc else CONT_METHODS
        if name in meths or (name.startswith('_') and name[1:] in meths):
            meth = name.lstrip('_')

            def call(it_, a, k):
                vals, names = self.canon(it_, a, k, 'x')
                args = [vals['x']] + [vals[n] for n in names]
                return apply_elementwise(it_, 'scipy_%s_%s' % (self.name, meth), args)
            return Builtin('scipy.stats.%s.%s' % (self.name, meth), call,
                           "scipy.stats.%s.%s is the reference function (uninterpreted, canonical argument order x, shapes, loc, scale)" % (self.name, meth))
        if name == 'rvs':
            def rvs(it_, a, k):
                k = dict(k)
                size = k.pop('size', None)
                rs = k.pop('random_state', None)
                if rs is not None:
                    raise Unsupported("rvs with random_state")
                vals, names = self.canon(it_, a, k, None)
                from .lib_numpy import build  # noqa
                ns = it_.lib.namespace('numpy')
                g = ns.attrs['random'].py_getattr(it_, 'exponential')  # forces creation of the global stream
                grs = it_.global_rng
                return grs.draw(it_, 'scipy_' + self.name, [vals[n] for n in names], size)
            return Builtin('scipy.stats.%s.rvs' % self.name, rvs,
                           "scipy.stats.*.rvs(random_state=None) draws from numpy's global generator")
        raise Unsupported("scipy.stats.%s.%s" % (self.name, name))


def build_stats(lib):
    ns = {n: Family(n) for n in FAMILIES}
    return Namespace('scipy.stats', ns)


def build_special(lib):
    def gammaln(it, a, k):
        v = a[0]
        if isinstance(v, (SArr, list, tuple, SList, SMutList)):
            return apply_elementwise(it, 'Gammaln', [v])
        return real_fn('Gammaln', 1)(to_real(v))
    return Namespace('scipy.special', {'gammaln': Builtin('scipy.special.gammaln', gammaln,
                                                          "scipy.special.gammaln = log Gamma (uninterpreted)")})


def build_scipy(lib):
    class Lazy(Namespace):
        def py_getattr(self, it, name):
            return lib.namespace('scipy.' + name)
    return Lazy('scipy')


def build_linalg(lib):
    return Namespace('scipy.linalg', {})


def build_sparse(lib):
    return Namespace('scipy.sparse', {})


def build_optimize(lib):
    return Namespace('scipy.optimize', {})


def build_integrate(lib):
    return Namespace('scipy.integrate', {})
