"""Value model of pyvc.

Concrete Python values (None, bool, int, float, str, tuple, list, dict, range) are kept as they
are.  Symbolic scalars are z3 terms.  Everything else is one of the classes below.  Model
objects (subclasses of Model) answer a small protocol used by the interpreter:

    py_getattr(it, name)            attribute read
    py_setattr(it, name, value)     attribute write
    py_call(it, args, kwargs)       call
    py_getitem(it, idx) / py_setitem(it, idx, v)
    py_len(it)                      int or z3 Int
    py_iter(it)                     concrete python list of elements, or a SymIter
    py_truth(it)                    bool or z3 Bool
    py_binop(it, op, other, refl)   NotImplemented when not handled
    py_eq(it, other)                bool / z3 Bool / NotImplemented
    py_types()                      set of type tags for isinstance
    fresh_like(it, hint)            havoc copy (same shape, fresh contents)
"""
import z3


class Unsupported(Exception):
    """Construct outside the modelled subset: the function falls to the bounded ladder."""


class PathCut(Exception):
    """End of a path (loop body checked, or assumption made the path unreachable)."""


class ReturnEx(Exception):
    def __init__(self, value):
        self.value = value


class BreakEx(Exception):
    pass


class ContinueEx(Exception):
    pass


class PyRaise(Exception):
    """A Python exception raised by the interpreted program."""

    def __init__(self, exc):
        self.exc = exc

    def __str__(self):
        return "PyRaise(%s)" % (self.exc,)


class Model(object):
    tags = frozenset()

    def py_types(self):
        return self.tags

    def py_getattr(self, it, name):
        raise Unsupported("getattr %s on %s" % (name, type(self).__name__))

    def py_setattr(self, it, name, value):
        raise Unsupported("setattr %s on %s" % (name, type(self).__name__))

    def py_call(self, it, args, kwargs):
        raise Unsupported("call of %s" % type(self).__name__)

    def py_getitem(self, it, idx):
        raise Unsupported("getitem on %s" % type(self).__name__)

    def py_setitem(self, it, idx, v):
        raise Unsupported("setitem on %s" % type(self).__name__)

    def py_len(self, it):
        raise Unsupported("len of %s" % type(self).__name__)

    def py_iter(self, it):
        raise Unsupported("iter of %s" % type(self).__name__)

    def py_truth(self, it):
        return True

    def py_binop(self, it, op, other, refl):
        return NotImplemented

    def py_unop(self, it, op):
        return NotImplemented

    def py_eq(self, it, other):
        return self is other

    def py_contains(self, it, item):
        raise Unsupported("contains on %s" % type(self).__name__)

    def fresh_like(self, it, hint):
        raise Unsupported("havoc of %s" % type(self).__name__)


class TypeTag(Model):
    """A class object known only by name, used for isinstance and for a few constructors."""

    def __init__(self, name, ctor=None, attrs=None):
        self.name = name
        self.ctor = ctor
        self.attrs = attrs or {}

    def __repr__(self):
        return "<type %s>" % self.name

    def py_call(self, it, args, kwargs):
        if self.ctor is None:
            raise Unsupported("constructing %s" % self.name)
        return self.ctor(it, args, kwargs)

    def py_getattr(self, it, name):
        if name in self.attrs:
            return self.attrs[name]
        if name == '__name__':
            return self.name
        raise Unsupported("attribute %s of type %s" % (name, self.name))


class Builtin(Model):
    def __init__(self, name, fn, trusted=None):
        self.name = name
        self.fn = fn
        self.trusted = trusted   # text of the assumed contract, recorded when called

    def __repr__(self):
        return "<builtin %s>" % self.name

    def py_call(self, it, args, kwargs):
        if self.trusted:
            it.ctx.note_trusted(self.name + ": " + self.trusted)
        return self.fn(it, args, kwargs)

    def py_getattr(self, it, name):
        if name == '__name__':
            return self.name
        raise Unsupported("attribute %s of builtin %s" % (name, self.name))


class Namespace(Model):
    """A module-like bag of names (numpy, scipy.stats, ...)."""

    def __init__(self, name, attrs=None):
        self.name = name
        self.attrs = attrs or {}

    def __repr__(self):
        return "<ns %s>" % self.name

    def py_getattr(self, it, name):
        if name in self.attrs:
            return self.attrs[name]
        raise Unsupported("%s.%s is not modelled" % (self.name, name))


class FuncVal(object):
    def __init__(self, node, env, module, qualname, defaults, kw_defaults, cls=None):
        self.node = node
        self.env = env
        self.module = module
        self.qualname = qualname
        self.defaults = defaults
        self.kw_defaults = kw_defaults
        self.cls = cls           # defining class (for super())

    def __repr__(self):
        return "<func %s>" % self.qualname


class BoundMethod(object):
    def __init__(self, func, self_obj):
        self.func = func
        self.self_obj = self_obj

    def __repr__(self):
        return "<bound %r>" % (self.func,)


class PropertyVal(object):
    def __init__(self, fget=None, fset=None):
        self.fget = fget
        self.fset = fset


class ClassVal(object):
    def __init__(self, name, bases, attrs, module, tags=()):
        self.name = name
        self.bases = bases
        self.attrs = attrs
        self.module = module
        self.extra_tags = set(tags)

    def __repr__(self):
        return "<class %s>" % self.name

    def mro(self):
        out = [self]
        for b in self.bases:
            if isinstance(b, ClassVal):
                for c in b.mro():
                    if c not in out:
                        out.append(c)
        return out

    def lookup(self, name, after=None):
        m = self.mro()
        if after is not None:
            m = m[m.index(after) + 1:]
        for c in m:
            if name in c.attrs:
                return c.attrs[name], c
        return None, None

    def all_tags(self):
        t = set()
        for c in self.mro():
            t.add(c.name)
            t |= c.extra_tags
            for b in c.bases:
                if isinstance(b, TypeTag):
                    t.add(b.name)
        return t


class ObjVal(object):
    """Instance of an interpreted class; fields live in a python dict (identity = python id)."""

    def __init__(self, cls, fields=None):
        self.cls = cls
        self.fields = fields if fields is not None else {}

    def __repr__(self):
        return "<%s obj>" % self.cls.name


class ExcVal(object):
    def __init__(self, clsname, args=(), tags=None):
        self.clsname = clsname
        self.args = args
        self.tags = tags or {clsname, 'Exception', 'BaseException'}

    def __repr__(self):
        return "%s%r" % (self.clsname, tuple(self.args))


class EnumMember(object):
    def __init__(self, clsname, name, value):
        self.clsname = clsname
        self.name = name
        self.value = value

    def __repr__(self):
        return "%s.%s" % (self.clsname, self.name)


class SuperProxy(object):
    def __init__(self, cls, obj):
        self.cls = cls
        self.obj = obj


class MaybeUnbound(object):
    """a local variable that is first assigned inside a loop body: after the loop it is bound iff `cond`;
    reading it generates the obligation that it is bound (CPython raises UnboundLocalError otherwise)"""

    def __init__(self, cond, value):
        self.cond = cond
        self.value = value


class SymIter(object):
    """Iteration over a sequence of symbolic length: element(k) for 0 <= k < length."""

    def __init__(self, length, element):
        self.length = length
        self.element = element


# ---------------------------------------------------------------------------------------------
# helpers on z3 terms

def is_z3(v):
    return isinstance(v, z3.ExprRef)


def is_sym_bool(v):
    return isinstance(v, z3.BoolRef)


def is_sym_num(v):
    return isinstance(v, z3.ArithRef)


def to_real(v):
    if isinstance(v, z3.ArithRef):
        return z3.ToReal(v) if v.is_int() else v
    if isinstance(v, bool):
        return z3.RealVal(1 if v else 0)
    if isinstance(v, int):
        return z3.RealVal(v)
    if isinstance(v, float):
        return z3.RealVal(repr(v)) if v == v and abs(v) != float('inf') else None
    if isinstance(v, z3.BoolRef):
        return z3.If(v, z3.RealVal(1), z3.RealVal(0))
    return None


def to_num(v):
    """python number or z3 arith -> z3 arith (Int stays Int)."""
    if isinstance(v, z3.ArithRef):
        return v
    if isinstance(v, bool):
        return z3.IntVal(1 if v else 0)
    if isinstance(v, int):
        return z3.IntVal(v)
    if isinstance(v, float):
        return to_real(v)
    if isinstance(v, z3.BoolRef):
        return z3.If(v, z3.IntVal(1), z3.IntVal(0))
    return None


def z3bool(v):
    if isinstance(v, z3.BoolRef):
        return v
    if isinstance(v, bool):
        return z3.BoolVal(v)
    raise Unsupported("not a boolean: %r" % (v,))


class SOpt(Model):
    """Optional number: None or a value (`isnone` z3 Bool, `val` z3 arith)."""
    tags = frozenset()

    def __init__(self, isnone, val):
        self.isnone = isnone
        self.val = val

    def __repr__(self):
        return "SOpt(%s,%s)" % (self.isnone, self.val)

    def py_eq(self, it, other):
        if other is None:
            return self.isnone
        if isinstance(other, SOpt):
            return z3.Or(z3.And(self.isnone, other.isnone),
                         z3.And(z3.Not(self.isnone), z3.Not(other.isnone), self.val == other.val))
        n = to_num(other)
        if n is not None:
            return z3.And(z3.Not(self.isnone), self.val == n)
        return False

    def value(self, it, why):
        """Use as a number: obligation that it is not None (TypeError otherwise)."""
        it.ctx.oblige("safety/not-None@" + why, z3.Not(self.isnone))
        return self.val

    def py_binop(self, it, op, other, refl):
        v = self.value(it, "arith")
        return it.binop_values(op, other, v) if refl else it.binop_values(op, v, other)

    def fresh_like(self, it, hint):
        return SOpt(it.ctx.fresh_bool(hint + "_none"), it.ctx.fresh_like_num(self.val, hint))


NAME_CODES = {}


def name_code(s):
    """Concrete strings are interned as distinct integers (sort of names = Int)."""
    if s not in NAME_CODES:
        NAME_CODES[s] = 1000003 + len(NAME_CODES)
    return NAME_CODES[s]


class SName(Model):
    """A string known only up to equality."""
    tags = frozenset({'str'})

    def __init__(self, term):
        self.term = term

    def __repr__(self):
        return "SName(%s)" % self.term

    def py_eq(self, it, other):
        if isinstance(other, SName):
            return self.term == other.term
        if isinstance(other, str):
            return self.term == name_code(other)
        return NotImplemented

    def py_truth(self, it):
        return True

    def py_getattr(self, it, name):
        if name == 'strip':
            return Builtin('str.strip', lambda it_, a, k: self)
        raise Unsupported("str method %s on symbolic name" % name)

    def py_len(self, it):
        n = it.ctx.fresh_int("strlen")
        it.ctx.assume(n >= 1)
        return n

    def fresh_like(self, it, hint):
        return SName(it.ctx.fresh_int(hint))
