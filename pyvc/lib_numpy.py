"""numpy namespace model (assumed contracts on numpy, DESIGN.md 2.4)."""
import ast
import z3
from . import lib as L

from .values import *  # noqa
from .lib import (SArr, SList, SMutList, SRowList, SRandomState, as_array, elementwise, map_array, arr_sum, arr_all,
                  arr_any, arr_min, reshape, ravel, np_append, np_insert, np_zeros, np_eye, dot, transpose,
                  apply_elementwise, real_fn, uf, fresh_array, dim_eq, partial_sum, broadcast_shapes)

INF = z3.Real('np.inf')   # a distinguished real, assumed greater than every finite value used


def build(lib):
    ns = {}

    def reg(name, fn, trusted=None):
        ns[name] = Builtin('np.' + name, fn, trusted)

    def _array(it, a, k):
        v = a[0]
        if isinstance(v, SArr):
            return v.copy()
        return as_array(it, v)

    reg('array', _array, "np.array(seq): new array with the elements of seq in order (rows for nested sequences)")
    reg('asarray', lambda it, a, k: as_array(it, a[0]))
    reg('copy', lambda it, a, k: as_array(it, a[0]).copy(), "np.copy: new array, same contents")
    reg('zeros', lambda it, a, k: np_zeros(it, a[0], a[1] if len(a) > 1 else k.get('dtype')))
    reg('ones', lambda it, a, k: np_zeros(it, a[0], a[1] if len(a) > 1 else k.get('dtype'), 1))
    def _full_like(it, a, k):
        base = as_array(it, a[0])
        v = a[1] if len(a) > 1 else k['fill_value']
        dt = base.dtype
        if 'dtype' in k and k['dtype'] is not None:
            dt = 'int' if getattr(k['dtype'], 'name', '') == 'int' else 'real'
        zv = to_num(v)
        if dt == 'int' and not zv.is_int():
            it.ctx.note_trusted("np.full_like(a, v) has the dtype of a: a non-integer v is truncated when a is an integer array")
            zv = z3.If(zv >= 0, z3.ToInt(zv), -z3.ToInt(-zv))
        elif dt == 'real':
            zv = to_real(zv)
        return SArr(base.shape, lambda o: zv, dt)
    reg('full_like', _full_like, "np.full_like(a, v): array of the shape AND dtype of a filled with v")
    reg('eye', lambda it, a, k: np_eye(it, a[0]))
    reg('identity', lambda it, a, k: np_eye(it, a[0]))
    reg('append', lambda it, a, k: np_append(it, a[0], a[1]))
    reg('insert', lambda it, a, k: np_insert(it, a[0], a[1], a[2]))
    reg('reshape', lambda it, a, k: reshape(it, a[0], a[1], a[2] if len(a) > 2 else k.get('order', 'C')))
    reg('ravel', lambda it, a, k: ravel(it, a[0]))
    reg('dot', lambda it, a, k: dot(it, a[0], a[1]))
    reg('transpose', lambda it, a, k: transpose(it, as_array(it, a[0])))
    reg('sum', lambda it, a, k: arr_sum(it, a[0], a[1] if len(a) > 1 else k.get('axis')))
    reg('all', lambda it, a, k: arr_all(it, a[0]) if isinstance(a[0], (SArr, list, tuple, SList, SMutList)) else it.truth(a[0]))
    reg('any', lambda it, a, k: arr_any(it, a[0]) if isinstance(a[0], (SArr, list, tuple, SList, SMutList)) else it.truth(a[0]))
    reg('add', lambda it, a, k: elementwise(it, ast.Add(), a[0], a[1]))
    reg('min', lambda it, a, k: arr_min(it, a[0], 'min')[0], "np.min of a non-empty array is one of its elements and <= all of them")
    reg('max', lambda it, a, k: arr_min(it, a[0], 'max')[0], "np.max likewise")
    reg('argmin', lambda it, a, k: arr_min(it, a[0], 'min')[1],
        "np.argmin: an index w with a[w] <= a[i] for all i (ties: some minimiser)")
    reg('argmax', lambda it, a, k: arr_min(it, a[0], 'max')[1])

    def _minmax2(which):
        def f(it, a, k):
            x, y = a[0], a[1]
            pick = (lambda u, v: z3.If(u <= v, u, v)) if which == 'min' else (lambda u, v: z3.If(u >= v, u, v))
            if not isinstance(x, (SArr, list, tuple, SList, SMutList)) and not isinstance(y, (SArr, list, tuple, SList, SMutList)):
                return pick(to_real(x), to_real(y))
            ax = x if isinstance(x, SArr) else as_array(it, x)
            ay = y if isinstance(y, SArr) else as_array(it, y)
            shape, ma, mb = L.broadcast_shapes(it, ax.shape, ay.shape)
            gx, gy = ax.get, ay.get
            dt = 'int' if (ax.dtype == 'int' and ay.dtype == 'int') else 'real'
            conv = (lambda v: v) if dt == 'int' else to_real
            return SArr(tuple(shape), lambda o: pick(conv(gx(ma(o))), conv(gy(mb(o)))), dt)
        return f
    reg('minimum', _minmax2('min'), "np.minimum(a, b): elementwise smaller value (broadcast)")
    reg('maximum', _minmax2('max'), "np.maximum(a, b): elementwise larger value (broadcast)")

    def _unary(fname, dtype='real'):
        def f(it, a, k):
            v = a[0]
            if isinstance(v, (SArr, list, tuple, SList, SMutList)):
                return apply_elementwise(it, fname, [v], dtype)
            r = to_real(v)
            if r is None:
                raise Unsupported("np.%s(%r)" % (fname, v))
            return real_fn(fname, 1)(r)
        return f

    reg('log', _unary('Log'), "np.log: the natural logarithm, an uninterpreted real function Log (identities are instantiated by contracts)")
    reg('exp', _unary('Exp'), "np.exp: uninterpreted real function Exp")
    reg('sqrt', _unary('Sqrt'), "np.sqrt: uninterpreted real function Sqrt")
    reg('floor', _unary('Floor'))
    reg('ceil', _unary('Ceil'))

    def _abs(it, a, k):
        v = a[0]
        if isinstance(v, SArr):
            return map_array(it, v, lambda x: z3.If(x >= 0, x, -x), v.dtype)
        return z3.If(to_num(v) >= 0, to_num(v), -to_num(v))
    reg('abs', _abs)

    reg('dstack', lambda it, a, k: L.np_dstack(it, a[0]))
    reg('mean', lambda it, a, k: L.arr_mean(it, a[0] if isinstance(a[0], SArr) else as_array(it, a[0]), k.get('axis', a[1] if len(a) > 1 else None)))

    reg('arange', lambda it, a, k: SArr((a[0],), lambda o: o[0], 'int') if len(a) == 1 else (_ for _ in ()).throw(Unsupported('np.arange(start, stop)')),
        "np.arange(n): the integers 0..n-1")
    reg('isfinite', lambda it, a, k: (map_array(it, a[0], lambda x: z3.BoolVal(True), 'bool') if isinstance(a[0], SArr) else True),
        "np.isfinite: True (floats are modelled as reals: no inf, no nan)")
    def _repeat(it, a, k):
        """np.repeat(a, r, axis): every element repeated r times along the axis (r consecutive copies)"""
        arr = a[0] if isinstance(a[0], SArr) else as_array(it, a[0])
        r = a[1]
        axis = k.get('axis', a[2] if len(a) > 2 else None)
        it.ctx.note_trusted("np.repeat(a, r, axis): out[..., u, ...] = a[..., u // r, ...] (consecutive copies)")
        if axis is None:
            if arr.rank != 1:
                arr = L.ravel(it, arr)
            axis = 0
        if axis < 0:
            axis += arr.rank
        q, m = L.block_coords(it, arr.shape[axis], r, 'rep')
        shape = tuple(z3.simplify(to_num(d) * to_num(r)) if i == axis else d for i, d in enumerate(arr.shape))
        g = arr.get
        return SArr(shape, lambda o: g(tuple(q(x) if i == axis else x for i, x in enumerate(o))), arr.dtype)
    reg('repeat', _repeat)

    def _tile(it, a, k):
        """np.tile(a, r) for a rank-1 a and an integer r: r copies one after the other"""
        arr = a[0] if isinstance(a[0], SArr) else as_array(it, a[0])
        r = a[1]
        if arr.rank == 1 and isinstance(r, (tuple, list)) and len(r) == 2 and r[1] == 1:
            # np.tile(a, (r, 1)): r rows, each a copy of a; the dtype is that of a
            it.ctx.note_trusted("np.tile(a, (r, 1)): r rows, each equal to a (dtype of a)")
            g = arr.get
            return SArr((r[0], arr.shape[0]), lambda o: g((o[1],)), arr.dtype)
        if arr.rank != 1 or isinstance(r, (tuple, list)):
            raise Unsupported("np.tile form")
        it.ctx.note_trusted("np.tile(a, r): out[u] = a[u % len(a)]")
        q, m = L.block_coords(it, r, arr.shape[0], 'tile')
        g = arr.get
        return SArr((z3.simplify(to_num(arr.shape[0]) * to_num(r)),), lambda o: g((m(o[0]),)), arr.dtype)
    reg('tile', _tile)
    reg('kron', lambda it, a, k: L.np_kron(it, a[0], a[1]))
    reg('bmat', lambda it, a, k: L.np_bmat(it, a[0]))

    def _where(it, a, k):
        """np.where(cond) for a rank-1 boolean array: a 1-tuple holding the increasing indices where cond is true"""
        cond = a[0]
        if len(a) != 1 or not isinstance(cond, SArr) or cond.rank != 1:
            raise Unsupported("np.where form")
        it.ctx.note_trusted("np.where(cond)[0]: the indices at which cond is true, in increasing order")
        n = to_num(cond.shape[0])
        m = it.ctx.fresh_int('nwhere')
        src = it.ctx.fresh_func('wsrc', z3.IntSort(), z3.IntSort())
        j, i = z3.Int(it.ctx._name('jw')), z3.Int(it.ctx._name('iw'))
        it.ctx.assume(z3.And(m >= 0, m <= n, z3.Implies(z3.Exists([i], z3.And(i >= 0, i < n, cond.get((i,)))), m >= 1)))
        it.ctx.assume(z3.ForAll([j], z3.Implies(z3.And(j >= 0, j < m), z3.And(src(j) >= 0, src(j) < n, cond.get((src(j),)))), patterns=[src(j)]))
        # the first entry is the first true index
        it.ctx.assume(z3.Implies(m >= 1, z3.ForAll([i], z3.Implies(z3.And(i >= 0, i < src(0)), z3.Not(cond.get((i,)))))))
        # increasing, and complete: every true index is listed (rank(i) = its position in the result)
        j2 = z3.Int(it.ctx._name('jw2'))
        rank = it.ctx.fresh_func('wrank', z3.IntSort(), z3.IntSort())
        it.ctx.assume(z3.ForAll([j, j2], z3.Implies(z3.And(j >= 0, j < j2, j2 < m), src(j) < src(j2)), patterns=[z3.MultiPattern(src(j), src(j2))]))
        it.ctx.assume(z3.ForAll([i], z3.Implies(z3.And(i >= 0, i < n, cond.get((i,))), z3.And(rank(i) >= 0, rank(i) < m, src(rank(i)) == i)), patterns=[rank(i)]))
        return (SArr((m,), lambda o: src(o[0]), 'int'),)
    reg('where', _where)
    reg('flatnonzero', lambda it, a, k: _where(it, [a[0] if isinstance(a[0], SArr) and a[0].dtype == 'bool' else elementwise(it, ast.NotEq(), a[0], 0)], {})[0],
        "np.flatnonzero(a): the increasing indices of the non-zero entries")

    def _searchsorted(it, a, k):
        """np.searchsorted(t, v) (side='left') on a sorted rank-1 t: the p with t[i] < v for i < p and t[i] >= v for i >= p"""
        t, v = a[0], a[1]
        side = k.get('side', a[2] if len(a) > 2 else 'left')
        if not isinstance(t, SArr) or t.rank != 1:
            t = as_array(it, t)
        if not isinstance(v, (SArr, int, float, z3.ExprRef)):
            v = as_array(it, v)
        if isinstance(v, SArr) and v.rank > 1:
            raise Unsupported("searchsorted of a matrix of values")
        if isinstance(v, SArr) and v.rank == 1:
            # vectorised form: one insertion index per value
            it.ctx.note_trusted("np.searchsorted(t, values, side) on a sorted array: the insertion index of each value (left: first i with t[i] >= v; right: first i with t[i] > v)")
            n = to_num(t.shape[0])
            m = to_num(v.shape[0])
            i = z3.Int(it.ctx._name('iss'))
            i2 = z3.Int(it.ctx._name('iss'))
            j = z3.Int(it.ctx._name('jss'))
            it.ctx.oblige("pre(np.searchsorted): the array is sorted",
                          z3.ForAll([i, i2], z3.Implies(z3.And(i >= 0, i < i2, i2 < n), t.get((i,)) <= t.get((i2,)))))
            P = it.ctx.fresh_func('ssorted', z3.IntSort(), z3.IntSort())
            cmp_ = (lambda x, y: x < y) if side == 'left' else (lambda x, y: x <= y)
            it.ctx.assume(z3.ForAll([j], z3.Implies(z3.And(j >= 0, j < m), z3.And(P(j) >= 0, P(j) <= n)), patterns=[P(j)]))
            it.ctx.assume(z3.ForAll([j, i], z3.Implies(z3.And(j >= 0, j < m, i >= 0, i < n), (i < P(j)) == cmp_(t.get((i,)), v.get((j,))))))
            return SArr((v.shape[0],), lambda o: P(o[0]), 'int')
        v = v.get(()) if isinstance(v, SArr) else to_real(v)
        it.ctx.note_trusted("np.searchsorted(t, v, side) on a sorted array: the insertion index (left: first i with t[i] >= v; right: first i with t[i] > v)")
        n = to_num(t.shape[0])
        i = z3.Int(it.ctx._name('iss'))
        i2 = z3.Int(it.ctx._name('iss'))
        it.ctx.oblige("pre(np.searchsorted): the array is sorted",
                      z3.ForAll([i, i2], z3.Implies(z3.And(i >= 0, i < i2, i2 < n), t.get((i,)) <= t.get((i2,)))))
        p = it.ctx.fresh_int('ssorted')
        below = (lambda x: x < v) if side == 'left' else (lambda x: x <= v)
        it.ctx.assume(z3.And(p >= 0, p <= n))
        it.ctx.assume(z3.ForAll([i], z3.Implies(z3.And(i >= 0, i < n), (i < p) == below(t.get((i,))))))
        return p
    reg('searchsorted', _searchsorted)

    def _histogram(it, a, k):
        """np.histogram(x, bins=edges, weights=w): hist[b] = sum_j w[j] * [x[j] in bin b]; bins are half-open
        [e_b, e_{b+1}) except the last, which is closed"""
        x = a[0] if isinstance(a[0], SArr) else as_array(it, a[0])
        edges = k.get('bins', a[1] if len(a) > 1 else None)
        w = k.get('weights', None)
        if edges is None or isinstance(edges, (int, z3.ArithRef)):
            raise Unsupported("np.histogram with a bin count")
        edges = edges if isinstance(edges, SArr) else as_array(it, edges)
        if x.rank != 1 or edges.rank != 1:
            raise Unsupported("np.histogram ranks")
        if w is not None:
            w = w if isinstance(w, SArr) else as_array(it, w)
            ok = L.dim_eq(w.shape[0], x.shape[0])
            it.ctx.oblige("pre(np.histogram): weights have the shape of the sample", to_num(w.shape[0]) == to_num(x.shape[0]) if ok is not True else True)
        it.ctx.note_trusted("np.histogram(x, bins=edges, weights=w): hist[b] = sum of w[j] (1 without weights) over the x[j] in [e_b, e_b+1) (last bin closed on the right)")
        nb = z3.simplify(to_num(edges.shape[0]) - 1)
        n = x.shape[0]

        def inbin(xj, b):
            lo, hi = edges.get((b,)), edges.get((b + 1,))
            return z3.And(xj >= lo, z3.If(b == nb - 1, xj <= hi, xj < hi))

        def hist(o):
            b = o[0]
            return L.partial_sum(it, n, lambda j: z3.If(inbin(x.get((j,)), b), to_real(w.get((j,))) if w is not None else z3.RealVal(1), z3.RealVal(0)), 'hist')
        # the counts have the dtype of the weights (integer without weights)
        if w is None or w.dtype == 'int':
            h = SArr((nb,), lambda o: z3.ToInt(hist(o)), 'int')
        else:
            h = SArr((nb,), hist)
        h.hist_of = (x, edges, w)
        return (h, edges)
    reg('histogram', _histogram)

    def _interp(it, a, k):
        """np.interp(xq, xp, fp): piecewise-linear interpolation; every value lies between min(fp) and max(fp) and, for a
        query inside [xp[j], xp[j+1]], between fp[j] and fp[j+1]"""
        xq, xp, fp = a[0], a[1], a[2]
        xq = xq if isinstance(xq, SArr) else as_array(it, xq)
        scalar_query = xq.rank == 0
        if scalar_query:
            xq = SArr((1,), (lambda g_: (lambda o: g_(())))(xq.get), xq.dtype)
        xp = xp if isinstance(xp, SArr) else as_array(it, xp)
        fp = fp if isinstance(fp, SArr) else as_array(it, fp)
        it.ctx.note_trusted("np.interp(xq, xp, fp): linear interpolation on increasing xp; each value lies between two neighbouring fp (end values outside the range)")
        f = it.ctx.fresh_func('interp', z3.IntSort(), z3.RealSort())
        seg = it.ctx.fresh_func('interp_seg', z3.IntSort(), z3.IntSort())
        q = z3.Int(it.ctx._name('iq'))
        n = to_num(xp.shape[0])
        lo = lambda u, v: z3.If(u <= v, u, v)
        hi = lambda u, v: z3.If(u <= v, v, u)
        it.ctx.assume(z3.ForAll([q], z3.Implies(z3.And(q >= 0, q < to_num(xq.shape[0])),
                                                z3.And(seg(q) >= 0, seg(q) + 1 < n + z3.If(n == 1, 1, 0),
                                                       f(q) >= lo(fp.get((seg(q),)), fp.get((z3.If(n == 1, seg(q), seg(q) + 1),))),
                                                       f(q) <= hi(fp.get((seg(q),)), fp.get((z3.If(n == 1, seg(q), seg(q) + 1),))))), patterns=[f(q)]))
        if scalar_query:
            return f(z3.IntVal(0))
        return SArr((xq.shape[0],), lambda o: f(o[0]))
    reg('interp', _interp)

    def _mod(it, a, k):
        if isinstance(a[0], (list, tuple, SList, SMutList)):
            a = [as_array(it, a[0])] + list(a[1:])          # numpy converts a sequence argument to an array first
        if isinstance(a[1], int) and a[1] == 1 and (isinstance(a[0], SArr) or isinstance(a[0], z3.ArithRef)):
            # np.mod(x, 1) = x - floor(x)  (exact for reals; z3's ToInt is the floor)
            fl = lambda x: to_real(x) - z3.ToReal(z3.ToInt(to_real(x)))
            return map_array(it, a[0], fl) if isinstance(a[0], SArr) else fl(a[0])
        return elementwise(it, ast.Mod(), a[0], a[1]) if isinstance(a[0], SArr) else it.binop(ast.Mod(), a[0], a[1])
    reg('mod', _mod)

    def _nan_to_num(it, a, k):
        it.ctx.note_trusted("np.nan_to_num(c) is applied only when c == inf (not modelled: reals have no inf)")
        return a[0]
    reg('nan_to_num', _nan_to_num)

    def _atleast_1d(it, a, k):
        v = as_array(it, a[0])
        if v.rank == 0:
            g = v.get
            return SArr((1,), lambda o: g(()), v.dtype)
        return v
    reg('atleast_1d', _atleast_1d)

    def _prod(it, a, k):
        v = a[0]
        seq = it.iterate(v if not isinstance(v, SArr) else v)
        if isinstance(seq, SymIter):
            pf = it.ctx.fresh_func('prod', z3.IntSort(), z3.RealSort())
            j = z3.Int(it.ctx._name('j'))
            it.ctx.assume(pf(0) == 1)
            # the element is evaluated for an index inside the sequence (its safety obligations must not see an arbitrary j)
            it.ctx.solver.push()
            npc = len(it.ctx.pc)
            try:
                it.ctx.assume(z3.And(j >= 0, j < to_num(seq.length)))
                ej = to_real(seq.element(j))
            finally:
                it.ctx.solver.pop()
                del it.ctx.pc[npc:]
            it.ctx.assume(z3.ForAll([j], z3.Implies(z3.And(j >= 0, j < to_num(seq.length)), pf(j + 1) == pf(j) * ej)))
            return pf(to_num(seq.length))
        acc = z3.RealVal(1)
        for x in seq:
            acc = acc * to_real(x)
        return acc
    reg('prod', _prod, "np.prod: product of the elements in order")

    def _quantile(it, a, k):
        v = as_array(it, a[0])
        q = a[1] if len(a) > 1 else k['q']
        res = it.ctx.fresh_real('quantile')
        mn, _ = arr_min(it, v, 'min')
        mx, _ = arr_min(it, v, 'max')
        it.ctx.assume(z3.Implies(z3.And(to_real(q) >= 0, to_real(q) <= 1), z3.And(res >= to_real(mn), res <= to_real(mx))))
        return res
    reg('quantile', _quantile, "np.quantile(a, q) lies between min(a) and max(a) for 0 <= q <= 1")

    def _linalg_eig(it, a, k):
        m = a[0]
        if not isinstance(m, SArr):
            m = as_array(it, m)
        if m.rank != 2:
            raise PyRaise(ExcVal('LinAlgError', ("%d-dimensional array given. Array must be at least two-dimensional" % m.rank,),
                                 {'LinAlgError', 'ValueError', 'Exception', 'BaseException'}))
        e = dim_eq(m.shape[0], m.shape[1])
        if e is not True:
            it.ctx.oblige("safety/eig-square", to_num(m.shape[0]) == to_num(m.shape[1]))
        return (fresh_array(it, 'eigval', (m.shape[0],)), fresh_array(it, 'eigvec', m.shape))
    linalg = Namespace('numpy.linalg', {'eig': Builtin('np.linalg.eig', _linalg_eig,
                                                       "np.linalg.eig needs a square rank-2 array; eigenvalues are otherwise unconstrained")})
    ns['linalg'] = linalg

    # random: the single global generator
    def _global_rs(it):
        if not hasattr(it, 'global_rng'):
            it.global_rng = SRandomState(z3.Int('GlobalStream'), 'global')
        return it.global_rng

    class RandomNS(Namespace):
        def py_getattr(self, it, name):
            if name == 'RandomState':
                def ctor(it_, a, k):
                    if not a or a[0] is None:
                        it_.rng_log.append(('entropy', 'RandomState()'))
                        s = it_.ctx.fresh_int('EntropyStream')
                        return SRandomState(s, 'entropy')
                    seed = to_num(a[0])
                    return SRandomState(uf('SeededStream', z3.IntSort(), z3.IntSort())(seed), 'seeded')
                return TypeTag('RandomState', ctor)
            if name in ('get_state', 'set_state', 'seed', 'choice'):
                raise Unsupported("np.random.%s" % name)
            return _global_rs(it).py_getattr(it, name)
    ns['random'] = RandomNS('numpy.random')

    ns['ndarray'] = TypeTag('ndarray')
    ns['float64'] = TypeTag('float64', lambda it, a, k: to_real(a[0]) if is_z3(a[0]) else float(a[0]))
    ns['int64'] = TypeTag('int64')
    ns['inf'] = INF
    ns['pi'] = z3.Real('np.pi')
    ns['newaxis'] = None
    return Namespace('numpy', ns)
