"""Symbolic differentiation of z3 real terms (used to derive d loss / d yhat from the reference
kernel instead of writing the expected derivative by hand)."""
import z3

RULES = {
    # uninterpreted function name -> derivative builder f'(u)
    'Log': lambda u: 1 / u,
    'Exp': lambda u: z3.Function('Exp', z3.RealSort(), z3.RealSort())(u),
}


def contains(e, var):
    if e.eq(var):
        return True
    return any(contains(c, var) for c in e.children())


def diff(e, var):
    """d e / d var for e built from + - * / constants, ToReal, Log/Exp; any other function
    application must not depend on var"""
    if not contains(e, var):
        return z3.RealVal(0)
    if e.eq(var):
        return z3.RealVal(1)
    k = e.decl().kind()
    ch = e.children()
    if k == z3.Z3_OP_ADD:
        return z3.Sum([diff(c, var) for c in ch])
    if k == z3.Z3_OP_SUB:
        r = diff(ch[0], var)
        for c in ch[1:]:
            r = r - diff(c, var)
        return r
    if k == z3.Z3_OP_UMINUS:
        return -diff(ch[0], var)
    if k == z3.Z3_OP_MUL:
        total = z3.RealVal(0)
        for i in range(len(ch)):
            term = diff(ch[i], var)
            for j in range(len(ch)):
                if j != i:
                    term = term * ch[j]
            total = total + term
        return total
    if k == z3.Z3_OP_DIV:
        u, v = ch
        return (diff(u, var) * v - u * diff(v, var)) / (v * v)
    if k == z3.Z3_OP_TO_REAL:
        return diff(ch[0], var)
    if k == z3.Z3_OP_UNINTERPRETED and len(ch) == 1 and e.decl().name() in RULES:
        return RULES[e.decl().name()](ch[0]) * diff(ch[0], var)
    raise ValueError("cannot differentiate %s w.r.t. %s" % (e, var))
