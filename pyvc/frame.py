"""Frame conditions decided on the AST: a function 'assigns only its locals, its arguments and what hangs off them'.

The contracts summarise some repository functions as functions of their arguments alone (checkEquation: Parse(string, symbol tables);
the compiled-evaluator builders; the distribution helpers).  That summary is only sound if the function keeps no state of its own
between calls.  This module decides the syntactic part of that frame condition for a function definition:

  * no `global` / `nonlocal` declaration,
  * no store (assignment, augmented assignment, deletion, loop target) into a subscript or attribute whose root name is not a local
    variable or a parameter of the function (i.e. a module-level object),
  * no call of a mutating method (append, update, setdefault, pop, ...) on such a non-local root.

It is a syntactic (conservative, alias-blind) check; exec/eval strings are not looked into.  A failure is reported as lost proof
scaffolding (`frame/...`): a correctly keyed cache is legal python, so the verdict needs a concrete failing input (stand-in or
replay) before it counts as a violation."""
import ast

MUTATORS = {'append', 'extend', 'insert', 'pop', 'remove', 'clear', 'update', 'setdefault', 'add', 'discard', 'popitem', 'sort',
            'reverse', 'appendleft', 'extendleft', 'popleft', '__setitem__', '__delitem__'}


def _locals(fn):
    names = set()
    a = fn.args
    for x in list(a.posonlyargs) + list(a.args) + list(a.kwonlyargs):
        names.add(x.arg)
    if a.vararg:
        names.add(a.vararg.arg)
    if a.kwarg:
        names.add(a.kwarg.arg)
    declared_global = set()
    for n in ast.walk(fn):
        if isinstance(n, ast.Name) and isinstance(n.ctx, (ast.Store, ast.Del)):
            names.add(n.id)
        elif isinstance(n, (ast.FunctionDef, ast.AsyncFunctionDef, ast.ClassDef)) and n is not fn:
            names.add(n.name)
            if not isinstance(n, ast.ClassDef):
                for x in list(n.args.posonlyargs) + list(n.args.args) + list(n.args.kwonlyargs):
                    names.add(x.arg)
                if n.args.vararg:
                    names.add(n.args.vararg.arg)
                if n.args.kwarg:
                    names.add(n.args.kwarg.arg)
        elif isinstance(n, ast.Lambda):
            for x in list(n.args.posonlyargs) + list(n.args.args) + list(n.args.kwonlyargs):
                names.add(x.arg)
        elif isinstance(n, (ast.Import, ast.ImportFrom)):
            for al in n.names:
                names.add((al.asname or al.name).split('.')[0])
        elif isinstance(n, ast.ExceptHandler) and n.name:
            names.add(n.name)
        elif isinstance(n, (ast.Global, ast.Nonlocal)):
            declared_global |= set(n.names)
    return names - declared_global, declared_global


def _root(node):
    while isinstance(node, (ast.Attribute, ast.Subscript, ast.Starred)):
        node = node.value
    if isinstance(node, ast.Call):
        return None          # result of a call: a fresh or unknown object, not a named module-level one
    return node.id if isinstance(node, ast.Name) else None


def module_imports(tree):
    """names bound by import statements at module level (np.append(...) is a library call, not a mutation of `np`)"""
    out = set()
    for n in tree.body:
        if isinstance(n, (ast.Import, ast.ImportFrom)):
            for al in n.names:
                out.add((al.asname or al.name).split('.')[0])
        elif isinstance(n, ast.Try):
            for m in ast.walk(n):
                if isinstance(m, (ast.Import, ast.ImportFrom)):
                    for al in m.names:
                        out.add((al.asname or al.name).split('.')[0])
    return out


def violations(fn, imports=()):
    """[(lineno, description)] for the (top-level or method) function definition node fn"""
    loc, glob = _locals(fn)
    out = []
    for n in ast.walk(fn):
        if isinstance(n, (ast.Global, ast.Nonlocal)):
            out.append((n.lineno, "declares %s %s" % ('global' if isinstance(n, ast.Global) else 'nonlocal', ", ".join(n.names))))
        targets = []
        if isinstance(n, ast.Assign):
            targets = n.targets
        elif isinstance(n, (ast.AugAssign, ast.AnnAssign)):
            targets = [n.target]
        elif isinstance(n, ast.Delete):
            targets = n.targets
        elif isinstance(n, (ast.For, ast.AsyncFor)):
            targets = [n.target]
        for t in targets:
            for leaf in ([t] if not isinstance(t, (ast.Tuple, ast.List)) else list(ast.walk(t))):
                if isinstance(leaf, (ast.Subscript, ast.Attribute)) and isinstance(leaf.ctx, (ast.Store, ast.Del)):
                    r = _root(leaf)
                    if r is not None and r not in loc:
                        out.append((leaf.lineno, "stores into %s, which hangs off the non-local name %r" % (ast.unparse(leaf)[:60], r)))
                elif isinstance(leaf, ast.Name) and leaf.id in glob:
                    out.append((leaf.lineno, "assigns the global %r" % leaf.id))
        if isinstance(n, ast.Call) and isinstance(n.func, ast.Attribute) and n.func.attr in MUTATORS:
            r = _root(n.func.value)
            if r is not None and r not in loc and r not in imports:
                out.append((n.lineno, "calls %s.%s(...) on the non-local name %r" % (ast.unparse(n.func.value)[:40], n.func.attr, r)))
    return sorted(set(out))


def injects_into_own_frame(fn):
    """the function execs definitions into its own frame and evaluates strings against locals() (checkEquation does: the model's
    symbols become its local variables)"""
    calls = {n.func.id for n in ast.walk(fn) if isinstance(n, ast.Call) and isinstance(n.func, ast.Name)}
    return 'exec' in calls and 'locals' in calls


def shadowing_locals(fn, allowed=('list_out',)):
    """locals of such a function that could shadow an injected symbol: every local that is not a parameter, not underscore-prefixed
    (the function's own documented rule: symbols starting with an underscore are not allowed in a model) and not one of the few
    the pinned source already has (`list_out`)"""
    loc, _ = _locals(fn)
    a = fn.args
    params = {x.arg for x in list(a.posonlyargs) + list(a.args) + list(a.kwonlyargs)}
    return sorted(n for n in loc if n not in params and not n.startswith('_') and n not in allowed)
