"""Insertion-ordered dictionary with symbolic contents, keyed by parameter names (str) or parameter symbols.

A key is a pair (name, kind): name is the Int term of an SName, kind 0 = python str, 1 = the model's own sympy
Symbol of that name, 2 = a Symbol of the same name created elsewhere (different assumptions, hence a different key).
State (z3 terms, replaced on mutation; the python object keeps its identity, as a dict does):
    L                 number of keys
    Dom(name, kind)   key present
    Val(name, kind)   its value (Real)
    Pos(name, kind)   its position in insertion order
    KN(r), KK(r)      name and kind of the key at position r
Structural fact of every dict state (re-stated after havoc): positions [0, L) and present keys are in
bijection.  d[key] = v updates the value in place when the key is present (position kept) and appends it at
position L otherwise -- CPython's dict semantics (trusted)."""
import z3

from .values import *  # noqa
from .lib import SList

I, R, B = z3.IntSort(), z3.RealSort(), z3.BoolSort()
A2B, A2R, A2I = z3.ArraySort(I, I, B), z3.ArraySort(I, I, R), z3.ArraySort(I, I, I)
A1I = z3.ArraySort(I, I)


class SParamSymbol(Model):
    """the sympy Symbol of a declared parameter, known by the name it was declared with"""
    tags = frozenset({'Symbol', 'Expr', 'Basic', 'AtomicExpr', 'Atom'})

    def __init__(self, name_term, flavour=1):
        self.pname = name_term
        self.flavour = flavour      # 1: the model's own Symbol (real=True); 2: a Symbol of the same name created elsewhere

    def __repr__(self):
        return "SParamSymbol(%s, %s)" % (self.pname, self.flavour)

    def py_str(self, it):
        return SName(self.pname)

    def py_eq(self, it, other):
        if isinstance(other, SParamSymbol):
            if self.flavour != other.flavour:
                return False        # sympy symbols with different assumptions are different objects / keys
            return self.pname == other.pname
        return False

    def py_truth(self, it):
        return True

    def fresh_like(self, it, hint):
        return SParamSymbol(it.ctx.fresh_int(hint), self.flavour)


def key_of(k):
    """python value -> (name term, kind) or None"""
    if isinstance(k, SName):
        return k.term, z3.IntVal(0)
    if isinstance(k, SParamSymbol):
        return k.pname, z3.IntVal(k.flavour)
    if isinstance(k, str):
        return z3.IntVal(name_code(k)), z3.IntVal(0)
    if isinstance(k, SKey):
        return k.name, k.kind
    return None


class SKey(Model):
    """a key read back from a symbolic dict before its kind is known; resolved by a path split"""

    def __init__(self, name, kind):
        self.name, self.kind = name, kind


class SDict(Model):
    tags = frozenset({'dict'})

    def __init__(self, it, hint='d', empty=False):
        c = it.ctx
        self.hint = hint
        if empty:
            self.L = z3.IntVal(0)
            self.Dom = z3.K(I, z3.K(I, z3.BoolVal(False))) if False else z3.Const(c._name(hint + '_dom0'), A2B)
            n, kd = z3.Int(c._name('n')), z3.Int(c._name('kd'))
            c.assume(z3.ForAll([n, kd], z3.Not(z3.Select(self.Dom, n, kd))))
            self.Val = z3.Const(c._name(hint + '_val'), A2R)
            self.Pos = z3.Const(c._name(hint + '_pos'), A2I)
            self.KN = z3.Const(c._name(hint + '_kn'), A1I)
            self.KK = z3.Const(c._name(hint + '_kk'), A1I)
        else:
            self._fresh(it)

    def _fresh(self, it):
        c = it.ctx
        h = self.hint
        self.L = c.fresh_int(h + '_len')
        self.Dom = z3.Const(c._name(h + '_dom'), A2B)
        self.Val = z3.Const(c._name(h + '_val'), A2R)
        self.Pos = z3.Const(c._name(h + '_pos'), A2I)
        self.KN = z3.Const(c._name(h + '_kn'), A1I)
        self.KK = z3.Const(c._name(h + '_kk'), A1I)
        self.structure(it)

    def structure(self, it):
        """positions and present keys are in bijection; kinds are 0 or 1"""
        c = it.ctx
        r, n, kd = z3.Int(c._name('r')), z3.Int(c._name('n')), z3.Int(c._name('kd'))
        c.assume(self.L >= 0)
        c.assume(z3.ForAll([r], z3.Implies(z3.And(r >= 0, r < self.L),
                                           z3.And(z3.Select(self.Dom, z3.Select(self.KN, r), z3.Select(self.KK, r)),
                                                  z3.Select(self.Pos, z3.Select(self.KN, r), z3.Select(self.KK, r)) == r,
                                                  z3.And(z3.Select(self.KK, r) >= 0, z3.Select(self.KK, r) <= 2))),
                             patterns=[z3.Select(self.KN, r)]))
        c.assume(z3.ForAll([n, kd], z3.Implies(z3.Select(self.Dom, n, kd),
                                               z3.And(z3.Select(self.Pos, n, kd) >= 0, z3.Select(self.Pos, n, kd) < self.L,
                                                      z3.Select(self.KN, z3.Select(self.Pos, n, kd)) == n,
                                                      z3.Select(self.KK, z3.Select(self.Pos, n, kd)) == kd,
                                                      z3.And(kd >= 0, kd <= 2))),
                             patterns=[z3.Select(self.Dom, n, kd)]))

    # ---- views for contracts
    def dom(self, n, kd):
        return z3.Select(self.Dom, n, kd)

    def val(self, n, kd):
        return z3.Select(self.Val, n, kd)

    def pos(self, n, kd):
        return z3.Select(self.Pos, n, kd)

    def snapshot(self):
        return dict(L=self.L, Dom=self.Dom, Val=self.Val, Pos=self.Pos, KN=self.KN, KK=self.KK)

    # ---- python protocol
    def py_len(self, it):
        return self.L

    def py_truth(self, it):
        return self.L != 0

    def _key(self, k):
        kk = key_of(k)
        if kk is None:
            raise Unsupported("dict key %r" % (k,))
        return kk

    def py_contains(self, it, item):
        n, kd = self._key(item)
        return z3.Select(self.Dom, n, kd)

    def py_getitem(self, it, key):
        n, kd = self._key(key)
        if not it.ctx.branch(z3.Select(self.Dom, n, kd), 'dict-getitem'):
            raise PyRaise(ExcVal('KeyError', (key,), {'KeyError', 'LookupError', 'Exception', 'BaseException'}))
        return z3.Select(self.Val, n, kd)

    def py_setitem(self, it, key, v):
        it.ctx.note_trusted("dict item assignment: an existing key keeps its position and gets the new value; a new key is appended at the end")
        n, kd = self._key(key)
        rv = to_real(v)
        if rv is None:
            raise Unsupported("dict value %r" % (v,))
        present = z3.Select(self.Dom, n, kd)
        p = z3.If(present, z3.Select(self.Pos, n, kd), self.L)
        self.KN = z3.Store(self.KN, p, n)
        self.KK = z3.Store(self.KK, p, kd)
        self.Pos = z3.Store(self.Pos, n, kd, p)
        self.Val = z3.Store(self.Val, n, kd, rv)
        self.L = z3.simplify(z3.If(present, self.L, self.L + 1))
        self.Dom = z3.Store(self.Dom, n, kd, z3.BoolVal(True))

    def key_at(self, it, r):
        """the key object at position r (path split on its kind)"""
        n, kd = z3.Select(self.KN, r), z3.Select(self.KK, r)
        # the structural facts instantiated at r (they follow from `structure`; stated to spare the solver the search)
        it.ctx.assume(z3.Implies(z3.And(r >= 0, r < self.L),
                                 z3.And(z3.Select(self.Dom, n, kd), z3.Select(self.Pos, n, kd) == r, kd >= 0, kd <= 2)))
        if it.ctx.branch(kd == 0, 'dict-key-kind'):
            return SName(n)
        if it.ctx.branch(kd == 1, 'dict-key-kind'):
            return SParamSymbol(n, 1)
        it.ctx.assume(kd == 2)
        return SParamSymbol(n, 2)

    def py_iter(self, it):
        return SymIter(self.L, lambda r: self.key_at(it, r))

    def py_getattr(self, it, name):
        if name == 'items':
            def items(it_, a, k):
                def pair(r):
                    key = self.key_at(it_, r)
                    return (key, z3.Select(self.Val, z3.Select(self.KN, r), z3.Select(self.KK, r)))
                return SList(self.L, pair)
            return Builtin('dict.items', items)
        if name == 'keys':
            return Builtin('dict.keys', lambda it_, a, k: SList(self.L, lambda r: self.key_at(it_, r)))
        if name == 'copy':
            return Builtin('dict.copy', lambda it_, a, k: self.clone(it_))
        raise Unsupported("dict method %s on a symbolic dict" % name)

    def clone(self, it):
        """dict(d) / d.copy(): a new dict object with the same keys (same insertion order) and values; later writes to either do
        not reach the other (the components are immutable z3 terms, so sharing them is a copy)"""
        it.ctx.note_trusted("dict(d) / d.copy(): a new dict with the same items in the same order")
        c = SDict.__new__(SDict)
        c.hint = self.hint + '_copy'
        c.L, c.Dom, c.Val, c.Pos, c.KN, c.KK = self.L, self.Dom, self.Val, self.Pos, self.KN, self.KK
        return c

    def fresh_like(self, it, hint):
        return SDict(it, hint)

    def havoc_inplace(self, it, hint):
        self._fresh(it)
