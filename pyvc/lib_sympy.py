"""sympy namespace model (assumed contracts, DESIGN.md 2.4); grown by the C01/C03 contracts."""
import z3
from .values import *  # noqa


def build(lib):
    from .lib import Unmodelled_ns
    return Unmodelled_ns('sympy')
