"""sympy model (assumed contracts on sympy, DESIGN.md 2.4).

Expressions are terms of an uninterpreted sort Expr with ring constructors and a valuation
val : Expr -> Real that is a ring homomorphism *for an arbitrary fixed point* (x, t, theta); an
identity proved about val therefore holds identically in states, parameters and time.
D(e, s) is the derivative of e with respect to the symbol s (sympy.diff is the derivative).
Parse(name) is the expression a declaration string parses to (checkEquation is trusted)."""
import ast
import z3

from .values import *  # noqa
from .lib import SList, SArr, norm_index, dim_eq

Expr = z3.DeclareSort('Expr')
I, R, B = z3.IntSort(), z3.RealSort(), z3.BoolSort()
e_add = z3.Function('e_add', Expr, Expr, Expr)
e_mul = z3.Function('e_mul', Expr, Expr, Expr)
e_neg = z3.Function('e_neg', Expr, Expr)
e_num = z3.Function('e_num', R, Expr)
val = z3.Function('val', Expr, R)
D = z3.Function('D', Expr, Expr, Expr)
Parse = z3.Function('Parse', I, Expr)
StateSym = z3.Function('StateSym', I, Expr)
ParamSym = z3.Function('ParamSym', I, Expr)
InAtoms = z3.Function('InAtoms', Expr, Expr, B)
AtomCount = z3.Function('AtomCount', Expr, I, I)
ZERO = e_num(z3.RealVal(0))


def axioms(it):
    """ring-homomorphism axioms of val, asserted once per path"""
    if ('sympy-axioms',) in it.ctx.covers:
        return
    it.ctx.covers.add(('sympy-axioms',))
    it.ctx.note_trusted("sympy ring operations: val(a+b)=val a+val b, val(a*b)=val a*val b, val(-a)=-val a, val(number)=number, for every valuation")
    a, b = z3.Const('ax_a', Expr), z3.Const('ax_b', Expr)
    r = z3.Real('ax_r')
    it.ctx.assume(z3.ForAll([a, b], val(e_add(a, b)) == val(a) + val(b), patterns=[e_add(a, b)]))
    it.ctx.assume(z3.ForAll([a, b], val(e_mul(a, b)) == val(a) * val(b), patterns=[e_mul(a, b)]))
    it.ctx.assume(z3.ForAll([a], val(e_neg(a)) == -val(a), patterns=[e_neg(a)]))
    it.ctx.assume(z3.ForAll([r], val(e_num(r)) == r, patterns=[e_num(r)]))


def to_expr(it, v):
    if isinstance(v, SExpr):
        return v.term
    r = to_real(v)
    if r is not None:
        return e_num(r)
    raise Unsupported("not a sympy expression: %r" % (v,))


class SAtoms(Model):
    def __init__(self, expr, types):
        self.expr = expr
        self.types = types

    def py_len(self, it):
        n = AtomCount(self.expr, z3.IntVal(sum(hash(getattr(t, 'name', str(t))) % 9973 for t in self.types)))
        it.ctx.assume(n >= 0)
        return n

    def py_contains(self, it, item):
        return InAtoms(self.expr, to_expr(it, item))

    def py_iter(self, it):
        raise Unsupported("iteration over atoms")


class SExpr(Model):
    tags = frozenset({'Expr', 'Basic'})

    def __init__(self, term, extra_tags=()):
        self.term = term
        if extra_tags:
            self.tags = frozenset(self.tags | set(extra_tags))

    def __repr__(self):
        return "SExpr(%s)" % self.term

    def py_binop(self, it, op, other, refl):
        axioms(it)
        if isinstance(other, (SMatrix,)):
            return NotImplemented
        o = to_expr(it, other)
        a, b = (o, self.term) if refl else (self.term, o)
        if isinstance(op, ast.Add):
            return SExpr(e_add(a, b))
        if isinstance(op, ast.Sub):
            return SExpr(e_add(a, e_neg(b)))
        if isinstance(op, ast.Mult):
            return SExpr(e_mul(a, b))
        raise Unsupported("sympy operator %s" % type(op).__name__)

    def py_unop(self, it, op):
        axioms(it)
        if isinstance(op, ast.USub):
            return SExpr(e_neg(self.term))
        return NotImplemented

    def py_eq(self, it, other):
        if isinstance(other, SExpr):
            return self.term == other.term
        r = to_real(other)
        if r is not None:
            return self.term == e_num(r)
        return False

    def py_truth(self, it):
        return True

    def py_getattr(self, it, name):
        if name == 'atoms':
            return Builtin('Expr.atoms', lambda it_, a, k: SAtoms(self.term, a))
        if name == 'is_real':
            return True
        if name == 'ID':
            # a sympy expression is not an ODEVariable
            raise PyRaise(ExcVal('AttributeError', ("sympy object has no attribute 'ID'",)))
        raise Unsupported("sympy expression attribute %s" % name)

    def py_str(self, it):
        return "<expr>"

    def fresh_like(self, it, hint):
        return SExpr(z3.Const(it.ctx._name(hint), Expr))


class SMatrix(Model):
    """sympy mutable dense matrix: shape and a z3 array (Int, Int) -> Expr"""
    tags = frozenset({'MatrixBase', 'Matrix'})

    def __init__(self, rows, cols, arr):
        self.rows, self.cols, self.arr = rows, cols, arr

    def __repr__(self):
        return "SMatrix(%s x %s)" % (self.rows, self.cols)

    def cell(self, i, j):
        return z3.Select(self.arr, to_num(i), to_num(j))

    def _index(self, it, idx):
        if isinstance(idx, tuple):
            if len(idx) != 2 or any(isinstance(x, slice) for x in idx):
                raise Unsupported("matrix slice")
            i = norm_index(it, idx[0], self.rows)
            j = norm_index(it, idx[1], self.cols)
        else:
            k = norm_index(it, idx, to_num(self.rows) * to_num(self.cols))
            if dim_eq(self.cols, 1) is True:
                i, j = k, z3.IntVal(0)
            elif dim_eq(self.rows, 1) is True:
                i, j = z3.IntVal(0), k
            else:
                raise Unsupported("flat index into a matrix that is not known to be a vector")
        it.ctx.oblige("safety/matrix-index-in-range", z3.And(i >= 0, i < to_num(self.rows), j >= 0, j < to_num(self.cols)))
        return i, j

    def py_getitem(self, it, idx):
        i, j = self._index(it, idx)
        return SExpr(z3.Select(self.arr, i, j))

    def py_setitem(self, it, idx, v):
        i, j = self._index(it, idx)
        it.ctx.note_trusted("sympy matrix item assignment stores the expression at that cell only")
        self.arr = z3.Store(self.arr, i, j, to_expr(it, v))

    def py_len(self, it):
        return z3.simplify(to_num(self.rows) * to_num(self.cols))

    def py_iter(self, it):
        if dim_eq(self.cols, 1) is True:
            arr = self.arr
            return SymIter(self.rows, lambda k: SExpr(z3.Select(arr, k, 0))) if not isinstance(self.rows, int) else \
                [SExpr(z3.Select(arr, z3.IntVal(i), 0)) for i in range(self.rows)]
        raise Unsupported("iteration over a matrix that is not known to be a column vector")

    def py_binop(self, it, op, other, refl):
        axioms(it)
        if isinstance(other, SMatrix) and isinstance(op, ast.Add):
            if dim_eq(self.rows, other.rows) is not True or dim_eq(self.cols, other.cols) is not True:
                it.ctx.oblige("safety/matrix-sum-shapes", z3.And(to_num(self.rows) == to_num(other.rows), to_num(self.cols) == to_num(other.cols)))
            i, j = z3.Int('mi'), z3.Int('mj')
            a, b = self.arr, other.arr
            return SMatrix(self.rows, self.cols, z3.Lambda([i, j], e_add(z3.Select(a, i, j), z3.Select(b, i, j))))
        raise Unsupported("matrix operator %s" % type(op).__name__)

    def py_getattr(self, it, name):
        if name == 'rows':
            return self.rows
        if name == 'cols':
            return self.cols
        if name == 'shape':
            return (self.rows, self.cols)
        if name == 'jacobian':
            def jac(it_, a, k):
                it_.ctx.note_trusted("sympy Matrix.jacobian(vars)[i,j] = D(self[i], vars[j]) for a column vector self")
                vs = a[0]
                if dim_eq(self.cols, 1) is not True:
                    raise Unsupported("jacobian of a non-vector")
                n = it_.length(vs)
                src = self.arr
                i, j = z3.Int('ji'), z3.Int('jj')
                if isinstance(vs, (list, tuple)):
                    raise Unsupported("jacobian with a concrete variable list")
                el = vs.element
                return SMatrix(self.rows, n, z3.Lambda([i, j], D(z3.Select(src, i, 0), to_expr(it_, el(j)))))
            return Builtin('Matrix.jacobian', jac)
        if name == 'col_join':
            def cj(it_, a, k):
                it_.ctx.note_trusted("sympy Matrix.col_join(B): rows of self followed by rows of B")
                o = a[0]
                it_.ctx.oblige("safety/col_join-same-number-of-columns", to_num(self.cols) == to_num(o.cols))
                i, j = z3.Int('ci'), z3.Int('cj')
                r0 = to_num(self.rows)
                a1, a2 = self.arr, o.arr
                return SMatrix(z3.simplify(r0 + to_num(o.rows)), self.cols,
                               z3.Lambda([i, j], z3.If(i < r0, z3.Select(a1, i, j), z3.Select(a2, i - r0, j))))
            return Builtin('Matrix.col_join', cj)
        if name == 'atoms':
            raise Unsupported("Matrix.atoms")
        raise Unsupported("sympy matrix attribute %s" % name)

    def deepcopy(self):
        return SMatrix(self.rows, self.cols, self.arr)

    def fresh_like(self, it, hint):
        return SMatrix(self.rows, self.cols, z3.Array(it.ctx._name(hint), I, I, Expr))

    def havoc_inplace(self, it, hint):
        self.arr = z3.Array(it.ctx._name(hint), I, I, Expr)


class SMatList(Model):
    """python list of equally shaped sympy matrices with symbolic length: cell(e, a, b)"""
    tags = frozenset({'list'})

    def __init__(self, length, rows, cols, cell):
        self.length, self.rows, self.cols, self.cell = length, rows, cols, cell

    def py_len(self, it):
        return self.length

    def py_getitem(self, it, idx):
        k = norm_index(it, idx, self.length)
        it.ctx.oblige("safety/index-in-range", z3.And(k >= 0, k < to_num(self.length)))
        i, j = z3.Int('li'), z3.Int('lj')
        c = self.cell
        return SMatrix(self.rows, self.cols, z3.Lambda([i, j], c(k, i, j)))

    def py_getattr(self, it, name):
        if name == 'append':
            def app(it_, a, k):
                m = a[0]
                if not isinstance(m, SMatrix):
                    raise Unsupported("append of %r to a matrix list" % (m,))
                if self.rows is None:
                    self.rows, self.cols = m.rows, m.cols
                else:
                    it_.ctx.oblige("safety/matrices-have-equal-shape", z3.And(to_num(m.rows) == to_num(self.rows), to_num(m.cols) == to_num(self.cols)))
                old, L, arr = self.cell, to_num(self.length), m.arr
                self.cell = lambda e, a_, b_: z3.If(e == L, z3.Select(arr, a_, b_), old(e, a_, b_))
                self.length = z3.simplify(L + 1)
            return Builtin('list.append', app)
        raise Unsupported("list method %s on a matrix list" % name)

    def havoc_inplace(self, it, hint):
        n = it.ctx.fresh_int(hint + "_len")
        it.ctx.assume(n >= 0)
        f = it.ctx.fresh_func(hint, I, I, I, Expr)
        self.length, self.cell = n, (lambda e, a, b: f(e, a, b))

    def fresh_like(self, it, hint):
        m = SMatList(0, self.rows, self.cols, None)
        m.havoc_inplace(it, hint)
        return m


def build(lib):
    def zeros(it, a, k):
        axioms(it)
        it.ctx.note_trusted("sympy.zeros(r, c): an r x c matrix of zeros")
        r, c = a[0], (a[1] if len(a) > 1 else a[0])
        return SMatrix(r, c, z3.K(I, z3.K(I, ZERO)) if False else z3.Lambda([z3.Int('zi'), z3.Int('zj')], ZERO))

    def diff(it, a, k):
        it.ctx.note_trusted("sympy.diff(e, s, 1) is the partial derivative D(e, s)")
        n = a[2] if len(a) > 2 else 1
        if n != 1:
            raise Unsupported("higher-order diff")
        return SExpr(D(to_expr(it, a[0]), to_expr(it, a[1])))
    ns = {
        'zeros': Builtin('sympy.zeros', zeros),
        'diff': Builtin('sympy.diff', diff),
        'Symbol': TypeTag('Symbol'),
        'Expr': TypeTag('Expr'),
        'exp': TypeTag('exp'), 'log': TypeTag('log'),
    }

    class SympyNS(Namespace):
        def py_getattr(self, it, name):
            if name in self.attrs:
                return self.attrs[name]
            from .interp import Unmodelled
            return Unmodelled('sympy.' + name)
    return SympyNS('sympy', ns)
