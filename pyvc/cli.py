"""vcheck: decide one property with its contracts (quick / thorough), write evidence."""
import argparse
import glob
import importlib
import json
import os
import shutil
import sys
import time
import traceback

HERE = os.path.dirname(os.path.dirname(os.path.abspath(__file__)))
sys.path.insert(0, HERE)

from pyvc import driver  # noqa: E402

REPO_SRC = os.environ.get('PYVC_REPO_SRC', '/repo/src')


def load_contracts():
    for f in sorted(glob.glob(os.path.join(HERE, 'contracts', 'c*.py'))):
        importlib.import_module('contracts.' + os.path.basename(f)[:-3])
    return driver.REGISTRY


def _run_one(cid):
    for c in driver.REGISTRY:
        if c.cid == cid:
            try:
                return driver.run_contract(c, root=REPO_SRC).to_dict()
            except Exception as e:   # a crash of the engine is a checker failure, not a verdict
                return {'cid': cid, 'error': "%s\n%s" % (e, traceback.format_exc()), 'clauses': {}, 'undecided': [],
                        'paths': 0, 'cut_paths': 0, 'trusted': [], 'canaries': {}, 'solver_time': 0, 'solver_calls': 0,
                        'inlined': [], 'dropped': [], 'wall': 0, 'functions': {}, 'samples': []}
    raise KeyError(cid)


def _shaky(r):
    """a result that may be an artefact of a solver time-out: an unknown obligation, or a refutation found only after the
    quantified hypotheses were dropped"""
    if r.get('error'):
        return False
    return any(cl['status'] == 'unknown' or (cl['status'] == 'refuted' and '[weak model' in (cl.get('detail') or '')) for cl in r['clauses'].values())


def _run_one_slow(cid):
    os.environ['PYVC_TIMEOUT_SCALE'] = '5'
    os.environ['PYVC_FEAS_MS'] = '4000'
    try:
        return _run_one(cid)
    finally:
        os.environ.pop('PYVC_TIMEOUT_SCALE', None)
        os.environ.pop('PYVC_FEAS_MS', None)


def _lost(cid, why):
    """a contract whose worker process did not deliver: undecided (never a verdict about the property)"""
    return {'cid': cid, 'error': '', 'clauses': {}, 'undecided': [why], 'paths': 0, 'cut_paths': 0, 'trusted': [], 'canaries': {},
            'solver_time': 0, 'solver_calls': 0, 'inlined': [], 'dropped': [], 'wall': 0, 'functions': {}, 'samples': []}


def _child(fn, cid, conn):
    try:
        conn.send(fn(cid))
    except BaseException as e:        # noqa -- the parent turns a silent child into 'undecided'
        try:
            conn.send(_lost(cid, "worker failed: %s" % (e,)))
        except Exception:
            pass
    finally:
        conn.close()


def _pmap(fn, cids, jobs, hard_s):
    """one fresh process per contract, at most `jobs` at a time; a worker that dies (killed, out of memory) or overruns the hard
    wall-time limit yields an undecided result instead of hanging the check"""
    import multiprocessing as mp
    ctx = mp.get_context('fork')
    pending = list(enumerate(cids))
    running, out = {}, [None] * len(cids)
    while pending or running:
        while pending and len(running) < jobs:
            i, cid = pending.pop(0)
            pr, pw = ctx.Pipe(duplex=False)
            p = ctx.Process(target=_child, args=(fn, cid, pw))
            p.start()
            pw.close()
            running[i] = (p, pr, time.time(), cid)
        progressed = False
        for i, (p, pr, t0, cid) in list(running.items()):
            done = None
            if pr.poll(0):
                try:
                    done = pr.recv()
                except (EOFError, OSError):
                    done = _lost(cid, "worker process died before delivering a result")
            elif not p.is_alive():
                done = _lost(cid, "worker process died (exit code %s)" % p.exitcode)
            elif time.time() - t0 > hard_s:
                p.kill()
                done = _lost(cid, "hard wall-time limit of %d s per contract exceeded" % hard_s)
            if done is not None:
                out[i] = done
                p.join(5)
                pr.close()
                del running[i]
                progressed = True
        if not progressed:
            time.sleep(0.05)
    return out


def run_contracts(cids, jobs):
    wall = float(os.environ.get('PYVC_CONTRACT_WALL_S', '900'))
    if jobs <= 1 or len(cids) <= 1:
        res = [_run_one(c) for c in cids]
    else:
        res = _pmap(_run_one, cids, min(jobs, len(cids)), wall + 300)
    # verdicts must not depend on machine load: anything that looks like a time-out is decided again with five times the
    # budget and at most 4 solver processes at a time
    again = [i for i, r in enumerate(res) if _shaky(r)]
    if again:
        if os.environ.get('PYVC_VERBOSE'):
            print('retrying with a larger budget:', [cids[i] for i in again], [[n for n, cl in res[i]['clauses'].items() if cl['status'] != 'proved'] for i in again])
        redo = _pmap(_run_one_slow, [cids[i] for i in again], min(4, len(again)), 5 * wall + 300)
        for i, r in zip(again, redo):
            r['retried_with_larger_budget'] = True
            res[i] = r
        # still shaky (a busy machine): once more, two at a time
        again2 = [i for i in again if _shaky(res[i])]
        if again2:
            redo2 = _pmap(_run_one_slow, [cids[i] for i in again2], min(2, len(again2)), 5 * wall + 300)
            for i, r in zip(again2, redo2):
                r['retried_with_larger_budget'] = True
                if not _shaky(r) or not r.get('error'):
                    res[i] = r
    return res


def load_json(path, default):
    try:
        with open(path) as f:
            return json.load(f)
    except (OSError, ValueError):
        return default


def known_findings(pid):
    kf = load_json(os.path.join(HERE, 'known_findings.json'), {'findings': [], 'fixed': []})
    return [f for f in kf.get('findings', []) if f.get('property') == pid]


# properties whose statement has a clause no contract decides: level 'other', the bounded stand-in always runs
OTHER_LEVEL = {'C20': 'the Gauss-Newton clause (jtj) is proved; the hessian clause is a recorded known finding (F13) reported by the bounded stand-in per model',
               'C18': 'the wiring of fit into L-BFGS-B is proved for all inputs; that the optimiser stays inside the bounds and never returns a worse point is the assumed contract of scipy.optimize.minimize, exercised by the bounded stand-in',
               'C05': 'wiring of the samplers proved for all inputs; the distributional clause rests on the competing-exponentials theorem (assumed) and is looked at by the bounded statistical stand-in only'}
# properties whose core functions are not yet under contract: the bounded stand-in always runs and the level is 'exploration'
INTERIM = set()
LEMMA_PROPS = {'C01': ['distrib_inner'], 'C04': ['sum_nonneg_ge_term'], 'C11': ['sum_nonneg_ge_term'],
               'C10': ['closed_column_sum_zero', 'sum_comm_zero', 'step_keeps_total'],
               'C12': ['sum_perm'], 'C20': ['gram_psd', 'sum_psd', 'pos_closed'], 'C07': ['pos_closed'], 'C13': []}


def lemma_check(pid):
    """the Lean lemmas a property's contracts rely on: checked by lean (cached by file hash)"""
    import subprocess
    names = LEMMA_PROPS.get(pid)
    if not names:
        return None
    src = open(os.path.join(HERE, 'lemmas', 'Pygom.lean')).read()
    missing = [n for n in names if ('theorem ' + n + ' ') not in src and ('theorem ' + n + '\n') not in src]
    r = subprocess.run([os.path.join(HERE, 'lemmas', 'check.sh')], capture_output=True, text=True)
    ok = r.returncode == 0 and r.stdout.startswith('lean-ok') and not missing
    return {'lemmas': names, 'file': 'lemmas/Pygom.lean', 'checker': 'lean 4 + Mathlib (lemmas/check.sh)', 'ok': ok,
            'output': (r.stdout + r.stderr).strip()[-400:], 'missing': missing}


def engine_crosscheck():
    """the CPython cross-check of the engine (xcheck/xcheck.py), cached by the hash of the engine and snippet sources: a model of a
    python / numpy operation that excludes what CPython computes is a checker failure (exit 3), never a verdict"""
    import hashlib
    import subprocess
    h = hashlib.sha256()
    for f in sorted(glob.glob(os.path.join(HERE, 'pyvc', '*.py')) + glob.glob(os.path.join(HERE, 'xcheck', '*.py')) + glob.glob(os.path.join(HERE, 'xcheck', 'snippets', '*.py'))):
        h.update(open(f, 'rb').read())
    key = h.hexdigest()[:16]
    cache = os.path.join(HERE, '.cache', 'xcheck-%s.json' % key)
    if os.path.exists(cache):
        return load_json(cache, None)
    r = subprocess.run([sys.executable, os.path.join(HERE, 'xcheck', 'xcheck.py')], capture_output=True, text=True)
    last = ([l for l in r.stdout.splitlines() if l.startswith('xcheck:')] or [''])[-1]
    out = {'ok': r.returncode == 0 and bool(last), 'summary': last, 'details': [l[:240] for l in r.stdout.splitlines() if l.startswith(('DIFFERENT', 'crash', 'raises', 'no-path'))][:10],
           'what': 'xcheck/xcheck.py: every snippet run by CPython and by the engine on symbolic inputs constrained to the same values; same = proved equal, loose = the model admits the CPython result without forcing it'}
    if out['ok']:
        os.makedirs(os.path.dirname(cache), exist_ok=True)
        with open(cache, 'w') as f:
            json.dump(out, f)
    return out


def _standin_child(mod, tier, seed, conn, mem_bytes):
    try:
        import resource
        resource.setrlimit(resource.RLIMIT_AS, (mem_bytes, mem_bytes))
    except Exception:
        pass
    try:
        conn.send(('ok', mod.run(tier=tier, seed=seed)))
    except MemoryError:
        conn.send(('err', 'the stand-in ran out of its memory allowance (a simulation that runs away?)'))
    except BaseException as e:      # noqa
        conn.send(('err', "%s\n%s" % (e, traceback.format_exc()[-1500:])))
    finally:
        conn.close()


def run_standin_guarded(mod, tier, seed):
    """the bounded stand-in in a child process with a wall-time and a memory allowance: code under test that makes a simulation run
    away must end as a checker error (exit 3), never hang the check or take the machine down"""
    import multiprocessing as mp
    wall = float(os.environ.get('PYVC_STANDIN_WALL_S', '900' if tier == 'quick' else '7200'))
    mem = int(float(os.environ.get('PYVC_STANDIN_MEM_GB', '8')) * 2 ** 30)
    ctx = mp.get_context('fork')
    pr, pw = ctx.Pipe(duplex=False)
    p = ctx.Process(target=_standin_child, args=(mod, tier, seed, pw, mem))
    p.start()
    pw.close()
    t0 = time.time()
    res = None
    while True:
        if pr.poll(0.2):
            try:
                res = pr.recv()
            except (EOFError, OSError):
                res = ('err', 'the stand-in process died before delivering a result')
            break
        if not p.is_alive():
            res = ('err', 'the stand-in process died (exit code %s)' % p.exitcode)
            break
        if time.time() - t0 > wall:
            p.kill()
            res = ('err', 'the stand-in did not finish within %d s' % wall)
            break
    p.join(5)
    return (res[1], None) if res[0] == 'ok' else (None, res[1])


def scratch_dir():
    d = os.path.join('/var/tmp', 'pyvc-%d' % os.getpid())
    os.makedirs(d, exist_ok=True)
    os.environ['PYVC_SCRATCH'] = d
    os.environ['TMPDIR'] = d
    import tempfile
    tempfile.tempdir = d
    return d


def native_replay(contract, clause_name, clause):
    """run the contract's replay builder against the real code (this interpreter imports pygom
    from /repo/src)"""
    if contract.replay is None or clause.get('model') is None or os.environ.get('PYVC_NO_REPLAY'):
        return None
    try:
        return contract.replay(clause_name, clause['model'])
    except Exception as e:
        return {'reproduced': False, 'error': "replay builder failed: %s" % e, 'trace': traceback.format_exc()[-1500:]}


def main(argv=None):
    ap = argparse.ArgumentParser()
    ap.add_argument('pid', nargs='?')
    ap.add_argument('--tier', default=os.environ.get('VERIF_TIER', 'quick'))
    ap.add_argument('--replay')
    ap.add_argument('--jobs', type=int, default=int(os.environ.get('PYVC_JOBS', '16')))
    ap.add_argument('--write-baseline', action='store_true')
    ap.add_argument('--no-standin', action='store_true')
    args = ap.parse_args(argv)
    seed = int(os.environ.get('VERIF_SEED', '20260928'))
    sd = scratch_dir()
    try:
        if args.replay:
            return do_replay(args.replay)
        return check(args.pid, args.tier, seed, args)
    finally:
        shutil.rmtree(sd, ignore_errors=True)


def do_replay(path):
    data = load_json(path, None)
    if data is None:
        print("cannot read replay file", path)
        return 3
    contracts = {c.cid: c for c in load_contracts()}
    if data.get('kind') == 'standin':
        mod = importlib.import_module('standins.' + data['property'].lower())
        r = mod.replay(data['case'])
        print(json.dumps(r, indent=1, default=str))
        return 1 if r.get('reproduced') else 0
    c = contracts.get(data['contract'])
    if c is None:
        print("unknown contract", data['contract'])
        return 3
    r = native_replay(c, data['obligation'], {'model': data.get('model')})
    print(json.dumps({'obligation': data['obligation'], 'native': r}, indent=1, default=str))
    return 1 if (r and r.get('reproduced')) else 0


def check(pid, tier, seed, args):
    t0 = time.time()
    contracts = [c for c in load_contracts() if pid in c.props]
    by_id = {c.cid: c for c in contracts}
    results = run_contracts([c.cid for c in contracts], args.jobs)
    baseline = load_json(os.path.join(HERE, 'baseline_obligations.json'), {})
    kfs = known_findings(pid)

    n_obl = n_proved = n_inst = 0
    refuted, unknown, undecided, errors, canary_fail, missing = [], [], [], [], [], []
    trusted, functions, dropped = set(), {}, set()
    solver_time = 0.0
    samples = []
    for r in results:
        cid = r['cid']
        if r.get('error'):
            errors.append((cid, r['error']))
            continue
        for why in r['undecided']:
            undecided.append((cid, why))
        for name, cl in r['clauses'].items():
            n_obl += 1
            n_inst += cl['instances']
            if cl['status'] == 'proved':
                n_proved += 1
            elif cl['status'] == 'refuted':
                refuted.append((cid, name, cl))
            else:
                unknown.append((cid, name, cl))
        for name, ok in r['canaries'].items():
            if not ok:
                canary_fail.append((cid, name))
        base = baseline.get(cid)
        if base is not None and not r['undecided']:
            for name in base:
                if name not in r['clauses']:
                    missing.append((cid, name))
        trusted |= set(r['trusted'])
        functions.update(r['functions'])
        dropped |= set(r['dropped'])
        solver_time += r['solver_time']
        for name, cl in list(r['clauses'].items())[:2]:
            samples.append({'contract': cid, 'obligation': name, 'status': cl['status'], 'path_instances': cl['instances'],
                            'anchor': cl.get('where', '')})

    if args.write_baseline:
        for r in results:
            if not r.get('error'):
                baseline[r['cid']] = {n: cl['status'] for n, cl in r['clauses'].items()}
        with open(os.path.join(HERE, 'baseline_obligations.json'), 'w') as f:
            json.dump(baseline, f, indent=1, sort_keys=True)

    violations = []
    known_hit = []
    proof_lost = []          # refuted proof scaffolding (loop invariants, weak models) awaiting native confirmation
    replay_dir = os.path.join(os.environ.get('PYVC_OUT_DIR', HERE), 'replays', pid)
    replay_cache = {}
    for cid, name, cl in refuted:
        full = "%s::%s" % (cid, name)
        kf = [k for k in kfs if k.get('obligation') == full]
        if kf:
            known_hit.append((full, kf[0]))
            continue
        os.makedirs(replay_dir, exist_ok=True)
        if by_id[cid].replay is not None and cid in replay_cache and not replay_cache[cid].get('uses_model'):
            nat = replay_cache[cid]
        else:
            nat = native_replay(by_id[cid], name, cl)
            if nat is not None:
                replay_cache[cid] = nat
        safe = "".join(ch if ch.isalnum() else '_' for ch in full)[:120]
        path = os.path.join(replay_dir, safe + ".json")
        was = (baseline.get(cid) or {}).get(name)
        record = {'property': pid, 'contract': cid, 'obligation': name, 'function': by_id[cid].func,
                  'baseline_status': was, 'model': cl.get('model'), 'anchor': cl.get('where'),
                  'solver_output': {'result': 'sat (obligation refuted)', 'negated_goal': cl.get('detail'),
                                    'path_decisions': cl.get('path')},
                  'native': nat}
        with open(path, 'w') as f:
            json.dump(record, f, indent=1, default=str)
        reproduced = bool(nat and nat.get('reproduced'))
        scaffolding = name.startswith('loop-init/') or name.startswith('loop-preserve/') or name.startswith('frame/') or '[weak model' in (cl.get('detail') or '')
        if reproduced or not scaffolding:
            violations.append((full, path, reproduced))
        else:
            # a loop invariant that is no longer inductive (or a model found with hypotheses dropped) says the PROOF
            # is lost, not that the property fails: it needs a concrete failing input to count
            proof_lost.append((full, path, record))

    # ---- bounded stand-in (both tiers; quick size in the quick tier)
    proof_ok = not (unknown or undecided or missing or errors or proof_lost)
    standin = None
    unreplayed = [v for v in violations if not v[2]]
    # the bounded stand-in runs in both tiers (quick size in the quick tier): three of the seeded changes of the third round were
    # visible only to it (a size-dependent slip, state leaking between models, a grouping of processes no contract scenario had)
    run_standin = True
    have_standin = False
    if run_standin and not args.no_standin:
        try:
            mod = importlib.import_module('standins.' + pid.lower())
        except ImportError:
            mod = None
        if mod is not None:
            have_standin = True
            standin, err = run_standin_guarded(mod, tier, seed)
            if err:
                errors.append(('standin', err))
            elif tier == 'quick' and (proof_lost or unreplayed) and not [f for f in standin.get('failures', [])
                                                                         if not any(x.get('standin_case') == f.get('key') for x in kfs)]:
                # an obligation was refuted but neither its replay nor the quick-size stand-in has a failing input: before the run
                # settles for PROOF-LOST / no-failing-input-found, look once with the thorough-size corpus (escalation)
                os.environ['PYVC_STANDIN_WALL_S'] = os.environ.get('PYVC_STANDIN_WALL_S', '1200')
                big, err2 = run_standin_guarded(mod, 'thorough', seed)
                if big is not None and big.get('failures'):
                    big['rule'] = (big.get('rule') or '') + ' [thorough-size corpus, used because an obligation was refuted without a failing input]'
                    standin = big
        if standin:
            seen_keys = set()
            for k, fail in enumerate(standin.get('failures', [])):
                if fail.get('key') in seen_keys:
                    continue
                seen_keys.add(fail.get('key'))
                kf = [x for x in kfs if x.get('standin_case') and x['standin_case'] == fail.get('key')]
                if kf:
                    known_hit.append((fail.get('key'), kf[0]))
                    continue
                os.makedirs(replay_dir, exist_ok=True)
                path = os.path.join(replay_dir, "standin_%d.json" % k)
                with open(path, 'w') as f:
                    json.dump({'property': pid, 'kind': 'standin', 'case': fail, 'native': {'reproduced': True}}, f, indent=1, default=str)
                violations.append(("standin::" + str(fail.get('key')), path, True))
    native_fail = [v for v in violations if v[0].startswith('standin::')]
    if native_fail:
        # a refuted obligation without a replayed counter-model gets the concrete failing input the bounded check found
        for i, (full, path, rep) in enumerate(violations):
            if not rep and not full.startswith('standin::'):
                try:
                    rec = load_json(path, {})
                    rec['native'] = {'reproduced': True, 'found_by': 'bounded stand-in', 'replay': native_fail[0][1]}
                    with open(path, 'w') as f:
                        json.dump(rec, f, indent=1, default=str)
                    violations[i] = (full, path, True)
                except OSError:
                    pass
    for full, path, record in proof_lost:
        if native_fail:
            # the concrete failing input found by the bounded check is attached to the refuted obligation
            record['native'] = {'reproduced': True, 'found_by': 'bounded stand-in', 'replay': native_fail[0][1]}
            with open(path, 'w') as f:
                json.dump(record, f, indent=1, default=str)
            violations.append((full, path, True))
        elif not have_standin or args.no_standin:
            violations.append((full, path, False))
    proof_lost_quiet = [] if (native_fail or not have_standin or args.no_standin) else proof_lost

    selftest = None
    if tier == 'thorough' and REPO_SRC == '/repo/src' and not os.environ.get('PYVC_NO_SELFTEST'):
        # mutation self-test of the machinery: every catalogued property-breaking edit, applied to a scratch copy of the
        # current source, must be reported by this property's quick check (a survivor is a weakness of the contracts, recorded;
        # it never changes the verdict on /repo)
        try:
            sys.path.insert(0, HERE)
            import selftest as _st
            rows = _st.run([pid], verbose=False)
            selftest = {'mutants': len(rows), 'killed': sum(1 for r in rows if r[1] == 'killed'),
                        'not_killed': [{'name': r[0]['name'], 'status': r[1]} for r in rows if r[1] != 'killed'],
                        'label': 'mutation self-test on scratch copies (catalogue in mutants.py)'}
        except Exception as e:
            selftest = {'error': "%s" % e}
    lem = lemma_check(pid)
    if lem is not None and not lem['ok']:
        errors.append(('lemmas', lem['output'] + ' missing=%s' % lem['missing']))
    xc = engine_crosscheck()
    if xc is not None and not xc.get('ok'):
        errors.append(('engine cross-check', "%s %s" % (xc.get('summary'), xc.get('details'))))

    # ---- report
    for full, kf in known_hit:
        print("KNOWN-FINDING: property=%s %s -- %s" % (pid, full, kf.get('what_fails', '')))
    for full, path, reproduced in violations:
        print("VIOLATION property=%s replay=%s obligation=%s%s" % (pid, path, full, "" if reproduced else " no-failing-input-found"))
    for full, path, record in proof_lost_quiet:
        print("PROOF-LOST %s: obligation refuted by the solver but no failing input exists in the bounded native check (%s); not a violation" % (full, path))
    for cid, why in undecided:
        print("UNDECIDED %s: %s" % (cid, why))
    for cid, name, cl in unknown:
        print("UNKNOWN %s::%s (%s)" % (cid, name, (cl.get('detail') or '')[:120]))
    for cid, name in missing:
        print("MISSING-OBLIGATION %s::%s (was generated on the pinned tree)" % (cid, name))
    for cid, name in canary_fail:
        print("CANARY-NOT-REFUTED %s::%s" % (cid, name))
    for cid, err in errors:
        print("CHECKER-ERROR %s: %s" % (cid, err[-800:]))

    wall = time.time() - t0
    level = 'proof' if (proof_ok and contracts and n_obl > 0 and n_proved == n_obl) else ('other' if (proof_ok and contracts and n_obl > 0) else 'exploration')
    if level == 'proof' and pid in OTHER_LEVEL:
        level = 'other'
    if pid in INTERIM:
        level = 'exploration'
    assumptions = [
        "python int = mathematical integer; python/numpy float = real arithmetic (no rounding, overflow, NaN, inf)",
        "partial correctness: termination of while loops is not proved",
        "external library calls behave as their assumed contract in pyvc/lib*.py (listed in coverage.trusted_base)",
        "extraction drops docstrings, comments, print(...) and logging.*(...) calls: " + (", ".join(sorted(dropped)) or "none met"),
        "per contract, coverage.contracts[*].requires lists its preconditions (assumed inside the contract; discharged only where a caller's "
        "contract carries the matching pre(...) obligation) and coverage.contracts[*].assumed lists every fact the contract file assumes "
        "directly: callee contracts used modularly (each proved by the contract named there), facts about dependencies, arithmetic facts "
        "(%d preconditions, %d assumed facts in this run)" % (sum(len(r.get('requires', [])) for r in results), sum(len(r.get('assumed', [])) for r in results)),
    ]
    cov = {
        'obligations': n_obl, 'discharged': n_proved, 'path_instances': n_inst,
        'checker_cmd': "./vcheck %s --tier %s" % (pid, tier),
        'trusted_base': sorted(trusted),
        'back_ends': 'z3 %s (10 s per query), cvc5 1.0.3 on unknown' % _z3v(),
        'solver_time_s': round(solver_time, 3),
        'functions_under_contract': functions,
        'contracts': [{'id': r['cid'], 'paths': r['paths'], 'loop_cut_paths': r['cut_paths'], 'clauses': len(r['clauses']),
                       'undecided': r['undecided'], 'wall_s': round(r['wall'], 2), 'retried_with_larger_budget': bool(r.get('retried_with_larger_budget')),
                       'requires': r.get('requires', []), 'assumed': r.get('assumed', [])} for r in results],
        'samples': samples[:12] or [{'note': 'no obligations generated'}],
        'refuted': [v[0] for v in violations], 'known_findings_matched': [k[0] for k in known_hit],
        'unknown': ["%s::%s" % (c, n) for c, n, _ in unknown], 'undecided': ["%s: %s" % u for u in undecided],
        'canaries_refuted': sum(1 for r in results for ok in r['canaries'].values() if ok),
        'canaries_total': sum(len(r['canaries']) for r in results),
        'explanation': "deductive: every obligation generated from the current source of the listed functions was discharged"
                       if level == 'proof' else ("every generated obligation was discharged; " + OTHER_LEVEL[pid]) if (level == 'other' and pid in OTHER_LEVEL) else
                       "proof not (re-)established for every obligation; bounded stand-in results are reported under 'standin'",
    }
    if lem is not None:
        cov['lemmas'] = lem
    if xc is not None:
        cov['engine_crosscheck'] = xc
    if selftest is not None:
        cov['mutation_selftest'] = selftest
    if standin:
        cov['standin'] = {k: standin[k] for k in standin if k != 'failures'}
        cov['standin']['label'] = 'bounded, never counted as proved'
        cov['standin']['failures'] = len(standin.get('failures', []))
    if level != 'proof':
        cov['evaluations'] = int((standin or {}).get('evaluations', 0)) or max(n_inst, 1)
        cov['distinct_nontrivial'] = int((standin or {}).get('distinct_nontrivial', 0)) or max(n_proved, 2)
        cov['rule'] = (standin or {}).get('rule', 'obligation instances of the contracts that could be generated')
        if standin and standin.get('samples'):
            cov['samples'] = standin['samples'][:6]
    ev = {'property_id': pid, 'tier': tier, 'seed': seed, 'level': level, 'coverage': cov,
          'assumptions': assumptions, 'wall_s': round(wall, 2), 'violations': len(violations)}
    evdir = os.path.join(os.environ.get('PYVC_OUT_DIR', HERE), 'evidence')
    os.makedirs(evdir, exist_ok=True)
    with open(os.path.join(evdir, pid + '.json'), 'w') as f:
        json.dump(ev, f, indent=1, default=str)
    print("%s tier=%s level=%s obligations=%d discharged=%d instances=%d contracts=%d solver=%.1fs wall=%.1fs"
          % (pid, tier, level, n_obl, n_proved, n_inst, len(contracts), solver_time, wall))
    if violations:
        return 1
    if errors or canary_fail:
        return 3
    if (unknown or undecided or missing) and not standin:
        # nothing decided this property on this run: a checker failure, never a violation
        return 3
    return 0


def _z3v():
    import z3
    return z3.get_version_string()


if __name__ == '__main__':
    sys.exit(main())
