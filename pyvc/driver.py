"""Contract runner: explores all paths of a contract, aggregates obligations, extracts
counter-models."""
import os
import time
import traceback
import z3

from .values import *  # noqa
from .interp import Interp, Ctx, Program, LoopSpec, View, Env
from .lib import Lib, SArr, SList, SMutList, fresh_array
from . import lib as L


class Contract(object):
    def __init__(self, cid, props, func, run, replay=None, doc='', requires_doc=(), max_paths=400, timeout_ms=10000,
                 also=(), frame=()):
        self.cid = cid
        self.props = list(props)
        self.func = func            # 'module:qualname' of the function under contract
        self.run = run
        self.replay = replay
        self.doc = doc
        self.requires_doc = list(requires_doc)
        self.max_paths = max_paths
        self.timeout_ms = timeout_ms
        self.also = list(also)      # further functions whose real bodies this contract executes
        self.frame = list(frame)    # trusted callees the contract summarises as functions of their arguments: frame condition checked


REGISTRY = []


def contract(cid, props, func, **kw):
    def deco(fn):
        c = Contract(cid, props, func, fn, doc=(fn.__doc__ or '').strip(), **kw)
        REGISTRY.append(c)
        return fn
    return deco


class Outcome(object):
    def __init__(self, kind, value):
        self.kind = kind      # 'return' | 'raise'
        self.value = value

    @property
    def returned(self):
        return self.kind == 'return'

    def __repr__(self):
        return "Outcome(%s, %r)" % (self.kind, self.value)


class VC(object):
    """What a contract sees: constructors for symbolic inputs, requires/ensures, the call."""

    def __init__(self, contract, it, program):
        self.contract = contract
        self.it = it
        self.ctx = it.ctx
        self.program = program
        self.inputs = {}      # name -> (kind, term/arr)
        self.canaries = {}
        self.n_requires = 0
        self.requires_list = []

    # ---- inputs
    def int(self, name, ge=None):
        v = z3.Int(name)
        self.inputs[name] = v
        if ge is not None:
            self.ctx.assume(v >= ge)
        return v

    def real(self, name):
        v = z3.Real(name)
        self.inputs[name] = v
        return v

    def bool(self, name):
        v = z3.Bool(name)
        self.inputs[name] = v
        return v

    def array(self, name, shape, dtype='real'):
        sort = {'real': z3.RealSort(), 'int': z3.IntSort(), 'bool': z3.BoolSort()}[dtype]
        if len(shape) == 0:
            c = z3.Const(name, sort)
            arr = SArr((), lambda o: c, dtype)
        else:
            f = z3.Function(name, *([z3.IntSort()] * len(shape) + [sort]))
            arr = SArr(tuple(shape), lambda o: f(*o), dtype)
            arr.fn = f
        self.inputs[name] = arr
        return arr

    def fn(self, name, *sorts):
        f = z3.Function(name, *sorts)
        return f

    def name_(self, name):
        t = z3.Int(name)
        self.inputs[name] = t
        return SName(t)

    # ---- logic
    def require(self, what, f):
        """precondition (assumed); every requires is covered by a satisfiability check"""
        self.n_requires += 1
        if what not in self.requires_list:
            self.requires_list.append(what)
        self.ctx.assume(f, _depth=99)        # recorded by name, not by site

    def assume(self, f):
        self.ctx.assume(f, _depth=2)

    def check_cover(self):
        if getattr(self, '_covered', False):
            return
        self._covered = True
        if not self.ctx.feasible():
            self.ctx.obligations.append(_mk_obl("vacuity/requires-satisfiable", 'refuted', detail='preconditions are contradictory'))

    def binds(self, cond, what):
        """the contract reads the value through a particular REPRESENTATION (a python list rather than an array, say).  If the code
        now produces another representation the contract has nothing to say: undecided ('no longer binds'), never a refutation"""
        if not cond:
            raise TypeError("representation the contract does not read: %s" % what)

    def ensure(self, name, f, isolated=False):
        """isolated: the clause is not assumed afterwards, so independent failures all show"""
        self.ctx.oblige(name, f, assume_after=not isolated)

    def canary(self, name, f):
        """negation of something true: must NOT be provable"""
        self.ctx.solver.set('timeout', 1000)
        try:
            r, _ = self.ctx._check(z3.Not(f) if not isinstance(f, bool) else z3.BoolVal(not f))
        finally:
            self.ctx.solver.set('timeout', self.ctx.timeout_ms)
        ok = (r != z3.unsat)     # vacuity = the path condition (plus the negated canary) is unsatisfiable
        self.canaries[name] = self.canaries.get(name, False) or ok

    def unreachable(self, name):
        self.ctx.oblige(name, z3.BoolVal(False))

    # ---- program access
    def module(self, modname):
        return self.program.module(self.it, modname)

    def func(self, spec=None):
        spec = spec or self.contract.func
        modname, qual = spec.split(':')
        mod = self.module(modname)
        obj = mod
        cur = mod.env.vars
        parts = qual.split('.')
        v = cur[parts[0]]
        for p in parts[1:]:
            if isinstance(v, ClassVal):
                v, _ = v.lookup(p)
                if isinstance(v, PropertyVal):
                    if parts[-1] == 'setter':
                        return v.fset
                    v = v.fget
            else:
                raise KeyError(spec)
        return v

    def cls(self, spec):
        modname, name = spec.split(':')
        return self.module(modname).env.vars[name]

    def loop(self, func_spec, ordinal, inv, **kw):
        self.it.loop_specs[(func_spec, ordinal)] = LoopSpec(inv, **kw)

    def summary(self, func_spec, fn):
        self.it.summaries[func_spec] = fn
        # a callee used through a summary is not executed: at least its frame condition is checked on its source
        if ':' in func_spec and not func_spec.startswith('unmodelled') and func_spec not in self.contract.frame \
                and func_spec != self.contract.func and func_spec not in self.contract.also:
            self.contract.frame.append(func_spec)

    def call(self, f, *args, **kwargs):
        """run the real body of f; PathCut/Unsupported propagate to the runner"""
        if isinstance(f, str):
            f = self.func(f)
        self.check_cover()
        try:
            if isinstance(f, FuncVal):
                v = self.it.call_func(f, args, kwargs, mode='verify')
            else:
                v = self.it.call(f, args, kwargs)
            return Outcome('return', v)
        except PyRaise as e:
            return Outcome('raise', e.exc)

    def sum_info(self, value):
        """value = (+/-) Sigma_{k<n} term(k) as produced by the library model -> (sign, n, term)"""
        sums = getattr(self.ctx, 'sums', {})
        v = z3.simplify(value) if isinstance(value, z3.ExprRef) else value
        sign = 1
        for _ in range(3):
            if isinstance(v, z3.ExprRef) and v.decl().kind() == z3.Z3_OP_UMINUS:
                sign, v = -sign, v.children()[0]
            elif isinstance(v, z3.ExprRef) and v.decl().kind() == z3.Z3_OP_MUL and len(v.children()) == 2 \
                    and z3.is_rational_value(v.children()[0]) and v.children()[0].as_fraction() == -1:
                sign, v = -sign, v.children()[1]
        if isinstance(v, z3.ExprRef) and v.decl().kind() == z3.Z3_OP_UNINTERPRETED and str(v.decl()) in sums:
            ps, term, n = sums[str(v.decl())]
            return sign, n, term
        return None

    def ensure_sum(self, name, value, n, term, hyps=None):
        """value == Sigma_{k<n} term(k), by extensionality: same range, equal summands at a fresh index"""
        info = self.sum_info(value)
        if info is None:
            if isinstance(n, int) and n <= 8:
                acc = z3.RealVal(0)
                for i in range(n):
                    acc = acc + term(z3.IntVal(i))
                self.ensure(name, value == acc)
                return
            self.ensure(name + " [result is a sum]", z3.BoolVal(False))
            return
        sign, n2, term2 = info
        k = z3.Int(self.ctx._name('ks'))
        self.ensure(name + " [range]", to_num(n2) == to_num(n))
        self.ctx.solver.push()
        pc_len = len(self.ctx.pc)
        try:
            self.ctx.assume(z3.And(k >= 0, k < to_num(n)))
            if hyps:
                for h in hyps(k):
                    self.ctx.assume(h)
            lhs = term2(k) if sign == 1 else -term2(k)
            self.ctx.oblige(name + " [summand]", lhs == term(k), pure_hyps=(hyps(k) if hyps else []))
        finally:
            self.ctx.solver.pop()
            del self.ctx.pc[pc_len:]

    def find_sums(self, value):
        """the registered partial-sum applications ps(n) occurring in value"""
        sums = getattr(self.ctx, 'sums', {})
        found, seen = [], set()

        def walk(e):
            if e.get_id() in seen:
                return
            seen.add(e.get_id())
            if z3.is_app(e) and e.decl().kind() == z3.Z3_OP_UNINTERPRETED and str(e.decl()) in sums and e.num_args() == 1:
                found.append(e)
                return
            for c in e.children():
                walk(c)
        walk(z3.simplify(value) if isinstance(value, z3.ExprRef) else z3.RealVal(value))
        return found

    def hint_blocks(self, pairs):
        """instances of the quotient/remainder axioms of every block-coordinate pair created so far, at the given
        (outer index, inner index) terms -- instances of hypotheses already assumed, stated to spare the solver the matching"""
        for (q, m, oz, iz) in getattr(self.it, 'blocks', []):
            for a, b in pairs:
                self.ctx.assume(z3.Implies(z3.And(a >= 0, a < oz, b >= 0, b < iz),
                                           z3.And(q(a * iz + b) == a, m(a * iz + b) == b, a * iz + b >= 0, a * iz + b < oz * iz)))

    def resolve(self, e, depth=0):
        """replace If(c, a, b) by the branch the path condition entails (solver query per condition)"""
        if not isinstance(e, z3.ExprRef) or depth > 12:
            return e
        if z3.is_app(e) and e.decl().kind() == z3.Z3_OP_ITE:
            c, a, b = e.children()
            r, _ = self.ctx._check(z3.Not(c))
            if r == z3.unsat:
                return self.resolve(a, depth + 1)
            r, _ = self.ctx._check(c)
            if r == z3.unsat:
                return self.resolve(b, depth + 1)
            return e
        if z3.is_app(e) and e.num_args() > 0 and e.decl().kind() in (z3.Z3_OP_ADD, z3.Z3_OP_SUB, z3.Z3_OP_MUL, z3.Z3_OP_UMINUS, z3.Z3_OP_TO_REAL):
            ch = [self.resolve(c, depth + 1) for c in e.children()]
            return e.decl()(*ch)
        return e

    def ensure_sum_plus(self, name, value, n, term, rest):
        """value == Sigma_{k<n} term(k) + rest, where value contains exactly one library sum: the remainder is proved equal
        to `rest`, the range equal to n, and the summands equal at a fresh index (extensionality)"""
        found = self.find_sums(value)
        if len(found) != 1:
            value = self.resolve(z3.simplify(value))
            found = self.find_sums(value)
        if len(found) != 1:
            self.ensure(name + " [value contains exactly one sum, found %d]" % len(found), z3.BoolVal(False))
            return
        T = found[0]
        ps, term2, n2 = self.ctx.sums[str(T.decl())]
        self.ensure(name + " [the remainder]", value - T == rest)
        self.ensure(name + " [range]", z3.And(to_num(n2) == to_num(n), T.arg(0) == to_num(n)))
        k = z3.Int(self.ctx._name('ks'))
        self.ctx.solver.push()
        pc_len = len(self.ctx.pc)
        try:
            self.ctx.assume(z3.And(k >= 0, k < to_num(n)))
            self.ctx.oblige(name + " [summand]", term2(k) == term(k))
        finally:
            self.ctx.solver.pop()
            del self.ctx.pc[pc_len:]

    def ensure_sum_nested(self, name, value, ranges, term, hyps=None, hyps2=None):
        """value == Sigma_{i<n1} Sigma_{a<n2} term(i, a): by two levels of extensionality (sum congruence): the outer range,
        then at a fresh i the summand is itself one library sum over the inner range with summands term(i, a)"""
        n1, n2 = ranges
        found = self.find_sums(value)
        if len(found) != 1:
            value = self.resolve(z3.simplify(value))
            found = self.find_sums(value)
        if len(found) != 1:
            self.ensure(name + " [value is one sum, found %d]" % len(found), z3.BoolVal(False))
            return
        T = found[0]
        ps, term_o, n_o = self.ctx.sums[str(T.decl())]
        self.ensure(name + " [outer: nothing but the sum]", value == T)
        self.ensure(name + " [outer range]", z3.And(to_num(n_o) == to_num(n1), T.arg(0) == to_num(n1)))
        i = z3.Int(self.ctx._name('ki'))
        self.ctx.solver.push()
        pc_len = len(self.ctx.pc)
        try:
            self.ctx.assume(z3.And(i >= 0, i < to_num(n1)))
            if hyps:
                hyps(i)
            inner = term_o(i)
            f2 = self.find_sums(inner)
            if len(f2) != 1:
                inner = self.resolve(z3.simplify(inner))
                f2 = self.find_sums(inner)
            if len(f2) != 1:
                self.ctx.oblige(name + " [inner: the outer summand is one sum, found %d]" % len(f2), z3.BoolVal(False))
                return
            T2 = f2[0]
            ps2, term_i, n_i = self.ctx.sums[str(T2.decl())]
            self.ctx.oblige(name + " [inner: nothing but the sum]", inner == T2)
            self.ctx.oblige(name + " [inner range]", z3.And(to_num(n_i) == to_num(n2), T2.arg(0) == to_num(n2)))
            a = z3.Int(self.ctx._name('ka'))
            self.ctx.assume(z3.And(a >= 0, a < to_num(n2)))
            if hyps2:
                hyps2(i, a)
            self.ctx.oblige(name + " [summand]", term_i(a) == term(i, a))
        finally:
            self.ctx.solver.pop()
            del self.ctx.pc[pc_len:]

    def new_object(self, cls_spec, **fields):
        cls = self.cls(cls_spec) if isinstance(cls_spec, str) else cls_spec
        return ObjVal(cls, dict(fields))


def _mk_obl(name, status, detail=''):
    from .interp import Obligation
    return Obligation(name, status, detail=detail)


class ContractResult(object):
    def __init__(self, cid):
        self.cid = cid
        self.clauses = {}       # name -> dict(status, instances, time, model, where, detail)
        self.paths = 0
        self.cut_paths = 0
        self.undecided = []     # reasons (Unsupported etc.)
        self.trusted = set()
        self.canaries = {}
        self.solver_time = 0.0
        self.solver_calls = 0
        self.inlined = set()
        self.dropped = set()
        self.wall = 0.0
        self.error = None
        self.functions = {}
        self.samples = []
        self.requires = []
        self.assumed = []

    def to_dict(self):
        return {
            'cid': self.cid, 'paths': self.paths, 'cut_paths': self.cut_paths, 'requires': self.requires, 'assumed': self.assumed,
            'clauses': self.clauses, 'undecided': self.undecided, 'trusted': sorted(self.trusted),
            'canaries': self.canaries, 'solver_time': self.solver_time, 'solver_calls': self.solver_calls,
            'inlined': sorted(self.inlined), 'dropped': sorted(self.dropped), 'wall': self.wall,
            'error': self.error, 'functions': self.functions, 'samples': self.samples,
        }


def model_to_python(m, inputs, maxdim=4):
    """evaluate the declared inputs in a z3 model -> plain python values"""
    out = {}

    def val(t):
        v = m.eval(t, model_completion=True)
        if z3.is_int_value(v):
            return v.as_long()
        if z3.is_rational_value(v):
            num, den = v.numerator_as_long(), v.denominator_as_long()
            return num / den if den != 1 else float(num)
        if z3.is_true(v):
            return True
        if z3.is_false(v):
            return False
        if z3.is_algebraic_value(v):
            return float(v.approx(10).as_decimal(10).rstrip('?'))
        return str(v)
    for name, obj in inputs.items():
        try:
            if isinstance(obj, SArr):
                dims = []
                for d in obj.shape:
                    dv = d if isinstance(d, int) else val(to_num(d))
                    dims.append(dv if isinstance(dv, int) else 0)
                if any(d > 64 or d < 0 for d in dims):
                    out[name] = {'shape': dims, 'data': None}
                    continue

                def build(prefix, k):
                    if k == len(dims):
                        return val(obj.get(tuple(z3.IntVal(i) for i in prefix)))
                    return [build(prefix + [i], k + 1) for i in range(dims[k])]
                out[name] = build([], 0)
            elif isinstance(obj, z3.ExprRef):
                out[name] = val(obj)
        except Exception as e:   # model evaluation must never break a run
            out[name] = "<unevaluable: %s>" % e
    return out


_FRAME_CACHE = {}


def frame_clause(program, spec):
    """the syntactic frame condition of one function (pyvc/frame.py) as a clause: (name, status, detail, where)"""
    import ast as _ast
    from . import frame as _frame
    if ':' not in spec or spec.startswith('unmodelled'):
        return None, None, None, None
    modname, qual = spec.split(':')
    try:
        path = program.path_of(modname)
        path = path[0] if isinstance(path, tuple) else path
        if path not in _FRAME_CACHE:
            _FRAME_CACHE[path] = _ast.parse(open(path).read())
        tree = _FRAME_CACHE[path]
    except Exception:
        return None, None, None, None
    node, body = None, tree.body
    parts = [x for x in qual.split('.') if x not in ('setter', 'getter')]
    for i, part in enumerate(parts):
        found = [n for n in body if isinstance(n, (_ast.FunctionDef, _ast.ClassDef)) and n.name == part]
        if not found:
            return None, None, None, None
        # a property has a getter and a setter of the same name: the setter is the later definition
        node = found[-1] if qual.endswith('.setter') else found[0]
        body = node.body
    if not isinstance(node, _ast.FunctionDef):
        return None, None, None, None
    v = _frame.violations(node, _frame.module_imports(tree))
    if _frame.injects_into_own_frame(node):
        v = v + [(node.lineno, "binds the plain local name %r although model symbols are exec'd into this frame (a symbol of that name would be shadowed)" % n)
                 for n in _frame.shadowing_locals(node)]
    name = 'frame/assigns only its locals, its arguments and what hangs off them@%s' % qual
    where = '%s:%d' % (modname, node.lineno)
    if not v:
        return name, 'proved', 'syntactic frame check (pyvc/frame.py): no global declaration, no store into or mutating call on a module-level object', where
    return name, 'refuted', "; ".join("line %d: %s" % x for x in v)[:600], where


def run_contract(c, root='/repo/src', verbose=False):
    t0 = time.time()
    res = ContractResult(c.cid)
    from . import interp as _interp0
    _interp0.ASSUMED_SITES.clear()
    budget = float(os.environ.get('PYVC_CONTRACT_WALL_S', '900')) * float(os.environ.get('PYVC_TIMEOUT_SCALE', '1'))
    _interp0.DEADLINE[0] = t0 + budget
    lib = Lib()
    program = Program(root, lib)
    worklist = [[]]
    seen = 0
    while worklist:
        prefix = worklist.pop()
        seen += 1
        if time.time() > _interp0.DEADLINE[0]:
            res.undecided.append("wall-time budget of %d s exhausted" % budget)
            break
        if seen > c.max_paths:
            res.undecided.append("path budget of %d exhausted" % c.max_paths)
            break
        ctx = Ctx(prefix, timeout_ms=int(c.timeout_ms * float(os.environ.get('PYVC_TIMEOUT_SCALE', '1'))), label=c.cid)
        it = Interp(program, ctx, lib)
        ctx.interp = it
        vc = VC(c, it, program)
        try:
            c.run(vc)
            res.paths += 1
        except PathCut:
            res.cut_paths += 1
        except Unsupported as e:
            res.undecided.append("unsupported: %s (line %s)" % (e, getattr(it, 'cur_line', '?')))
        except PyRaise as e:
            res.undecided.append("uncaught exception outside vc.call: %s" % (e.exc,))
        except z3.Z3Exception as e:
            res.undecided.append("z3 error: %s" % e)
            if verbose:
                traceback.print_exc()
        except RecursionError:
            res.undecided.append("recursion limit in the interpreter")
        except (KeyError, AttributeError, IndexError, TypeError, ValueError) as e:
            # the sidecar contract refers to a local, a loop ordinal or a value shape that the current code no longer has
            # (restructured function): the proof is lost, which is not a verdict about the property (DESIGN 2.7 ladder)
            res.undecided.append("contract no longer binds to the code (%s: %s) near line %s" % (type(e).__name__, str(e)[:120], getattr(it, 'cur_line', '?')))
            if verbose:
                traceback.print_exc()
        worklist.extend(ctx.pending)
        for o in ctx.obligations:
            cl = res.clauses.setdefault(o.name, {'status': 'proved', 'instances': 0, 'time': 0.0, 'model': None,
                                                 'where': o.where, 'detail': ''})
            cl['instances'] += 1
            cl['time'] += o.time
            if o.status == 'refuted' and cl['status'] != 'refuted':
                cl['status'] = 'refuted'
                cl['detail'] = o.detail
                cl['where'] = o.where
                cl['model'] = model_to_python(o.model, vc.inputs) if o.model is not None else None
                cl['path'] = list(ctx.taken)
            elif o.status == 'unknown' and cl['status'] == 'proved':
                cl['status'] = 'unknown'
                cl['detail'] = o.detail
        for k, v in vc.canaries.items():
            res.canaries[k] = res.canaries.get(k, False) or v
        for w in vc.requires_list:
            if w not in res.requires:
                res.requires.append(w)
        res.trusted |= ctx.trusted
        res.solver_time += ctx.solver_time
        res.solver_calls += ctx.solver_calls
        res.inlined |= it.inlined
        res.dropped |= it.drop_log
    for spec in [c.func] + c.also + sorted(res.inlined):
        if spec in program.func_index:
            p, l0, l1, sha = program.func_index[spec]
            res.functions[spec] = {'file': p, 'lines': [l0, l1], 'sha256_16': sha,
                                   'role': 'under contract' if spec in [c.func] + c.also else 'inlined callee (real body executed)'}
    for spec in [c.func] + c.also + list(getattr(c, 'frame', ())):
        name, status, detail, where = frame_clause(program, spec)
        if name:
            res.clauses[name] = {'status': status, 'instances': 1, 'time': 0.0, 'model': None, 'where': where, 'detail': detail}
    from . import interp as _interp
    res.assumed = ["%s:%d: %s" % (k[0], k[1], v) for k, v in sorted(_interp.ASSUMED_SITES.items())]
    res.wall = time.time() - t0
    return res
