"""Small functions exercising the python / numpy semantics the symbolic engine models.  xcheck.py runs each on concrete inputs under
CPython and under the engine (inputs symbolic, constrained to the same concrete values) and compares the results."""
import numpy as np


def slice_list(xs, a, b):
    return xs[a:b]


def slice_from(xs, a):
    return xs[a:]


def slice_upto(xs, b):
    return xs[:b]


def slice_array(x, a, b):
    return x[a:b]


def neg_index(xs, k):
    return xs[k]


def int_of(x):
    return int(x)


def floordiv(a, b):
    return a // b


def modulo(a, b):
    return a % b


def stepped_range(n):
    return [i for i in range(0, n, 3)]


def concat(xs, ys):
    return xs + ys


def tile_rows(a, r):
    return np.tile(a, (r, 1))


def tile_flat(a, r):
    return np.tile(a, r)


def repeat_flat(a, r):
    return np.repeat(a, r)


def reshape_c(a, r, c):
    return np.reshape(a, (r, c))


def reshape_f(a, r, c):
    return np.reshape(a, (r, c), 'F')


def searchsorted_left(t, v):
    return np.searchsorted(t, v)


def searchsorted_right(t, v):
    return np.searchsorted(t, v, side='right')


def searchsorted_many(t, vs):
    return np.searchsorted(t, vs, side='right')


def int_store(v):
    b = np.zeros(3, int)
    b[1] = v
    return b


def int_store_row(v):
    b = np.zeros((2, 2), int)
    b[1] = v
    return b


def full_like_int(y, k):
    return np.full_like(y, k)


def insert_front(t, t0):
    return np.insert(t, 0, t0)


def dot_mv(A, x):
    return np.dot(A, x)


def kron_eye(J, n):
    return np.kron(np.eye(n), J)


def mean_axis2(a, b):
    return np.dstack([a, b]).mean(axis=2)


def where_pos(a):
    return np.where(a > 0)[0]


def flatnonzero(a):
    return np.flatnonzero(a)


def masked_read(a):
    return a[a > 0]


def sum_axis0(A):
    return A.sum(axis=0)


def sum_axis1(A):
    return np.sum(A, axis=1)


def append_scalar(a, v):
    return np.append(a, v)


def histogram_w(x, edges, w):
    return np.histogram(x, bins=edges, weights=w)[0]


def interp1(x, xp, fp):
    return np.interp(x, xp, fp)


def argmin_of(a):
    return np.argmin(a)


def ravel_f(A):
    return A.ravel('F')


def transpose(A):
    return A.T


def dict_copy_update(d, k, v):
    e = dict(d)
    e[k] = v
    return (len(d), len(e))


# ---- second batch

def arange_n(n):
    return np.arange(n)


def arange_ab(a, b):
    return np.arange(a, b)


def ones_scaled(n, k):
    return k * np.ones(n)


def zeros_2d(r, c):
    return np.zeros((r, c))


def eye_n(n):
    return np.eye(n)


def abs_arr(a):
    return np.abs(a)


def ceil_floor(x):
    return (np.ceil(x), np.floor(x))


def prod_list(xs):
    return np.prod(xs)


def mean_all(a):
    return np.mean(a)


def mean_axis0(A):
    return np.mean(A, axis=0)


def max_min(a):
    return (np.max(a), np.min(a), max(a), min(a))


def argmax_of(a):
    return np.argmax(a)


def all_any(a):
    return (bool(np.all(a > 0)), bool(np.any(a > 2)), all(a > 0), any(a > 2))


def isfinite_all(a):
    return bool(np.all(np.isfinite(a)))


def mod_one(a):
    return np.mod(a, 1)


def bmat_2x2(A, B):
    return np.asarray(np.bmat([[A, B], [B, A]]))


def kron_ab(A, B):
    return np.kron(A, B)


def dot_mm(A, B):
    return np.dot(A, B)


def dot_vv(a, b):
    return np.dot(a, b)


def dstack_shape(a, b):
    return np.dstack([a, b]).shape


def zip_sum(xs, ys):
    return [x + y for x, y in zip(xs, ys)]


def enumerate_pairs(xs):
    return [i * x for i, x in enumerate(xs)]


def map_list(xs):
    return list(map(lambda v: 2 * v, xs))


def len_of(xs, a):
    return (len(xs), len(a), a.shape, a.size, a.ndim)


def copy_is_new(a):
    b = a.copy()
    b[0] = 99.0
    return (a, b)


def inplace_mul(a, w):
    b = a.copy()
    b *= w
    return b


def view_write_through(a):
    b = np.reshape(a, (2, 2))
    b[0, 1] = 7.0
    return a


def fancy_cols(A, idx):
    return A[:, idx]


def column_of(A, j):
    return A[:, j]


def row_assign(A, v):
    B = A.copy()
    B[1] = v
    return B


def elementwise_mix(a, b):
    return (a + b, a - b, a * b, a / b, a ** 2, -a)


def broadcast_col(A, v):
    return A * v


def cmp_chain(x, lo, hi):
    return lo <= x <= hi


def ifexp(x):
    return 1 if x > 0 else (0 if x == 0 else -1)


def bool_ops(a, b):
    return (a and b, a or b, not a)


def tuple_unpack(t):
    a, b = t
    return b, a


def list_index(xs, v):
    return xs.index(v)


def list_in(xs, v):
    return v in xs


def sorted_list(xs):
    return sorted(xs)


def quantile_mid(a):
    return np.quantile(a, 0.5)


def histogram_plain(x, edges):
    return np.histogram(x, bins=edges)[0]


def full_like_f(y, k):
    return np.full_like(y, k)


def atleast(x):
    return np.atleast_1d(x)


def isinstance_checks(x, a):
    return (isinstance(x, float), isinstance(x, (int, float)), isinstance(a, np.ndarray), isinstance(a, list))


def minimum_clip(a, v):
    return (np.minimum(a, v), np.maximum(a, v))


def minimum_pair(a, b):
    return np.minimum(a, b)


def any_all_of_list(xs):
    return (bool(np.any(xs)), bool(np.all(xs)), any(xs), all(xs))


def any_all_of_built_list(n, k):
    js = [0] * n
    if k >= 0:
        js[k] = 2
    return (bool(np.any(js)), bool(np.all(js)), sum(js), np.sum(js))


def builtins_on_list(xs):
    return (sum(xs), min(xs), max(xs), len(xs), bool(xs), abs(xs[0]))


def builtins_on_built_list(n):
    js = [0] * n
    return (len(js), bool(js), sum(js))


def np_on_list(xs):
    return (np.sum(xs), np.max(xs), np.min(xs), np.mean(xs), np.argmin(xs))


def list_truth(xs):
    if xs:
        return 1
    return 0


def array_size_truth(a):
    return 1 if a.size else 0


def np_sum_list(xs):
    return np.sum(xs)


def np_max_list(xs):
    return np.max(xs)


def np_mean_list(xs):
    return np.mean(xs)


def np_argmin_list(xs):
    return np.argmin(xs)


# ---- third batch: python lists handed to numpy, as the library does

def array_of_list(xs):
    return np.array(xs)


def asarray_sum_axis0(rows):
    return np.sum(np.array(rows), axis=0)


def integer_valued(x):
    return bool(np.all(np.mod(x, 1) == 0))


def last_as_array(t):
    t = np.array(t)
    return (t[-1:], len(t), t[-1])


def ones_times(n, x):
    return np.ones(n) * x


def append_to_list(xs, v):
    return np.append(xs, v)


def unzip_rows(rows):
    cols = list(zip(*rows))
    return (list(cols[0]), list(cols[1]))


def tolist_roundtrip(a):
    return a.tolist()


def list_times_array(xs, a):
    return np.array(xs) * a


def dot_list(xs, a):
    return np.dot(xs, a)


def mutate_list(n, k, v):
    js = [0] * n
    js[k] = v
    js[0] += 1
    return js


def list_extend_append(xs, v):
    out = list()
    out.append(v)
    out += xs
    return out


def nested_index(rows, i, j):
    return rows[i][j]


def enumerate_start(xs):
    return [(i, x) for i, x in enumerate(xs)]


def any_positive_rate(rates):
    return (bool(all(rates == 0)), bool(np.all(rates == 0)), bool(np.any(rates > 0)))


def comp_with_branching_helper(xs):
    def f(v):
        if v > 2:
            return 1
        return 0
    return [f(v) for v in xs]


def comp_with_ifexp(xs):
    return [(1 if v > 2 else 0) for v in xs]
