#!/usr/bin/env python3
"""CPython cross-check of the symbolic engine (DESIGN 2.6): every snippet of xcheck/snippets/snip.py is run on concrete inputs by
CPython and by the engine -- there with SYMBOLIC inputs (lengths, indices, elements) constrained to the same concrete values, so that
the symbolic code paths of the library models are the ones exercised -- and the results are compared value for value.

An input the engine cannot handle is reported as `unsupported` (that is the engine saying "undecided", which is allowed); a result
that differs from CPython's is an engine defect and makes this script exit 1.
usage: .venv/bin/python xcheck/xcheck.py [name-substring]"""
import fractions
import os
import sys
import traceback

HERE = os.path.dirname(os.path.abspath(__file__))
sys.path.insert(0, os.path.dirname(HERE))
sys.path.insert(0, HERE)
import numpy as np  # noqa: E402
import z3  # noqa: E402
from pyvc import driver  # noqa: E402
from pyvc.lib import SList, SMutList, SArr  # noqa: E402
from pyvc.values import PathCut, Unsupported, PyRaise, to_num  # noqa: E402
from snippets import snip  # noqa: E402

I, R = z3.IntSort(), z3.RealSort()


class L(list):
    """marks a python list input (as opposed to a numpy array)"""


class Sym(object):
    """a python int that the engine gets as a symbolic Int constrained to the value"""
    def __init__(self, v):
        self.v = v


CASES = [
    ('slice_list', [(L([1, 2, 3, 4, 5]), Sym(a), Sym(b)) for a, b in ((1, 3), (0, 9), (-2, 5), (3, 1), (-9, 2), (2, -1), (5, 7), (-1, -3))]),
    ('slice_from', [(L([1, 2, 3, 4]), Sym(a)) for a in (0, 2, 4, 7, -1, -6)]),
    ('slice_upto', [(L([1, 2, 3, 4]), Sym(b)) for b in (0, 2, 4, 7, -1, -6)]),
    ('slice_array', [(np.array([1.5, 2.5, 3.5, 4.5]), Sym(a), Sym(b)) for a, b in ((1, 3), (0, 9), (1, -1), (3, 1), (-9, 2), (4, 4))] +
                    [(np.array([7.0]), Sym(1), Sym(-1))]),
    ('neg_index', [(L([5, 6, 7]), Sym(k)) for k in (0, 2, -1, -3)]),
    ('int_of', [(x,) for x in (2.7, -2.7, 0.0, 5.0, -0.2)]),
    ('floordiv', [(Sym(a), Sym(b)) for a, b in ((7, 2), (-7, 2), (7, -2), (-7, -2), (6, 3), (0, 5))]),
    ('modulo', [(Sym(a), Sym(b)) for a, b in ((7, 2), (-7, 2), (7, -2), (-7, -2), (6, 3), (0, 5))]),
    ('stepped_range', [(Sym(n),) for n in (0, 1, 3, 4, 7, 9)]),
    ('concat', [(L([1, 2]), L([3])), (L([]), L([4, 5]))]),
    ('tile_rows', [(np.array([1.0, 2.0]), Sym(3)), (np.array([4, 5, 6]), Sym(1))]),
    ('tile_flat', [(np.array([1.0, 2.0]), Sym(3))]),
    ('repeat_flat', [(np.array([1.0, 2.0, 3.0]), Sym(2))]),
    ('reshape_c', [(np.arange(6.0), Sym(2), Sym(3)), (np.arange(6.0), Sym(3), Sym(2))]),
    ('reshape_f', [(np.arange(6.0), Sym(2), Sym(3)), (np.arange(6.0), Sym(3), Sym(2))]),
    ('searchsorted_left', [(np.array([0.0, 0.5, 0.5, 2.0]), v) for v in (-1.0, 0.0, 0.5, 1.0, 2.0, 3.0)]),
    ('searchsorted_right', [(np.array([0.0, 0.5, 0.5, 2.0]), v) for v in (-1.0, 0.0, 0.5, 1.0, 2.0, 3.0)]),
    ('searchsorted_many', [(np.array([0.0, 0.5, 2.0]), np.array([0.0, 0.25, 2.0, 9.0]))]),
    ('int_store', [(v,) for v in (2.7, -2.7, 3.0)]),
    ('int_store_row', [(np.array([1.9, -1.9]),)]),
    ('full_like_int', [(np.array([3, 4, 5]), 2.5), (np.array([3.0, 4.0]), 2.5)]),
    ('insert_front', [(np.array([1.0, 2.0]), 0.5), (np.array([1, 2, 3]), 0.5)]),
    ('dot_mv', [(np.array([[1.0, 2.0], [3.0, 4.0]]), np.array([0.5, -1.0]))]),
    ('kron_eye', [(np.array([[1.0, 2.0], [3.0, 4.0]]), Sym(2))]),
    ('mean_axis2', [(np.array([[1.0, 2.0]]), np.array([[3.0, 6.0]]))]),
    ('where_pos', [(np.array([0.0, 1.0, -1.0, 2.0]),), (np.array([0.0, 0.0]),)]),
    ('flatnonzero', [(np.array([0.0, 1.0, -1.0, 0.0]),)]),
    ('masked_read', [(np.array([0.0, 1.0, -1.0, 2.0]),)]),
    ('sum_axis0', [(np.array([[1.0, 2.0], [3.0, 4.0], [5.0, 6.0]]),)]),
    ('sum_axis1', [(np.array([[1.0, 2.0], [3.0, 4.0], [5.0, 6.0]]),)]),
    ('append_scalar', [(np.array([1.0, 2.0]), 3.5)]),
    ('histogram_w', [(np.array([0.1, 0.5, 0.5, 1.0, 2.0]), np.array([0.0, 0.5, 1.0, 2.0]), np.array([1.0, 1.0, 2.0, 1.0, 1.0]))]),
    ('interp1', [(x, np.array([0.0, 1.0, 3.0]), np.array([0.0, 2.0, 2.0])) for x in (-1.0, 0.5, 1.0, 2.0, 4.0)]),
    ('argmin_of', [(np.array([3.0, 1.0, 2.0]),), (np.array([1.0, 1.0]),)]),
    ('ravel_f', [(np.array([[1.0, 2.0, 3.0], [4.0, 5.0, 6.0]]),)]),
    ('transpose', [(np.array([[1.0, 2.0, 3.0], [4.0, 5.0, 6.0]]),)]),
    # second batch
    ('arange_n', [(Sym(0),), (Sym(4),)]),
    ('arange_ab', [(Sym(2), Sym(5)), (Sym(3), Sym(3))]),
    ('ones_scaled', [(Sym(3), 2.5)]),
    ('zeros_2d', [(Sym(2), Sym(3))]),
    ('eye_n', [(Sym(3),)]),
    ('abs_arr', [(np.array([-1.5, 2.0, 0.0]),)]),
    ('ceil_floor', [(2.3,), (-2.3,), (4.0,)]),
    ('prod_list', [(L([2.0, 3.0, 0.5]),), (np.array([2.0, 0.0]),)]),
    ('mean_all', [(np.array([1.0, 2.0, 6.0]),)]),
    ('mean_axis0', [(np.array([[1.0, 2.0], [3.0, 6.0]]),)]),
    ('max_min', [(np.array([3.0, 1.0, 2.0]),)]),
    ('argmax_of', [(np.array([3.0, 1.0, 5.0]),)]),
    ('all_any', [(np.array([1.0, 2.0, 3.0]),), (np.array([1.0, -2.0]),)]),
    ('isfinite_all', [(np.array([1.0, 2.0]),)]),
    ('mod_one', [(np.array([2.0, 2.5, -0.25]),)]),
    ('bmat_2x2', [(np.array([[1.0, 2.0], [3.0, 4.0]]), np.array([[5.0, 6.0], [7.0, 8.0]]))]),
    ('kron_ab', [(np.array([[1.0, 2.0]]), np.array([[1.0], [3.0]]))]),
    ('dot_mm', [(np.array([[1.0, 2.0], [3.0, 4.0]]), np.array([[0.0, 1.0], [1.0, 0.0]]))]),
    ('dot_vv', [(np.array([1.0, 2.0, 3.0]), np.array([4.0, 5.0, 6.0]))]),
    ('dstack_shape', [(np.array([[1.0, 2.0]]), np.array([[3.0, 6.0]]))]),
    ('zip_sum', [(L([1, 2, 3]), L([10, 20, 30])), (L([1, 2, 3]), L([10]))]),
    ('enumerate_pairs', [(L([5, 6, 7]),)]),
    ('map_list', [(L([1, 2, 3]),)]),
    ('len_of', [(L([1, 2, 3]), np.array([[1.0, 2.0, 3.0], [4.0, 5.0, 6.0]]))]),
    ('copy_is_new', [(np.array([1.0, 2.0]),)]),
    ('inplace_mul', [(np.array([1.0, 2.0]), np.array([3.0, 0.5]))]),
    ('view_write_through', [(np.array([1.0, 2.0, 3.0, 4.0]),)]),
    ('fancy_cols', [(np.array([[1.0, 2.0, 3.0], [4.0, 5.0, 6.0]]), L([2, 0]))]),
    ('column_of', [(np.array([[1.0, 2.0, 3.0], [4.0, 5.0, 6.0]]), Sym(1)), (np.array([[1.0, 2.0, 3.0], [4.0, 5.0, 6.0]]), Sym(-1))]),
    ('row_assign', [(np.array([[1.0, 2.0], [3.0, 4.0]]), np.array([9.0, 8.0])), (np.array([[1.0, 2.0], [3.0, 4.0]]), 5.0)]),
    ('elementwise_mix', [(np.array([1.0, 2.0]), np.array([4.0, 0.5]))]),
    ('broadcast_col', [(np.array([[1.0, 2.0], [3.0, 4.0]]), np.array([10.0, 100.0])), (np.array([[1.0, 2.0], [3.0, 4.0]]), np.array([[10.0], [100.0]]))]),
    ('cmp_chain', [(x, 1.0, 3.0) for x in (0.0, 1.0, 2.0, 3.5)]),
    ('ifexp', [(x,) for x in (2.0, 0.0, -1.0)]),
    ('bool_ops', [(True, False), (False, False), (True, True)]),
    ('tuple_unpack', [((1, 2),)]),
    ('list_index', [(L([5, 6, 7, 6]), Sym(6))]),
    ('list_in', [(L([5, 6, 7]), Sym(6)), (L([5, 6, 7]), Sym(9))]),
    ('sorted_list', [(L([3, 1, 2]),)]),
    ('quantile_mid', [(np.array([1.0, 3.0, 2.0]),)]),
    ('histogram_plain', [(np.array([0.1, 0.5, 0.5, 1.0, 2.0, 2.5, -1.0]), np.array([0.0, 0.5, 1.0, 2.0]))]),
    ('full_like_f', [(np.array([3.0, 4.0]), 2)]),
    ('atleast', [(2.5,), (np.array([1.0, 2.0]),)]),
    ('isinstance_checks', [(2.5, np.array([1.0]))]),
    ('any_all_of_list', [(L([0, 0, 0]),), (L([0, 2, 0]),), (L([1, 2, 3]),)]),
    ('any_all_of_built_list', [(Sym(3), Sym(-1)), (Sym(3), Sym(1)), (Sym(1), Sym(0))]),
    ('builtins_on_list', [(L([3, -1, 2]),), (L([-2]),)]),
    ('builtins_on_built_list', [(Sym(0),), (Sym(3),)]),
    ('np_on_list', [(L([3.0, -1.0, 2.0]),)]),
    ('np_sum_list', [(L([3.0, -1.0, 2.0]),)]),
    ('np_max_list', [(L([3.0, -1.0, 2.0]),)]),
    ('np_mean_list', [(L([3.0, -1.0, 2.0]),)]),
    ('np_argmin_list', [(L([3.0, -1.0, 2.0]),)]),
    ('list_truth', [(L([]),), (L([0]),)]),
    ('array_size_truth', [(np.array([1.0]),), (np.array([]),)]),
    ('array_of_list', [(L([1.5, 2.0]),), (L([1, 2, 3]),)]),
    ('asarray_sum_axis0', [([[1.0, 2.0], [3.0, 4.0], [5.0, 6.0]],)]),
    ('integer_valued', [(np.array([1.0, 2.0]),), (np.array([1.0, 2.5]),), (L([3.0, 4.0]),)]),
    ('last_as_array', [(L([0.5, 1.0, 2.5]),)]),
    ('ones_times', [(Sym(3), 2.5)]),
    ('append_to_list', [(L([1.0, 2.0]), 3.0)]),
    ('unzip_rows', [([(1, 2.0), (3, 4.0)],)]),
    ('tolist_roundtrip', [(np.array([1.0, 2.0]),)]),
    ('list_times_array', [(L([1.0, 2.0]), np.array([3.0, 0.5]))]),
    ('dot_list', [(L([1.0, 2.0]), np.array([3.0, 0.5]))]),
    ('mutate_list', [(Sym(3), Sym(1), Sym(5)), (Sym(2), Sym(-1), Sym(4))]),
    ('list_extend_append', [(L([1, 2]), Sym(9))]),
    ('nested_index', [([[1.0, 2.0], [3.0, 4.0]], Sym(1), Sym(0))]),
    ('enumerate_start', [(L([5, 6]),)]),
    ('any_positive_rate', [(np.array([0.0, 0.0]),), (np.array([0.0, 1.5]),)]),
    ('comp_with_branching_helper', [(L([1, 3, 5, 0]),)]),
    ('comp_with_ifexp', [(L([1, 3, 5, 0]),)]),
    ('minimum_clip', [(np.array([0.5, 2.0, 3.5]), 2.0)]),
    ('minimum_pair', [(np.array([0.5, 2.0]), np.array([1.0, 1.0]))]),
]


def num(v):
    if isinstance(v, bool):
        return z3.BoolVal(v)
    if isinstance(v, (int, np.integer)):
        return z3.IntVal(int(v))
    return z3.RealVal(repr(float(v)))


def lift(vc, name, v):
    """the engine-side value of a concrete input, symbolic where the engine has a symbolic representation"""
    if isinstance(v, Sym):
        s = vc.int(name)
        vc.assume(s == v.v)
        return s
    if isinstance(v, L):
        n = vc.int(name + '_len')
        vc.assume(n == len(v))
        f = z3.Function(name + '_el', I, I if all(isinstance(x, int) for x in v) else R)
        for i, x in enumerate(v):
            vc.assume(f(i) == num(x))
        return SList(n, lambda k: f(k))
    if isinstance(v, np.ndarray):
        dt = 'int' if v.dtype.kind in 'iu' else ('bool' if v.dtype.kind == 'b' else 'real')
        dims = []
        for ax, d in enumerate(v.shape):
            s = vc.int('%s_d%d' % (name, ax))
            vc.assume(s == d)
            dims.append(s)
        arr = vc.array(name, tuple(dims), dt)
        for idx in np.ndindex(*v.shape):
            vc.assume(arr.get(tuple(z3.IntVal(int(i)) for i in idx)) == num(v[idx]))
        return arr
    if isinstance(v, float):
        s = vc.real(name)
        vc.assume(s == num(v))
        return s
    return v


def equal(v, want):
    """z3 formula: the engine value v equals the CPython value `want` (shape, dtype and every element)"""
    if isinstance(want, (np.integer, np.floating, np.bool_)):
        want = want.item()
    if isinstance(want, np.ndarray):
        if not isinstance(v, SArr):
            if hasattr(v, 'materialise'):
                return equal(v.materialise(), want)
            return z3.BoolVal(False)
        want_dt = 'int' if want.dtype.kind in 'iu' else ('bool' if want.dtype.kind == 'b' else 'real')
        if v.dtype != want_dt or v.rank != want.ndim:
            return z3.BoolVal(False)
        cl = [to_num(d) == int(w) for d, w in zip(v.shape, want.shape)]
        for idx in np.ndindex(*want.shape):
            cl.append(v.get(tuple(z3.IntVal(int(i)) for i in idx)) == num(want[idx]))
        return z3.And(*cl) if cl else z3.BoolVal(True)
    if isinstance(want, (list, tuple)):
        if isinstance(v, (list, tuple)):
            if len(v) != len(want):
                return z3.BoolVal(False)
            return z3.And(*[equal(x, y) for x, y in zip(v, want)]) if want else z3.BoolVal(True)
        if isinstance(v, SMutList):
            return z3.And(to_num(v.length) == len(want), *[equal(v.wrap(z3.Select(v.arr, z3.IntVal(i))), y) for i, y in enumerate(want)])
        if isinstance(v, SList):
            return z3.And(to_num(v.length) == len(want), *[equal(v.element(z3.IntVal(i)), y) for i, y in enumerate(want)])
        return z3.BoolVal(False)
    if isinstance(v, SArr) and v.rank == 0:
        v = v.get(())
    if isinstance(v, (bool, int, float)):
        return z3.BoolVal(abs(float(v) - float(want)) <= 1e-12 * (1 + abs(float(want))))
    if isinstance(v, z3.BoolRef):
        return v == bool(want)
    if isinstance(v, z3.ArithRef):
        if isinstance(want, float) and v.is_int() and want != int(want):
            return z3.BoolVal(False)
        if isinstance(want, float) and not v.is_int():
            # CPython rounds, the engine computes in exact rationals: equal up to a relative 1e-12
            w = num(want)
            eps = z3.RealVal(repr(1e-12 * (1 + abs(want))))
            return z3.And(v - w <= eps, w - v <= eps)
        return v == num(want if not (v.is_int() and isinstance(want, float)) else int(want))
    return z3.BoolVal(False)


def run_case(fname, args):
    f = getattr(snip, fname)
    want = f(*[(a.v if isinstance(a, Sym) else (list(a) if isinstance(a, L) else (a.copy() if isinstance(a, np.ndarray) else a))) for a in args])
    verdicts = []

    def body(vc):
        vals = [lift(vc, 'a%d' % i, a) for i, a in enumerate(args)]
        out = vc.call(vc.func('snippets.snip:' + fname), *vals)
        if not out.returned:
            verdicts.append(('raises', str(out.value)))
            return
        eq = z3.simplify(equal(out.value, want))
        shown = want.tolist() if isinstance(want, np.ndarray) else want
        r1, _ = vc.ctx._check(z3.Not(eq))
        if r1 == z3.unsat:
            verdicts.append(('same', ''))
            return
        r2, _ = vc.ctx._check(eq)
        if r2 == z3.unsat:
            verdicts.append(('DIFFERENT', "the engine's result cannot be CPython's %r" % (shown,)))
        elif r2 == z3.sat:
            verdicts.append(('loose', "the model admits CPython's %r but does not force it" % (shown,)))
        else:
            verdicts.append(('unknown', "solver gave up comparing with %r" % (shown,)))
    c = driver.Contract('xcheck/' + fname, [], 'snippets.snip:' + fname, body, max_paths=64)
    try:
        res = driver.run_contract(c, root=HERE)
    except Exception as e:      # noqa
        return 'crash', "%s: %s" % (type(e).__name__, e)
    # paths that come from a non-deterministic choice in a model stand for alternative behaviours of the library: CPython's result has
    # to be admitted by one of them
    for kind in ('same', 'loose', 'unknown', 'DIFFERENT', 'raises'):
        if any(v[0] == kind for v in verdicts):
            return [v for v in verdicts if v[0] == kind][0]
    if res.undecided:
        return 'unsupported', res.undecided[0][:100]
    return (verdicts[0] if verdicts else ('no-path', 'every path was cut'))


def main():
    sub = sys.argv[1] if len(sys.argv) > 1 else ''
    tally = {}
    bad = 0
    for fname, inputs in CASES:
        if sub not in fname:
            continue
        for args in inputs:
            try:
                v, why = run_case(fname, args)
            except Exception as e:   # noqa
                v, why = 'crash', traceback.format_exc()[-300:]
            tally[v] = tally.get(v, 0) + 1
            shown = [(a.v if isinstance(a, Sym) else (a.tolist() if isinstance(a, np.ndarray) else a)) for a in args]
            if v != 'same':
                print("%-11s %-20s %s  %s" % (v, fname, shown, why[:200]))
            if v in ('DIFFERENT', 'crash', 'no-path', 'raises'):
                bad += 1
    print("xcheck:", ", ".join("%s %d" % kv for kv in sorted(tally.items())))
    return 1 if bad else 0


if __name__ == '__main__':
    sys.exit(main())
