#!/usr/bin/env python3
"""usage: mkmeta.py <dir> <property> <change> <needs> <our_checks> <detected_by;...> [first_run(true/false)]"""
import json, sys
d, prop, change, needs, ours, det = sys.argv[1:7]
first = (sys.argv[7].lower() != 'false') if len(sys.argv) > 7 else True
json.dump({"property": prop, "origin": "independent sub-agent given only the property text and a scratch worktree of /repo (nothing from /verif)",
           "change": change, "needs_to_manifest": needs,
           "confirmed": "demo exits 1 (FAIL) with the change and 0 (PASS) without it, re-run by me in the scratch worktree (logs alongside); the agent ran the 39 stable tests with the change applied: all pass",
           "our_checks": ours, "detected_by": det.split(';'), "detected_on_first_run": first}, open('/verif/seeded/%s/meta.json' % d, 'w'), indent=1)
