"""usage: mut.py <relfile> <old> <new> <cid...>  -- run contracts on a scratch copy of /repo/src with one edit"""
import sys, os, shutil, subprocess, tempfile
rel, old, new = sys.argv[1:4]
d = tempfile.mkdtemp(prefix='pyvc-mut-', dir='/var/tmp')
try:
    shutil.copytree('/repo/src', d + '/src', ignore=shutil.ignore_patterns('__pycache__', 'build'))
    p = d + '/src/' + rel
    s = open(p).read()
    assert s.count(old) >= 1, 'pattern not found'
    open(p, 'w').write(s.replace(old, new, 1))
    env = dict(os.environ, PYVC_REPO_SRC=d + '/src', PYVC_OUT_DIR=d)
    r = subprocess.run(['/verif/.venv/bin/python', os.path.join(os.path.dirname(os.path.abspath(__file__)), 'one.py')] + sys.argv[4:], env=env, capture_output=True, text=True)
    print("\n".join(l for l in r.stdout.splitlines() if 'Warn' not in l))
    print(r.stderr[-600:])
finally:
    shutil.rmtree(d, ignore_errors=True)
