import sys; sys.path.insert(0,'/verif')
from pyvc import cli, driver
cli.load_contracts()
import json
for cid in sys.argv[1:]:
    r = cli._run_one(cid)
    print(cid, 'paths', r['paths'], 'cut', r['cut_paths'], 'undecided', r['undecided'], 'err', (r.get('error') or '')[-1500:])
    for n, c in r['clauses'].items():
        if c['status'] != 'proved': print('  ', c['status'], n, '|', c.get('detail','')[:300], '|', json.dumps(c.get('model'))[:300], c.get('path'))
    print('  clauses', len(r['clauses']), 'canaries', r['canaries'], 'wall', round(r['wall'],1))
