import sys, os; sys.path.insert(0,'/verif')
from pyvc import cli, driver
cli.load_contracts()
c = [x for x in driver.REGISTRY if x.cid == sys.argv[1]][0]
print(c)
r = driver.run_contract(c, root=os.environ.get('PYVC_REPO_SRC','/repo/src'), verbose=True)
print(r.undecided)
