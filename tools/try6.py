import sys,time,importlib; sys.path.insert(0,'/verif')
m=importlib.import_module('standins.'+sys.argv[1])
t=time.time(); r=m.run(sys.argv[2] if len(sys.argv)>2 else 'quick', int(sys.argv[3]) if len(sys.argv)>3 else 20260928); print(r['evaluations'], r['distinct_nontrivial'], len(r['failures']), round(time.time()-t,1))
for f in r['failures'][:4]: print(f['key'], f['observed'])
