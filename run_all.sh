#!/bin/bash
# regenerate every evidence file on the current tree (quick tier by default): ./run_all.sh [quick|thorough] [PID ...]
cd "$(dirname "$0")"
T=${1:-quick}
shift || true
rc=0
PIDS=${@:-$(python3 -c "import json; print(' '.join(c['property_id'] for c in json.load(open('MANIFEST.json'))['checks']))")}
for p in $PIDS; do
  ./vcheck $p --tier $T 2>&1 | grep -v "^WARNING conda" | tail -3 | cut -c1-220
  r=${PIPESTATUS[0]}; [ $r -ne 0 ] && { echo "  -> exit $r for $p"; rc=1; }
done
exit $rc
