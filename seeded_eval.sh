#!/bin/bash
# usage: seeded_eval.sh <PID> [suffix] [check-PIDs...]   -- confirm a sub-agent's seeded change and run our checks against it
set -u
PID=$1; SUF=${2:-}; shift; shift || true
CHECKS=${@:-$PID}
WT=/tmp/wt/$PID$SUF
DST=/verif/seeded/$PID$SUF
mkdir -p $DST
git -C $WT diff -- src > $DST/patch.diff
cp $WT/demo_$PID.py $DST/ 2>/dev/null || cp $WT/demo_*.py $DST/
DEMO=$(ls $WT/demo_*.py | head -1)
echo "== patch"; cat $DST/patch.diff | head -60
echo "== demo with the change (expect FAIL / exit 1)"
(cd $WT && PYTHONPATH=$WT/src timeout 600 /venv/bin/python $DEMO 2>&1 | tail -5; echo "exit=${PIPESTATUS[0]}") | tee $DST/demo_with_change.log
echo "== demo without the change (expect PASS / exit 0)"
(cd $WT && git checkout -- src && PYTHONPATH=$WT/src timeout 600 /venv/bin/python $DEMO 2>&1 | tail -3; echo "exit=${PIPESTATUS[0]}"; git apply $DST/patch.diff) | tee $DST/demo_without_change.log
echo "== our checks with the change applied to /repo"
OUT=$(mktemp -d /var/tmp/seeded-XXXX)
if [ -n "${SEEDED_VIA_WORKTREE:-}" ]; then
  # a background run is using /repo: point the checks at the scratch worktree's sources instead (same change, /repo untouched)
  for c in $CHECKS; do
    (cd /verif && PYVC_REPO_SRC=$WT/src PYVC_OUT_DIR=$OUT ./vcheck $c --tier quick 2>&1 | cut -c1-260 | tail -6; echo "check $c exit=${PIPESTATUS[0]} (sources: scratch worktree)") | tee -a $DST/checks.log
  done
else
  git -C /repo apply $DST/patch.diff || { echo "PATCH DOES NOT APPLY"; exit 2; }
  for c in $CHECKS; do
    (cd /verif && PYVC_OUT_DIR=$OUT ./vcheck $c --tier quick 2>&1 | cut -c1-260 | tail -6; echo "check $c exit=${PIPESTATUS[0]}") | tee -a $DST/checks.log
  done
  git -C /repo checkout -- .
fi
rm -rf $OUT
git -C /repo status --short | grep -v "_tau_leap" || true
